"""C17 — Noise instructions describe physical channels."""
from __future__ import annotations

import json
import math
import os
import sys
import time
from fractions import Fraction as F

sys.path.insert(0, os.path.dirname(os.path.dirname(os.path.abspath(__file__))))

from common import Ctx, InfraError  # noqa: E402
from oracle import noise as O  # noqa: E402
from translate import c17gen  # noqa: E402

LIFT = "QuriVerif.Props.C17Lift"
LEAN_TARGETS = ["QuriVerif.Props.C17", "QuriVerif.Props.C17Lift", "QuriVerif.Generated.C17Obl", "QuriVerif.Driver.C17"]
LEAN_TARGETS_THOROUGH = ["QuriVerif.Props.C17Deep"]
ENTRY = "DriverC17.lean"
PROPS = "QuriVerif.Props.C17"
OBL = "QuriVerif.Generated.C17Obl"
DEEP = "QuriVerif.Props.C17Deep"

# witness keys of defects of the UNCHANGED tree (to be listed in known_findings.txt by the maintainer)
K_THERMAL = "ThermalRelaxationNoise.type-error"
K_NAN = "nan-accepted"
K_PAULI_CONV = "PauliNoise.convert-filter-indices"

TRUSTED = [
    "Lean 4.33 kernel incl. `decide +kernel`; Mathlib tactics (ring, linarith, nlinarith, grind) only produce kernel-checked terms; "
    "axioms audited ⊆ {propext, Classical.choice, Quot.sound}",
    "translator /verif/translate/c17gen.py: Python-subset grammar for validation statements / Kraus templates / Choi literal, "
    "normalised step text for the list factories, token patterns for the two Rust files",
    "SqrtRing (Proof/C17.lean): the abstract interface (ring ⊇ ℚ, √q·√q = q for q ≥ 0, √0 = 0) instantiated by ℝ with Real.sqrt "
    "(instance proved in Props/C17Deep.lean, thorough tier); entries √a·√b are identified with √(ab)",
    "fp53 (Model/C17.lean round53): IEEE-754 binary64 round-to-nearest-even in the normal range (no overflow / subnormals), validated "
    "every run against CPython floats; proved faithful (monotone, fixes 0 and 1) in Proof/C17Fp.lean",
    "CPython ≥ 3.12 `sum` of floats is modelled as ONE rounding of the exact sum (harness inputs keep every partial sum exact)",
    "NumPy numerics not modelled: sqrt (compared through exact squares with a 2^-44 relative bound that correct rounding implies), "
    "la.eig / la.inv matrix square root of ThermalRelaxationNoise, exp",
    "Qulacs semantics (BitFlipNoise, DephasingNoise, IndependentXZNoise, DepolarizingNoise, Probabilistic incl. identity completion, "
    "CPTP, DensityMatrix) validated every run against oracle/noise.py; the installed quri_parts.rust 0.27 binary stands in for the "
    "unbuildable working-tree Rust (tie to packages/rust/src only through the translator)",
    "Choi-matrix facts used as hypotheses of thermal_choi_psd_tp_partial (a = 1-e^{-t/T1} ∈ [0,1], e^{-2t/T2} ≤ e^{-t/T1} when T2 ≤ 2T1) "
    "are proved for real exp in Props/C17Deep.lean and checked numerically on the grid",
]

SCALAR = c17gen.SCALAR
FLIPS = c17gen.FLIPS
TEMPLATED = c17gen.TEMPLATED


# ---------------------------------------------------------------------------
# encodings
# ---------------------------------------------------------------------------
def xr(x: float) -> str:
    x = float(x)
    if math.isnan(x):
        return "nan"
    if math.isinf(x):
        return "inf" if x > 0 else "-inf"
    q = F(x)
    return f"{q.numerator}/{q.denominator}"


def xr_canon(tok: str) -> str:
    if tok in ("nan", "inf", "-inf"):
        return tok
    q = F(tok)
    return f"{q.numerator}/{q.denominator}"


def enc_mat(m) -> str:
    return ",".join(":".join(xr(e) for e in row) for row in m)


def enc_mats(ms) -> str:
    return ";".join(enc_mat(m) for m in ms)


def parse_resp(r: str):
    """driver response -> ('err', name) | ('ok', dict)"""
    if r.startswith("err "):
        return "err", r[4:].strip()
    if not r.startswith("ok "):
        raise InfraError(f"driver rejected a request: {r[:200]}")
    head, paulis, probs, kraus, mats, cq = [x.strip() for x in r[3:].split("|")]
    hw = head.split(" ")
    name = hw[0]
    n = int(hw[1].split("=")[1])
    params = [xr_canon(t) for t in head.split("params=")[1].split()]
    pl = paulis.split("=", 1)[1]
    pauli_list = [[int(i) for i in row.split(",") if i != ""] for row in pl.split(";")] if pl else []
    pr = [xr_canon(t) for t in probs.split("=", 1)[1].split()]
    ks = kraus.split("=", 1)[1]
    kraus_l = [[row.split(":") for row in m.split(",")] for m in ks.split(";")] if ks else []
    mt = mats.split("=", 1)[1]
    mats_l = [[[xr_canon(e) for e in row.split(":")] for row in m.split(",")] for m in mt.split(";")] if mt else []
    return "ok", {"name": name, "n": n, "params": params, "paulis": pauli_list, "probs": pr, "kraus": kraus_l,
                  "mats": mats_l, "cq": cq.split("=")[1] == "true"}


TOL_REL = F(1, 2 ** 44)


def entry_matches(tok: str, e: float) -> bool:
    """model entry token vs real float: exact on zero / NaN / ∞ / sign, and |e² − R| ≤ 2^-44·R otherwise
    (three correctly rounded operations give ≤ 6·2^-53 relative error on the square)"""
    if tok == "nan":
        return math.isnan(e)
    if tok in ("+inf", "-inf"):
        return math.isinf(e) and (e > 0) == (tok[0] == "+")
    if math.isnan(e) or math.isinf(e):
        return False
    r = F(tok[1:])
    if r == 0:
        return e == 0.0
    if e == 0.0 or (e < 0) != (tok[0] == "-"):
        return False
    return abs(F(e) ** 2 - r) <= TOL_REL * r


def canon_real(ins):
    return {
        "name": ins.name, "n": ins.qubit_count, "params": [xr(p) for p in ins.params],
        "paulis": [list(r) for r in ins.pauli_list], "probs": [xr(p) for p in ins.prob_list],
        "kraus": [[list(r) for r in m] for m in ins.kraus_operators],
        "mats": [[[xr(e) for e in r] for r in m] for m in ins.gate_matrices],
    }


def same_instr(model: dict, real: dict) -> str | None:
    for k in ("name", "n", "params", "paulis", "probs", "mats"):
        if model[k] != real[k]:
            return f"{k}: model {str(model[k])[:120]} real {str(real[k])[:120]}"
    mk, rk = model["kraus"], real["kraus"]
    if [len(m) for m in mk] != [len(m) for m in rk] or any(len(a) != len(b) for m, r in zip(mk, rk) for a, b in zip(m, r)):
        return f"kraus shape: model {len(mk)} real {len(rk)}"
    for i, (m, r) in enumerate(zip(mk, rk)):
        for a, (mr, rr) in enumerate(zip(m, r)):
            for b, (tok, e) in enumerate(zip(mr, rr)):
                if not entry_matches(tok, float(e)):
                    return f"kraus[{i}][{a}][{b}]: model {tok} real {e!r}"
    return None


# ---------------------------------------------------------------------------
# real code
# ---------------------------------------------------------------------------
def N():
    import quri_parts.circuit.noise as n

    return n


LAST_ERR = [""]


def real_call(fn, *a, **k):
    import warnings

    try:
        with warnings.catch_warnings():
            warnings.simplefilter("ignore")
            return "ok", fn(*a, **k)
    except Exception as e:  # noqa: BLE001 – the real code's behaviour, whatever it is
        LAST_ERR[0] = str(e)[:200]
        return "err", type(e).__name__


def is_thermal_type_error(name, err) -> bool:
    """the known defect: the complex Kraus list is refused by the Rust field (not: any TypeError, e.g. an unknown keyword)"""
    return name == "ThermalRelaxationNoise" and err == "TypeError" and ("complex" in LAST_ERR[0] or "kraus" in LAST_ERR[0])


def env_eig_complex() -> bool:
    import numpy as np

    w, v = np.linalg.eig(np.array([[0.99, 0, 0, 0.9], [0, 0.01, 0, 0], [0, 0, 0.09, 0], [0.9, 0, 0, 0.91]]))
    return w.dtype.kind == "c" or v.dtype.kind == "c"


# ---------------------------------------------------------------------------
# translate
# ---------------------------------------------------------------------------
def gen(ctx: Ctx):
    with ctx.timed("translate"):
        data, obl, info = c17gen.generate()
        ctx.write_generated("C17Data", data)
        ctx.write_generated("C17Obl", obl)
        ctx.generated_entries += info["entries"]
        ctx.extra["translator"] = {
            "unparsed": info["unparsed"], "defect_forms": info["defect_forms"], "rust": info["rust"],
            "thermal": {k: v for k, v in info["thermal"].items() if k in ("uses_general_eig", "decomposition", "prelude_ok")},
            "prob_check_rejects_nan": info["prob_check_rejects_nan"],
        }
        return info


# ---------------------------------------------------------------------------
# generators
# ---------------------------------------------------------------------------
ULP1_UP = math.nextafter(1.0, 2.0)
ULP1_DN = math.nextafter(1.0, 0.0)
TINY = 2.0 ** -60
PROB_POOL = [0.0, 1.0, ULP1_UP, ULP1_DN, 0.5, 0.25, 0.75, 0.125, 0.3, 0.1, 0.7, 0.9, 1e-18, TINY, 2.0 ** -500, 1.5, -0.5, 2.0, -1e-18,
             -(2.0 ** -1074), -0.0, math.inf, -math.inf, math.nan, 0.9999999999999999, 1 / 3, 2 / 3, 0.6, 0.4, 1.0000000000000004]
# values just outside [0,1] at the scales a "round-off allowance" would use, and integer-valued out-of-range values
PROB_POOL += [-1e-9, 1.0 + 1e-9, -1e-8, 1.0 + 1e-8, -1e-7, 1.0 + 1e-7, -1e-12, 1.0 + 1e-12, -1e-300, -1.0, 3.0]
IN_POOL = [p for p in PROB_POOL if O.is_prob(p)]

# ---------------------------------------------------------------------------
# argument forms (the documented signatures; every form denotes the same mathematical arguments)
# ---------------------------------------------------------------------------
KW_NAMES = {
    "BitFlipNoise": ["error_prob"], "PhaseFlipNoise": ["error_prob"], "BitPhaseFlipNoise": ["error_prob"], "DepolarizingNoise": ["error_prob"],
    "ResetNoise": ["p0", "p1"], "PhaseDampingNoise": ["phase_damping_rate"],
    "AmplitudeDampingNoise": ["amplitude_damping_rate", "excited_state_population"],
    "PhaseAmplitudeDampingNoise": ["phase_damping_rate", "amplitude_damping_rate", "excited_state_population"],
    "ThermalRelaxationNoise": ["t1", "t2", "gate_time", "excited_state_population"],
}
# qubit filters: descriptors -> the object handed to the factory ("range2", "np02" are a range / a NumPy array)
# (NumPy arrays are not offered as filters: the list factories of the unchanged tree refuse them (`if qubit_indices and …`), so they are
#  not part of the documented `Sequence[int]`)
QI_POOL = [(), [0], (0,), [1], [2, 0], (0, 1, 2), "range2", [1, 1], [5], [2 ** 32 + 1, 0], (2, 1), "range3"]
TG_POOL = [(), ["X"], ("H", "X"), ["CNOT"], ["Z"], ["X", "X"], ["CNOT", "H", "X"], ("H",)]
# in-range dyadic / integer-valued in-range / integer-valued out-of-range parameter vectors per factory
FORM_PARAMS = {
    "BitFlipNoise": [(0.25,), (1.0,), (0.0,), (2.0,), (-1.0,)],
    "PhaseFlipNoise": [(0.25,), (1.0,), (0.0,), (2.0,), (-1.0,)],
    "BitPhaseFlipNoise": [(0.25,), (1.0,), (0.0,), (2.0,), (-1.0,)],
    "DepolarizingNoise": [(0.75,), (1.0,), (0.0,), (2.0,), (-1.0,)],
    "PhaseDampingNoise": [(0.25,), (1.0,), (0.0,), (2.0,), (-1.0,)],
    "ResetNoise": [(0.25, 0.5), (1.0, 0.0), (0.0, 1.0), (0.0, 0.0), (1.0, 1.0), (2.0, 0.0), (0.0, -1.0)],
    "AmplitudeDampingNoise": [(0.5, 0.25), (1.0, 0.0), (0.0, 1.0), (1.0, 1.0), (2.0, 0.0), (0.0, -1.0)],
    "PhaseAmplitudeDampingNoise": [(0.25, 0.5, 0.25), (0.0, 1.0, 0.0), (1.0, 0.0, 1.0), (0.0, 0.0, 0.0), (1.0, 1.0, 0.0), (0.0, 0.0, 2.0), (-1.0, 0.0, 0.0)],
    "ThermalRelaxationNoise": [(50.0, 100.0, 1.0, 0.25), (50.0, 100.0, 1.0, 0.0), (1.0, 2.0, 0.0, 1.0), (1.0, 3.0, 1.0, 0.0), (0.0, 1.0, 1.0, 0.0), (1.0, 1.0, -1.0, 0.0)],
}


def qi_object(d):
    if d == "range2":
        return range(2)
    if d == "range3":
        return range(1, 3)
    return d


def qi_values(d):
    return [int(x) for x in qi_object(d)]


def form_key(form) -> str:
    return json.dumps(form, sort_keys=True, default=str) if form else ""


def num_forms(ps):
    out = ["float", "np64"]
    if all(math.isfinite(p) and p == int(p) and abs(p) < 2 ** 53 for p in ps):
        out.append("int")
        if all(p in (0.0, 1.0) for p in ps):
            out.append("bool")
    return out


def conv_num(p, how):
    if how == "int":
        return int(p)
    if how == "bool":
        return bool(p)
    if how == "np64":
        import numpy as np

        return np.float64(p)
    return p


def entry_module(which):
    if which == "mod":
        import quri_parts.circuit.noise.noise_instruction as m

        return m
    return N()


def call_scalar(name, ps, form):
    """the real factory on the parameter vector `ps` in the argument form `form` (None = positional floats, no filters)"""
    if not form:
        return real_call(getattr(N(), name), *ps)
    try:
        fn = getattr(entry_module(form.get("entry")), name)
    except Exception as e:  # noqa: BLE001 – a missing entry point is an output
        LAST_ERR[0] = str(e)[:200]
        return "err", type(e).__name__
    vals = [conv_num(p, form.get("num", "float")) for p in ps]
    extra = {}
    if "qi" in form:
        extra["qubit_indices"] = qi_object(form["qi"])
    if "tg" in form:
        extra["target_gates"] = form["tg"]
    if form.get("kw"):
        return real_call(fn, **dict(zip(KW_NAMES[name], vals)), **extra)
    if form.get("posfilters"):
        return real_call(fn, *vals, extra.get("qubit_indices", ()), extra.get("target_gates", ()))
    return real_call(fn, *vals, **extra)


def scalar_form_cases(ctx: Ctx):
    """(factory, params, form): every factory in every argument form on fixed parameter vectors, then random combinations"""
    rng = ctx.rng
    out = []
    for name, pvs in FORM_PARAMS.items():
        base = pvs[0]
        for pv in pvs:
            for nf in num_forms(pv):
                if nf != "float":
                    out.append((name, pv, {"num": nf}))
            out.append((name, pv, {"kw": True}))
        out.append((name, base, {"entry": "mod"}))
        out.append((name, base, {"num": "np64", "kw": True, "entry": "mod"}))
        for qi in QI_POOL:
            out.append((name, base, {"qi": qi}))
        for tg in TG_POOL:
            out.append((name, base, {"tg": tg}))
        out.append((name, base, {"qi": [2, 0], "tg": ("H", "X"), "posfilters": True}))
        out.append((name, base, {"qi": (1,), "tg": ["CNOT"], "kw": True}))
        out.append((name, base, {"qi": [0, 1, 2], "tg": ["X", "H", "CNOT"], "posfilters": True}))
    for _ in range(ctx.n(150, 6000)):
        name = rng.choice(list(FORM_PARAMS))
        ar = SCALAR[name][1]
        r = rng.random()
        if r < 0.4:
            pv = rng.choice(FORM_PARAMS[name])
        elif name == "ThermalRelaxationNoise":
            t1 = rng.choice([1.0, 50.0, 3.0, math.inf, 0.5])
            pv = (t1, rng.choice([t1, 2 * t1, t1 / 2, 3 * t1]), rng.choice([0.0, 1.0, 0.25, 10.0]), rng.choice([0.0, 1.0, 0.25, 0.5, 2.0]))
        elif r < 0.7:
            pv = tuple(float(rng.choice([0, 1, 0, 1, 2, -1])) for _ in range(ar))
        else:
            pv = tuple(rng.choice([0.0, 0.25, 0.5, 0.125, 1.0, 0.75]) if rng.random() < 0.8 else rand_prob(rng) for _ in range(ar))
        form = {"num": rng.choice(num_forms(pv))}
        if rng.random() < 0.4:
            form["kw"] = True
        if rng.random() < 0.6:
            form["qi"] = rng.choice(QI_POOL)
        if rng.random() < 0.6:
            form["tg"] = rng.choice(TG_POOL)
        if not form.get("kw") and rng.random() < 0.3:
            form["posfilters"] = True
        if rng.random() < 0.3:
            form["entry"] = "mod"
        out.append((name, tuple(float(p) for p in pv), form))
    return [(name, tuple(float(p) for p in pv), form) for name, pv, form in out]


def rand_prob(rng):
    r = rng.random()
    if r < 0.55:
        return rng.choice(PROB_POOL)
    if r < 0.75:
        return rng.randint(0, 64) / 64.0
    if r < 0.9:
        return rng.random()
    return rng.uniform(-0.5, 1.5)


def rand_pair_sum(rng):
    """pairs whose sum is near 1 (the rounded-sum boundary)"""
    r = rng.random()
    if r < 0.25:
        a = rng.choice([1.0, 0.5, 0.75, 0.25, 0.3, 0.7, 0.1, 0.9, 0.6, ULP1_DN, 1 / 3])
        b = 1.0 - a
        d = rng.choice([0.0, TINY, 1e-18, 2.0 ** -53, 2.0 ** -54, -(2.0 ** -54), 1e-17, 2.0 ** -52, -1e-17])
        b = b + d if rng.random() < 0.5 else math.nextafter(b, 2.0) if rng.random() < 0.5 else b
        if b == 0.0 and d != 0:
            b = abs(d)
        return (a, b) if rng.random() < 0.5 else (b, a)
    if r < 0.4:
        k = rng.randint(0, 32)
        return k / 32.0, (32 - k) / 32.0
    return rand_prob(rng), rand_prob(rng)


TIME_POOL = [1.0, 2.0, 50.0, 0.5, 1e-3, 1e300, math.inf, 0.0, -1.0, math.nan, 100.0, 30.0, 1e-9, 3.0]
GT_POOL = [0.0, 0.1, 1.0, 1e-9, 1e9, math.inf, -0.1, 0.25, 10.0, math.nan, -0.0]


def scalar_cases(ctx: Ctx):
    """(factory name, params) — fixed boundary cases first, then random"""
    rng = ctx.rng
    cases = []
    cdir = os.path.join(os.path.dirname(os.path.dirname(os.path.abspath(__file__))), "corpus", "C17")
    for fn in sorted(os.listdir(cdir)) if os.path.isdir(cdir) else []:
        if fn.endswith(".json"):
            for name, ps in json.load(open(os.path.join(cdir, fn))).get("scalar", []):
                cases.append((name, tuple(float(p) for p in ps)))
    ctx.extra["corpus_cases"] = len(cases)
    # witnesses of the Lean `_defect` theorems and the boundary grid, every run
    cases += [("ResetNoise", (1.0, TINY)), ("ResetNoise", (1.0, 1e-18)), ("PhaseAmplitudeDampingNoise", (TINY, 1.0, 0.5)),
              ("PhaseAmplitudeDampingNoise", (1e-18, 1.0, 0.5)), ("ThermalRelaxationNoise", (1.0, 1.0, 0.1, 0.1)),
              ("ThermalRelaxationNoise", (math.inf, math.inf, 0.1, 0.1)), ("ThermalRelaxationNoise", (50.0, 100.0, 1.0, 0.0)),
              ("ThermalRelaxationNoise", (50.0, math.nextafter(100.0, 200.0), 1.0, 0.0))]
    for name in FLIPS + ["PhaseDampingNoise"]:
        cases += [(name, (p,)) for p in PROB_POOL]
    for name in ("ResetNoise", "AmplitudeDampingNoise"):
        for a in (0.0, 1.0, ULP1_UP, ULP1_DN, 0.5, 0.3, -0.5, math.nan, math.inf, 2.0 ** -500):
            for b in (0.0, 1.0, ULP1_UP, 0.5, 0.7, TINY, -1e-18, math.nan):
                cases.append((name, (a, b)))
    for a, b, s in [(0.0, 0.0, 0.0), (1.0, 0.0, 1.0), (0.0, 1.0, 0.5), (0.5, 0.5, 0.5), (0.5, 0.5, ULP1_UP), (0.3, 0.7, 0.3), (0.7, 0.3, 0.3),
                    (0.25, 0.5, 1 / 3), (0.6, 0.4, 0.1), (0.6, 0.5, 0.1), (math.nan, 0.1, 0.1), (0.1, 0.1, math.nan), (0.1, 0.1, 1.5),
                    (ULP1_DN, 2.0 ** -53, 0.5), (ULP1_DN, 2.0 ** -54, 0.5), (1.0, 2.0 ** -54, 0.25)]:
        cases.append(("PhaseAmplitudeDampingNoise", (a, b, s)))
    if not ctx.quick():
        # exhaustive small scopes: every pair / triple of the boundary pool, every (T1, T2, gate_time) of the time pools
        for name in ("ResetNoise", "AmplitudeDampingNoise"):
            cases += [(name, (a, b)) for a in PROB_POOL for b in PROB_POOL]
        small = [0.0, 1.0, ULP1_UP, ULP1_DN, 0.5, 0.3, 0.7, TINY, -0.5, math.nan, 1.5, 2.0 ** -53]
        cases += [("PhaseAmplitudeDampingNoise", (a, b, c)) for a in small for b in small for c in small]
        cases += [("ThermalRelaxationNoise", (a, b, c, d)) for a in TIME_POOL for b in TIME_POOL for c in GT_POOL for d in (0.0, 0.3, 1.0, 1.5)]
    n_rand = ctx.n(150, 20000)
    for _ in range(n_rand):
        for name in FLIPS + ["PhaseDampingNoise"]:
            cases.append((name, (rand_prob(rng),)))
        a, b = rand_pair_sum(rng)
        cases.append(("ResetNoise", (a, b)))
        cases.append(("AmplitudeDampingNoise", (rand_prob(rng), rand_prob(rng))))
        a, b = rand_pair_sum(rng)
        cases.append(("PhaseAmplitudeDampingNoise", (a, b, rand_prob(rng) if rng.random() < 0.4 else rng.choice(IN_POOL))))
        t1 = rng.choice(TIME_POOL) if rng.random() < 0.7 else rng.uniform(0.1, 100)
        t2 = rng.choice(TIME_POOL + [2 * t1, math.nextafter(2 * t1, math.inf) if t1 == t1 else 1.0, t1]) if rng.random() < 0.7 else rng.uniform(0.1, 200)
        cases.append(("ThermalRelaxationNoise", (t1, t2, rng.choice(GT_POOL) if rng.random() < 0.7 else rng.uniform(0, 5),
                                                 rand_prob(rng) if rng.random() < 0.4 else rng.choice(IN_POOL))))
    # the model's fp53 ignores overflow / subnormals: keep arithmetic operands inside the normal range
    out = []
    for name, ps in cases:
        if name == "ThermalRelaxationNoise" and any(abs(p) > 8e307 and not math.isinf(p) for p in ps if p == p):
            continue
        out.append((name, tuple(float(p) for p in ps), None))
    return out + scalar_form_cases(ctx)


def dyadic(rng, bits=10):
    return rng.randint(0, 1 << bits) / float(1 << bits)


def prob_list(rng, k):
    """probability lists whose partial sums are exact (see TRUSTED: `sum`), with boundary variants"""
    r = rng.random()
    if r < 0.35:  # sums to ≤ 1
        cuts = sorted(rng.randint(0, 1024) for _ in range(k))
        ps = [(b - a) / 1024.0 for a, b in zip([0] + cuts[:-1], cuts)]
        if rng.random() < 0.5 and ps:
            ps[rng.randrange(len(ps))] = 0.0 if rng.random() < 0.3 else ps[0]
        ps = [min(1.0, p) for p in ps]
        if sum(F(p) for p in ps) > 1:
            ps = [p / 2 for p in ps]
        return ps
    if r < 0.5:  # exactly 1, plus possibly a tiny last addend (rounded sum = 1, exact sum > 1)
        cuts = sorted(rng.randint(0, 1024) for _ in range(k - 1)) + [1024]
        ps = [(b - a) / 1024.0 for a, b in zip([0] + cuts[:-1], cuts)]
        if rng.random() < 0.5:
            ps.append(rng.choice([TINY, 2.0 ** -54, 2.0 ** -30, 2.0 ** -20, 2.0 ** -27]))
        return ps
    if r < 0.65:
        return [dyadic(rng) for _ in range(k)]
    if r < 0.8:
        ps = [dyadic(rng, 6) for _ in range(k)]
        ps[rng.randrange(k)] = rng.choice([1.5, -0.25, math.nan, math.inf, ULP1_UP, -(2.0 ** -1074), 2.0])
        return ps
    return [rng.choice([0.5, 0.25, 0.125, 0.0, 1.0]) for _ in range(k)]


def exact_partial_sums(ps) -> bool:
    acc = 0.0
    for p in ps:
        if math.isnan(p) or math.isinf(p):
            return True  # rejected before the sum matters / sum is inf-nan in both
        if F(acc) + F(p) != F(acc + p) and p is not ps[-1]:
            return False
        acc = acc + p
    return True


def dy_matrix(rng, d, kind):
    import numpy as np

    if kind == "perm":
        p = list(range(d))
        rng.shuffle(p)
        m = [[1.0 if p[i] == j else 0.0 for j in range(d)] for i in range(d)]
        if rng.random() < 0.5:
            for i in range(d):
                if rng.random() < 0.5:
                    m[i] = [-x for x in m[i]]
        return m
    if kind == "ident":
        return np.eye(d).tolist()
    return [[rng.randint(-8, 8) / 8.0 for _ in range(d)] for _ in range(d)]


# ---------------------------------------------------------------------------
# density-matrix simulation through the real Qulacs conversion
# ---------------------------------------------------------------------------
def simulate(instr_list, k: int, rng, measurement=None):
    """circuit: one k-qubit gate on qubits 0..k-1 of a (k+1)-qubit register (X / CNOT / TOFFOLI), noise model = instr_list.
    returns (rho_in, rho_out, U) with rho_out from the REAL converter + Qulacs DensityMatrix"""
    import numpy as np
    import qulacs

    from quri_parts.circuit import QuantumCircuit
    from quri_parts.qulacs.circuit.noise import convert_circuit_with_noise_model

    n = k + 1
    c = QuantumCircuit(n)
    if k == 1:
        c.add_X_gate(0)
        U = O.embed(n, [0], O.X)
    elif k == 2:
        c.add_CNOT_gate(0, 1)
        cn = np.array([[1, 0, 0, 0], [0, 0, 0, 1], [0, 0, 1, 0], [0, 1, 0, 0]], dtype=complex)  # control = bit 0
        U = O.embed(n, [0, 1], cn)
    else:
        c.add_TOFFOLI_gate(0, 1, 2)
        t = np.eye(8, dtype=complex)
        t[[3, 7]] = t[[7, 3]]
        U = O.embed(n, [0, 1, 2], t)
    model = N().NoiseModel(list(instr_list) + ([measurement] if measurement is not None else []))
    qc = convert_circuit_with_noise_model(c, model)
    rho = O.random_density(rng, n)
    st = qulacs.DensityMatrix(n)
    st.load(rho)
    qc.update_quantum_state(st)
    return rho, np.array(st.get_matrix()), U


def check_simulation(ctx: Ctx, what: str, inp, instr, k: int, textbook=None, key_prefix=None):
    """property through the simulator: trace stays 1, state stays positive (and equals the textbook channel when given)"""
    import numpy as np

    key_prefix = key_prefix or what
    try:
        rho, out, U = simulate([instr], k, ctx.rng)
    except Exception as e:  # noqa: BLE001
        ctx.count("simulate", "raised:" + type(e).__name__)
        return "raised:" + type(e).__name__ + ": " + str(e)[:120]
    tr = float(np.trace(out).real)
    lo = O.min_eig(out)
    ctx.count("simulate", "ok")
    if not (abs(tr - 1) <= 1e-9) or not (lo >= -1e-9) or np.isnan(tr):
        return f"trace={tr!r} min-eigenvalue={lo!r}"
    if textbook is not None:
        exp = O.apply_kraus(U @ rho @ U.conj().T, textbook, k + 1, list(range(k)))
        d = float(np.max(np.abs(exp - out)))
        if d > 1e-9:
            return f"differs from the textbook channel by {d:.3g}"
    return None


GATES3 = [("X", [0]), ("H", [1]), ("CNOT", [1, 2]), ("X", [2])]


def gate_matrix(gname):
    import numpy as np

    if gname == "X":
        return O.X
    if gname == "H":
        return np.array([[1, 1], [1, -1]], dtype=complex) / math.sqrt(2.0)
    return np.array([[1, 0, 0, 0], [0, 0, 0, 1], [0, 0, 1, 0], [0, 1, 0, 0]], dtype=complex)  # CNOT, control = first listed qubit


def circuit3():
    from quri_parts.circuit import QuantumCircuit

    c = QuantumCircuit(3)
    c.add_X_gate(0)
    c.add_H_gate(1)
    c.add_CNOT_gate(1, 2)
    c.add_X_gate(2)
    return c


def expected3(rho, ks, qi, tg):
    """documented filter semantics of a single-qubit gate noise: after every gate whose name is in target_gates (empty = any),
    on each of its qubits that is in qubit_indices (empty = any)"""
    for gname, qs in GATES3:
        U = O.embed(3, qs, gate_matrix(gname))
        rho = U @ rho @ U.conj().T
        if tg and gname not in tg:
            continue
        for q in qs:
            if qi and q not in qi:
                continue
            rho = O.apply_kraus(rho, ks, 3, [q])
    return rho


def simulate3(instrs, rng, rho=None):
    import numpy as np
    import qulacs

    from quri_parts.qulacs.circuit.noise import convert_circuit_with_noise_model

    qc = convert_circuit_with_noise_model(circuit3(), N().NoiseModel(list(instrs)))
    if rho is None:
        rho = O.random_density(rng, 3)
    st = qulacs.DensityMatrix(3)
    st.load(rho)
    qc.update_quantum_state(st)
    return rho, np.array(st.get_matrix())


def check_simulation3(ctx: Ctx, instr, textbook, qi, tg):
    """a single-qubit instruction with filters on a 3-qubit circuit: trace one, positive; equal to the textbook channel applied
    where the filters say (only when no filter entry is repeated: the multiplicity of repeated entries is NoiseModel's business)"""
    import numpy as np

    try:
        rho, out = simulate3([instr], ctx.rng)
    except Exception as e:  # noqa: BLE001
        ctx.count("simulate3", "raised:" + type(e).__name__)
        return "raised:" + type(e).__name__ + ": " + str(e)[:120]
    ctx.count("simulate3", "ok")
    tr = float(np.trace(out).real)
    lo = O.min_eig(out)
    if not (abs(tr - 1) <= 1e-9) or not (lo >= -1e-9) or np.isnan(tr):
        return f"trace={tr!r} min-eigenvalue={lo!r}"
    if textbook is not None and len(set(qi)) == len(qi) and len(set(tg)) == len(tg):
        d = float(np.max(np.abs(expected3(rho, textbook, qi, tg) - out)))
        if d > 1e-9:
            return f"differs by {d:.3g} from the textbook channel applied where qubit_indices={qi} target_gates={tg} say"
    return None


def witness_once(ctx: Ctx, key, what, inp, detail=None, sub=None):
    """register a witness once per (key, sub) over the whole run"""
    seen = ctx.__dict__.setdefault("c17_seen", set())
    if (key, sub) in seen:
        return
    seen.add((key, sub))
    ctx.witness(key, what, inp, detail)


def real_instr(ctx: Ctx, name, ps):
    """real factory call for harness-internal use on IN-RANGE parameters; a rejection is a property witness, never a crash"""
    st, val = real_call(getattr(N(), name), *ps)
    if st == "err":
        key = K_THERMAL if is_thermal_type_error(name, val) else f"{name}.rejects-valid"
        witness_once(ctx, key, f"{name} raises {val} for parameters inside the documented range",
                     {"factory": name, "params": [repr(float(p)) for p in ps]})
        return None
    return val


# ---------------------------------------------------------------------------
# K + oracle for the scalar factories
# ---------------------------------------------------------------------------
def classify_bad_accept(name, ps, info) -> str:
    if any(math.isnan(p) for p in ps):
        return K_NAN
    if name in ("ResetNoise", "PhaseAmplitudeDampingNoise") and all(O.is_prob(p) for p in ps):
        if F(ps[0]) + F(ps[1]) > 1 and ps[0] + ps[1] <= 1.0:
            return f"{name}.rounded-sum"
    return f"{name}.accepts-invalid"


def run_scalar(ctx: Ctx, info, flags: str, cases):
    import numpy as np

    n = N()
    reqs = [f"scalar fp53 {flags} gen {name} " + " ".join(xr(p) for p in ps) for name, ps, _ in cases]
    resp = ctx.driver(reqs, entry=ENTRY)
    bad_accepts: dict = {}
    for (name, ps, form), r in zip(cases, resp):
        st, val = call_scalar(name, ps, form)
        mst, mval = parse_resp(r)
        raw_err = val if st == "err" else None
        thermal_known = st == "err" and is_thermal_type_error(name, val)
        if name == "ThermalRelaxationNoise":
            # after validation the factory runs NumPy numerics (la.eig / la.inv) that the model does not follow:
            # every failure that is not the validation's ValueError is one class
            if st == "err" and val != "ValueError":
                val = "AfterValidationError"
            if mst == "err" and mval != "ValueError":
                mval = "AfterValidationError"
            if any(math.isnan(p) for p in ps) and not (st == "err" and val == "ValueError") and not (mst == "err" and mval == "ValueError"):
                # NaN slipped through the validation in both: what la.eig does with a NaN matrix is not modelled
                st, val, mst, mval = "err", "AfterValidationError", "err", "AfterValidationError"
        rng_ok = O.in_range(name, ps)
        canon = (name,) + tuple(xr(p) for p in ps) + ((form_key(form),) if form else ())
        ctx.case(canon, nontrivial=True, sample={"factory": name, "params": [repr(p) for p in ps], "real": st if st == "err" else "ok", "model": r[:160]})
        ctx.traces += 1
        ctx.count("factory", name)
        ctx.count("outcome", f"{'in' if rng_ok else 'out'}-range/{raw_err if st == 'err' else 'ok'}")
        inp = {"factory": name, "params": [repr(p) for p in ps]}
        if form:
            inp["form"] = form
            for fk, fv in form.items():
                ctx.count("form", f"{fk}={fv}" if fk in ("num", "kw", "entry", "posfilters") else fk)
        # --- correspondence
        if st != mst or (st == "err" and val != mval):
            ctx.disagree("scalarFactory", inp, f"{st} {val if st == 'err' else ''}", r[:300])
        elif st == "ok":
            real = canon_real(val)
            if name == "ThermalRelaxationNoise":
                real["kraus"], mval["kraus"] = [], []
            why = same_instr(mval, real)
            if why:
                ctx.disagree("scalarFactory", inp, why, r[:300])
        # --- property on the real outcome (independent oracle)
        if st == "err":
            if rng_ok:
                key = K_THERMAL if thermal_known else f"{name}.rejects-valid"
                witness_once(ctx, key, f"{name} raises {raw_err} for parameters inside the documented range", inp)
            continue
        # --- the filters are stored as given (the model's instruction is the one for these filters)
        qi_l = qi_values(form["qi"]) if form and "qi" in form else []
        tg_l = list(form["tg"]) if form and "tg" in form else []
        try:
            got_f = (list(val.qubit_indices), list(val.target_gates))
        except Exception as e:  # noqa: BLE001
            got_f = f"unreadable: {type(e).__name__}"
        if got_f != (qi_l, tg_l):
            ctx.disagree("scalarFactory.filters", inp, str(got_f), str((qi_l, tg_l)))
        if not rng_ok:
            key = classify_bad_accept(name, ps, info)
            # keep, per (key, factory), the most clearly unphysical accepted input (largest distance from [0,1])
            dist = max([0.0] + [max(-p, p - 1.0) for p in ps if math.isfinite(p)])
            cur = bad_accepts.get((key, name))
            if cur is None or dist > cur[0]:
                bad_accepts[(key, name)] = (dist, ps, val, inp)
            continue
        # in range and accepted: must be a physical channel
        if val.kraus_operators:
            res = O.kraus_residual(val.kraus_operators)
            if not res <= 1e-12:
                witness_once(ctx, f"{name}.not-cptp", f"Σ K†K differs from 1 by {res:.3g}", inp)
                continue
            d = float(np.max(np.abs(O.superop(val.kraus_operators) - O.superop(O.textbook_kraus(name, ps)))))
            if d > 1e-9:
                ctx.count("textbook", "differs")  # not a C17 violation: still a physical channel
        if form and ("qi" in form or "tg" in form):
            if ctx.rng.random() < (0.7 if ctx.quick() else 0.3):
                bad = check_simulation3(ctx, val, O.textbook_kraus(name, ps), qi_l, tg_l)
                if bad:
                    witness_once(ctx, f"{name}.simulator", f"{name} with filters through convert_circuit_with_noise_model + DensityMatrix "
                                 f"(X(0) H(1) CNOT(1,2) X(2) on 3 qubits): {bad}", inp)
        elif ctx.rng.random() < (0.5 if ctx.quick() else 0.25) or len(ctx.dist.get("simulate", {})) == 0:
            bad = check_simulation(ctx, name, inp, val, 1, textbook=O.textbook_kraus(name, ps))
            if bad:
                witness_once(ctx, f"{name}.simulator", f"{name} through convert_circuit_with_noise_model + DensityMatrix: {bad}", inp)
    for (key, name), (dist, ps, val, inp) in bad_accepts.items():
        detail = {}
        if val.kraus_operators:
            detail["kraus_has_nan"] = bool(np.isnan(np.array(val.kraus_operators, dtype=float)).any())
        if all(math.isfinite(p) for p in ps):
            detail["simulator"] = check_simulation(ctx, name, inp, val, 1)
        witness_once(ctx, key, f"{name} accepts parameters outside the documented range", inp, detail, sub=name)


# ---------------------------------------------------------------------------
# K + oracle for the list factories
# ---------------------------------------------------------------------------
LIST_SIG = {
    "pauli": ("PauliNoise", ["pauli_list", "prob_list", "qubit_indices", "target_gates", "eq_tolerance"], 2),
    "gdepol": ("GeneralDepolarizingNoise", ["error_prob", "qubit_count", "qubit_indices", "target_gates"], 2),
    "prob": ("ProbabilisticNoise", ["gate_matrices", "prob_list", "qubit_indices", "target_gates", "eq_tolerance"], 2),
    "kraus": ("KrausNoise", ["kraus_list", "qubit_indices", "target_gates"], 1),
}


def deep_tuple(x):
    return tuple(deep_tuple(e) for e in x) if isinstance(x, (list, tuple)) else x


def deep_int(x):
    if isinstance(x, (list, tuple)):
        return type(x)(deep_int(e) for e in x)
    if isinstance(x, float) and math.isfinite(x) and x == int(x) and abs(x) < 2 ** 53:
        return int(x)
    return x


def make_list_call(kind, vals, form):
    """-> (thunk calling the real factory on `vals` in the argument form `form`, the argument objects it passes);
    forms: tuples for lists, keywords, ints for integer-valued floats, trailing defaults left out, range objects, entry module"""
    import copy

    fname, names, required = LIST_SIG[kind]
    objs = []
    for nm, v in zip(names, vals):
        o = copy.deepcopy(v)
        if form.get("int") and nm in ("prob_list", "gate_matrices", "kraus_list", "error_prob"):
            o = deep_int(o)
        if form.get("range") and nm == "qubit_indices" and len(o) > 0 and list(o) == list(range(len(o))):
            o = range(len(o))
        elif form.get("tuple") and nm != "qubit_count":
            o = deep_tuple(o)
        objs.append(o)
    k = len(objs)
    if form.get("trim"):
        while k > required and ((names[k - 1] in ("qubit_indices", "target_gates") and len(vals[k - 1]) == 0)
                                or (names[k - 1] == "eq_tolerance" and vals[k - 1] == 1.0e-8)):
            k -= 1

    def call():
        fn = getattr(entry_module(form.get("entry")), fname)
        if form.get("kw"):
            return fn(**dict(zip(names[:k], objs[:k])))
        return fn(*objs[:k])

    return call, objs


def index_lists(rng, nq, exhaustive=False):
    """qubit-index lists for a `nq`-qubit noise: every length 0 .. nq+2; distinct (ascending, reversed, rotated, offset, shuffled),
    with repetitions (constant; one entry repeated; LONGER than nq with exactly nq distinct entries in several arrangements;
    SHORTER/EQUAL with fewer distinct entries).  exhaustive: all lists over {0..nq} up to length nq+2 (nq = 2 only: 121 lists)."""
    import itertools

    out = []

    def put(l):
        l = [int(x) for x in l]
        if l not in out:
            out.append(l)

    for L in range(0, nq + 3):
        base = list(range(L))
        put(base)
        put(base[::-1])
        put(base[1:] + base[:1])
        put([x + 1 for x in base])
        sh = base[:]
        rng.shuffle(sh)
        put(sh)
        if L >= 2:
            put([1] * L)
            put(base[:-1] + [base[-2]])          # last entry repeats its neighbour: L-1 distinct
            put([base[0]] + base[:-1])           # first entry repeated
        if L > nq:
            core = list(range(nq))
            put(core + [core[-1]] * (L - nq))     # [0,1,1], [0,1,1,1], [0,1,2,2] …: exactly nq distinct, too long
            put((core[::-1] * L)[:L])             # [1,0,1], [1,0,1,0] …
            put([core[0]] * (L - nq) + core)
            mixed = core + [rng.choice(core) for _ in range(L - nq)]
            rng.shuffle(mixed)
            put(mixed)
            put([x + 1 for x in core] + [core[0] + 1] * (L - nq))
    if exhaustive and nq == 2:
        for L in range(0, nq + 3):
            for t in itertools.product(range(nq + 1), repeat=L):
                put(t)
    return out


def list_valid(kind, meta):
    """independent reading of the documented conditions of the list factories (shape / range side only);
    None = too close to the eq_tolerance boundary to judge without reproducing the float sum"""
    def filt_ok(nq):
        """the documented rule (docstring + error text of `_check_valid_qubit_indices`): for a multi-qubit noise the filter is empty or
        has exactly `qubit_count` entries ("without excess or deficiency", "a list of length qubit_count (exact match)"); for a
        single-qubit noise any list.  A list of the right length with a REPEATED entry (e.g. [1, 1]) is accepted by the unchanged tree
        although it cannot name `qubit_count` qubits: the documents do not settle it, so neither accepting nor rejecting it is judged
        (None); the model correspondence still pins the unchanged behaviour."""
        qi = list(meta["qubit_indices"])
        k = len(qi)
        if k == 0 or nq <= 1:
            return True
        if k != nq:
            return False
        return True if len(set(qi)) == k else None

    def probs_ok(ps, tol):
        if not ps or not all(O.is_prob(p) for p in ps):
            return False
        tot = sum(F(p) for p in ps)
        lim = 1 + F(tol)
        if abs(tot - lim) < F(1, 10 ** 12) and tot != lim:
            return None
        return tot <= lim

    def square_pow2(ms):
        if not ms:
            return None
        d = len(ms[0])
        if d < 2 or d & (d - 1):
            return None
        for m in ms:
            if len(m) != d or any(len(r) != d for r in m):
                return None
        return d.bit_length() - 1

    if kind == "pauli":
        pa, pr = meta["pauli_list"], meta["_probs"]
        if not pa or len(pa) != len(pr):
            return False
        po = probs_ok(pr, meta["_tol"])
        if not po:
            return po
        nq = len(pa[0])
        return all(len(r) == nq and all(0 <= i <= 3 for i in r) for r in pa) and filt_ok(nq)
    if kind == "gdepol":
        return meta["_nq"] > 0 and O.is_prob(meta["_p"]) and filt_ok(meta["_nq"])
    if kind == "prob":
        ms, pr = meta["_ms"], meta["_probs"]
        if not ms or len(ms) != len(pr):
            return False
        po = probs_ok(pr, meta["_tol"])
        if not po:
            return po
        nq = square_pow2(ms)
        return nq is not None and filt_ok(nq)
    if kind == "kraus":
        nq = square_pow2(meta["_ms"])
        return nq is not None and filt_ok(nq)
    raise KeyError(kind)


def run_lists(ctx: Ctx, info):
    import numpy as np

    rng = ctx.rng
    tol_default = 1.0e-8
    reqs, metas = [], []

    R = ctx.n(120, 12000)
    Xm, Im = [[0.0, 1.0], [1.0, 0.0]], [[1.0, 0.0], [0.0, 1.0]]
    I4 = [[1.0 if i == j else 0.0 for j in range(4)] for i in range(4)]
    GATE_OF = {1: "X", 2: "CNOT", 3: "TOFFOLI"}
    fixed_forms = [{}, {"tuple": True}, {"kw": True}, {"int": True}, {"trim": True}, {"tuple": True, "kw": True, "int": True},
                   {"entry": "mod"}, {"range": True, "trim": True}, {"kw": True, "trim": True, "entry": "mod"}]
    nfixed = [0]

    def pick_form(fixed):
        if fixed:
            nfixed[0] += 1
            return dict(fixed_forms[nfixed[0] % len(fixed_forms)])
        f = {}
        for key, pr in (("tuple", 0.35), ("kw", 0.35), ("int", 0.3), ("trim", 0.4), ("range", 0.3)):
            if rng.random() < pr:
                f[key] = True
        if rng.random() < 0.25:
            f["entry"] = "mod"
        return f

    def pick_indices(nq, nidx):
        if nidx == 0:
            return []
        r = rng.random()
        if nidx == nq and nq > 1:
            idx = list(range(nq))
            if r < 0.5:
                rng.shuffle(idx)
            elif r < 0.65:
                idx = [i + 1 for i in idx]
            return idx
        return list(range(nidx)) if r < 0.5 else rng.sample(range(4), nidx)

    def pick_tg(nq):
        r = rng.random()
        g = GATE_OF.get(nq, "X")
        return [] if r < 0.6 else [g] if r < 0.8 else ["H"] if r < 0.9 else ["H", g]

    def add(kind, req, vals, meta, fixed=False):
        form = pick_form(fixed)
        call, objs = make_list_call(kind, vals, form)
        meta = dict(meta)
        meta["form"] = form
        meta["_objs"], meta["_snap"] = objs, repr(objs)
        reqs.append(req)
        metas.append((kind, call, meta))

    def add_pauli(paulis, probs, idx, tg=(), tol=tol_default, fixed=False):
        add("pauli", f"pauli fp53 {xr(tol)} {len(idx)} | {';'.join(','.join(map(str, r_)) for r_ in paulis)} | {' '.join(xr(p) for p in probs)}",
            [paulis, probs, idx, list(tg), tol],
            {"factory": "PauliNoise", "pauli_list": paulis, "prob_list": [repr(p) for p in probs], "qubit_indices": idx, "target_gates": list(tg),
             "eq_tolerance": repr(tol), "_probs": probs, "_tol": tol, "_nq": len(paulis[0]) if paulis else 0}, fixed)

    def add_gdepol(p_, nq, idx, tg=(), fixed=False):
        add("gdepol", f"gdepol fp53 {xr(p_)} {nq} {len(idx)}", [p_, nq, idx, list(tg)],
            {"factory": "GeneralDepolarizingNoise", "error_prob": repr(p_), "qubit_count": nq, "qubit_indices": idx, "target_gates": list(tg),
             "_p": p_, "_nq": nq}, fixed)

    def add_prob(ms, probs, idx, tg=(), tol=tol_default, fixed=False):
        add("prob", f"prob fp53 {xr(tol)} {len(idx)} | {enc_mats(ms)} | {' '.join(xr(p) for p in probs)}", [ms, probs, idx, list(tg), tol],
            {"factory": "ProbabilisticNoise", "gate_matrices": ms, "prob_list": [repr(p) for p in probs], "qubit_indices": idx, "target_gates": list(tg),
             "eq_tolerance": repr(tol), "_probs": probs, "_tol": tol, "_ms": ms}, fixed)

    def add_kraus(ms, idx, tg=(), fixed=False):
        add("kraus", f"kraus {len(idx)} | {enc_mats(ms)}", [ms, idx, list(tg)],
            {"factory": "KrausNoise", "kraus_list": ms, "qubit_indices": idx, "target_gates": list(tg), "_ms": ms}, fixed)

    # --- fixed cases, every run: the witnesses of the Lean defect theorems, every documented rejecting branch, boundary sums
    for paulis, probs, idx in [([[1]], [0.25], [0]), ([[1], [3]], [0.5, 0.5], [0]), ([[1, 2]], [0.25], [0, 1]), ([[1]], [1.0], []), ([[3]], [0.0], [0, 1]),
                               ([], [], []), ([[1]], [], []), ([], [0.5], []), ([[1], [2]], [0.5], []), ([[1]], [0.5, 0.25], []),
                               ([[1]], [1.5], []), ([[1]], [-0.25], []), ([[1], [2]], [0.75, 0.5], []), ([[4]], [0.5], []), ([[2 ** 32 + 1]], [0.5], []),
                               ([[1, 2], [3]], [0.25, 0.25], []), ([[1, 2]], [0.5], [0]), ([[1, 2]], [0.5], [0, 1, 2]), ([[1, 2]], [0.5], [1, 0]),
                               ([[1, 2, 3]], [0.5], [2, 0, 1]), ([[1], [2]], [1.0, 2.0 ** -30], [0]), ([[1], [2]], [1.0, 2.0 ** -20], [0]),
                               ([[0], [1], [2], [3]], [0.25, 0.25, 0.25, 0.25], [0]), ([[1], [1]], [0.5, 0.5], [0])]:
        add_pauli(paulis, probs, idx, fixed=True)
    add_pauli([[1], [2]], [0.5, 0.5], [0], tol=0.0, fixed=True)
    add_pauli([[1], [2]], [0.5, 0.5], [0], tg=["X"], fixed=True)
    add_pauli([[1, 3]], [0.5], [1, 0], tg=["CNOT", "H"], fixed=True)
    for p_, nq, idx in [(0.5, 1, []), (0.5, 1, [0]), (0.75, 2, [0, 1]), (1.0, 1, [0]), (0.0, 2, [0, 1]), (0.5, 0, []), (1.5, 1, []), (-0.25, 1, [0]),
                        (0.5, 2, [0]), (0.5, 2, [0, 1, 2]), (0.5, 2, [1, 0]), (0.25, 3, [2, 0, 1]), (ULP1_UP, 1, [0]), (1.0 + 1e-9, 1, [0]), (-1e-9, 2, [])]:
        add_gdepol(p_, nq, idx, fixed=True)
    add_gdepol(0.5, 2, [1, 0], tg=["CNOT"], fixed=True)
    two = [[2.0, 0.0], [0.0, 2.0]]  # the inputs of kraus_unchecked_defect / probabilistic_unchecked_defect
    for ms, probs, idx in [([two], [1.0], []), ([Xm], [0.25], []), ([Xm], [1.0], [0]), ([Xm, Im], [0.5, 0.5], []), ([Xm], [0.0], []),
                           ([], [], []), ([Xm], [], []), ([], [0.5], []), ([Xm, Im], [0.5], []), ([Xm], [0.5, 0.25], []), ([Xm], [1.5], []),
                           ([Xm], [-0.25], []), ([Xm, Im], [0.75, 0.5], []), ([[[1.0]]], [0.5], []), ([[[1.0, 0.0, 0.0], [0.0, 1.0, 0.0], [0.0, 0.0, 1.0]]], [0.5], []),
                           ([[[1.0, 0.0, 0.0], [0.0, 1.0, 0.0]]], [0.5], []), ([Xm, I4], [0.25, 0.25], []), ([I4, Xm], [0.25, 0.25], []),
                           ([I4], [0.25], [0]), ([I4], [0.25], [0, 1, 2]), ([I4], [0.25], [1, 0]), ([I4], [0.25], [0, 1]),
                           ([dy_matrix(rng, 8, "perm")], [0.25], [2, 0, 1]), ([Xm, Im], [1.0, 2.0 ** -30], [0]), ([Xm, Im], [1.0, 2.0 ** -20], [0])]:
        add_prob(ms, probs, idx, fixed=True)
    add_prob([Xm, Im], [0.5, 0.5], [0], tol=0.0, fixed=True)
    add_prob([Xm], [0.25], [0], tg=["X", "H"], fixed=True)
    for ms, idx in [([two], []), ([Im], []), ([Xm], [0]), ([[[0.5, 0.0], [0.0, 0.5]]] * 4, []), ([], []), ([[[1.0]]], []),
                    ([[[1.0, 0.0, 0.0], [0.0, 1.0, 0.0], [0.0, 0.0, 1.0]]], []), ([[[1.0, 0.0, 0.0], [0.0, 1.0, 0.0]]], []), ([Xm, I4], []), ([I4, Xm], []),
                    ([I4], [0]), ([I4], [0, 1, 2]), ([I4], [1, 0]), ([I4], [0, 1]), ([Xm], [0, 1, 2]), ([dy_matrix(rng, 8, "perm")], [1, 2, 0])]:
        add_kraus(ms, idx, fixed=True)
    add_kraus([Xm], [0], tg=["X"], fixed=True)
    add_kraus([I4], [1, 0], tg=["H", "CNOT"], fixed=True)
    # --- qubit filters of the multi-qubit factories, systematically: every length 0 .. qubit_count+2, ascending / permuted, and with
    #     repetitions (all equal; one repeated entry; too long with exactly qubit_count DISTINCT entries, e.g. [0,1,1], [1,0,1,0])
    for nq in (2, 3):
        lists = index_lists(rng, nq, exhaustive=not ctx.quick())
        ctx.count("index-lists", f"nq={nq}", len(lists))
        perm_m = dy_matrix(rng, 2 ** nq, "perm")
        ident_m = [[1.0 if i == j else 0.0 for j in range(2 ** nq)] for i in range(2 ** nq)]
        for idx in lists:
            add_pauli([[1, 3, 2][:nq]], [0.25], idx, fixed=True)
            add_gdepol(0.25, nq, idx, fixed=True)
            add_prob([perm_m], [0.25], idx, fixed=True)
            add_kraus([ident_m], idx, fixed=True)
    # --- PauliNoise
    for i in range(R):
        nq = rng.choice([1, 1, 2, 3])
        k = rng.randint(1, 4)
        paulis = [[rng.randint(0, 3) for _ in range(nq)] for _ in range(k)]
        probs = prob_list(rng, k)
        r = rng.random()
        if r < 0.06:
            paulis[rng.randrange(k)][rng.randrange(nq)] = rng.choice([4, 5, 7, 2 ** 32, 2 ** 32 + 2])
        elif r < 0.12 and nq > 1:
            paulis[rng.randrange(k)].pop()
        elif r < 0.16:
            paulis = paulis[:-1]
        elif r < 0.18:
            paulis, probs = [], []
        elif r < 0.2:
            probs = []
        if not exact_partial_sums(probs):
            continue
        tol = tol_default if rng.random() < 0.8 else rng.choice([0.0, 0.5, 2.0 ** -20])
        nidx = rng.choice([0, 0, nq, nq, 1, 2, 3])
        add_pauli(paulis, probs, pick_indices(nq, nidx), pick_tg(nq), tol)
    # --- GeneralDepolarizingNoise
    for i in range(R // 2 + 8):
        p = rng.choice([0.0, 1.0, 0.5, 0.3, 0.75, ULP1_UP, ULP1_DN, -0.25, 1.5, math.nan, 0.1, TINY, 2.0 ** -500, -1e-9, 1.0 + 1e-9, 2.0, -1.0]) \
            if rng.random() < 0.6 else rng.random()
        nq = rng.choice([0, 1, 1, 2, 2, 3])
        nidx = rng.choice([0, 0, nq, nq, 1, 2])
        add_gdepol(p, nq, pick_indices(nq, nidx), pick_tg(nq))
    # --- ProbabilisticNoise
    for i in range(R):
        d = rng.choice([2, 2, 2, 4, 4, 8, 3, 1])
        k = rng.randint(1, 3)
        kinds = [rng.choice(["perm", "perm", "ident", "rand"]) for _ in range(k)]
        ms = [dy_matrix(rng, d, kd) for kd in kinds]
        probs = prob_list(rng, k)
        r = rng.random()
        if r < 0.05 and d >= 2:
            ms[rng.randrange(k)] = dy_matrix(rng, d * 2, "perm")
        elif r < 0.1 and d >= 2:
            ms[rng.randrange(k)][0] = ms[0][0][:-1]
        elif r < 0.13:
            ms = ms[:-1]
        elif r < 0.15:
            ms, probs = [], []
        elif r < 0.17:
            probs = []
        if not exact_partial_sums(probs):
            continue
        tol = tol_default if rng.random() < 0.8 else rng.choice([0.0, 0.5])
        nq = int(math.log2(d)) if d in (2, 4, 8) else 1
        nidx = rng.choice([0, 0, nq, nq, 1, 2])
        add_prob(ms, probs, pick_indices(nq, nidx), pick_tg(nq), tol)
    # --- KrausNoise
    for i in range(R // 2 + 8):
        d = rng.choice([2, 2, 4, 8, 3, 1])
        r = rng.random()
        if r < 0.5 and d in (2, 4, 8):  # a complete set: permutation-type operators with dyadic weights summing to 1 in squares
            w = rng.choice([[1.0], [0.5, 0.5, 0.5, 0.5], [0.75, 0.25] if False else [0.5, 0.5, 0.5, 0.5], [1.0, 0.0]])
            ms = [[[w_ * e for e in row] for row in dy_matrix(rng, d, "perm")] for w_ in w]
        else:
            ms = [dy_matrix(rng, d, rng.choice(["perm", "rand", "ident"])) for _ in range(rng.randint(1, 3))]
        if r > 0.9 and ms and len(ms[0]) > 1:
            ms[0] = ms[0][:-1]
        if r > 0.95:
            ms = []
        nq = int(math.log2(d)) if d in (2, 4, 8) else 1
        nidx = rng.choice([0, 0, nq, nq, 1, 2])
        add_kraus(ms, pick_indices(nq, nidx), pick_tg(nq))
    resp = ctx.driver(reqs, entry=ENTRY)
    sims = 0
    for (kind, call, meta), r in zip(metas, resp):
        st, val = real_call(call)
        if r == "bad-request":
            raise InfraError(f"driver rejected a {kind} request")
        mst, mval = parse_resp(r)
        pub = {k: v for k, v in meta.items() if not k.startswith("_")}
        ctx.case((kind, json.dumps(pub, sort_keys=True, default=str)), nontrivial=True,
                 sample={"factory": meta["factory"], "real": st if st == "err" else "ok", "model": r[:120]})
        ctx.traces += 1
        ctx.count("factory", meta["factory"])
        ctx.count("outcome", f"{meta['factory']}/{val if st == 'err' else 'ok'}")
        if st != mst or (st == "err" and val != mval):
            ctx.disagree(kind, pub, f"{st} {val if st == 'err' else ''}", r[:300])
            mval = None
        for fk in meta.get("form", {}):
            ctx.count("list-form", fk)
        # --- history: the same argument objects a second time give the same outcome, and the call leaves them as they were
        st2, val2 = real_call(call)
        same2 = (st2 == st) and ((val2 == val) if st == "err" else (canon_real(val2) == canon_real(val)
                                                                    and list(val2.qubit_indices) == list(val.qubit_indices)
                                                                    and list(val2.target_gates) == list(val.target_gates)))
        untouched = repr(meta["_objs"]) == meta["_snap"]
        if not same2 or not untouched:
            hist = dict(pub, history="the factory is called twice with the same argument objects")
            if st == "ok" and st2 == "err" and list_valid(kind, meta) is True:
                witness_once(ctx, f"{meta['factory']}.rejects-valid", f"valid arguments are rejected ({val2}) when the same argument objects are "
                             f"passed a second time (after the first call they read {repr(meta['_objs'])[:200]})", hist)
            else:
                ctx.disagree(kind + ".history", hist, f"second call: {st2} {val2 if st2 == 'err' else ''}; arguments after the calls "
                             f"{repr(meta['_objs'])[:200]}", f"first call: {st}; arguments before {meta['_snap'][:200]}")
        if st == "err":
            # valid ⇒ accepted (independent reading of the documented conditions)
            if list_valid(kind, meta) is True:
                witness_once(ctx, f"{meta['factory']}.rejects-valid", f"valid arguments rejected ({val})", pub)
            continue
        # --- the filters are stored as given
        try:
            got_f = (list(val.qubit_indices), list(val.target_gates))
        except Exception as e:  # noqa: BLE001
            got_f = f"unreadable: {type(e).__name__}"
        if got_f != (list(meta["qubit_indices"]), list(meta["target_gates"])):
            ctx.disagree(kind + ".filters", pub, str(got_f), str((meta["qubit_indices"], meta["target_gates"])))
        if list_valid(kind, meta) is False:
            bad_nan = any(isinstance(p, float) and math.isnan(p) for p in meta.get("_probs", [])) or \
                (kind == "gdepol" and math.isnan(meta["_p"]))
            witness_once(ctx, K_NAN if bad_nan else f"{meta['factory']}.accepts-invalid",
                         "arguments outside the documented range are accepted", pub, sub=meta["factory"])
            continue
        real = canon_real(val)
        why = same_instr(mval, real) if isinstance(mval, dict) else None
        if why:
            ctx.disagree(kind, pub, why, r[:300])
        # --- property on the accepted real instruction (judged by the oracle alone, also after a disagreement)
        probs = [float(p) for p in val.prob_list]
        key = None
        if any(math.isnan(p) for p in probs) or (kind == "gdepol" and math.isnan(meta["_p"])):
            key, what = K_NAN, "NaN probability accepted"
        elif probs:
            tol = meta.get("_tol", tol_default)
            tot = sum(F(p) for p in probs)
            if min(probs) < 0 or tot > 1 + F(tol) or (kind in ("prob", "gdepol") and tot < 1 - F(1, 10 ** 12)):
                key, what = f"{meta['factory']}.weights", f"weights {probs[:6]} are not a distribution (sum {float(tot)!r})"
        if key is None and kind == "prob":
            dim = 2 ** val.qubit_count
            for m in val.gate_matrices:
                a = np.array(m, dtype=float)
                if a.shape != (dim, dim):
                    key, what = "ProbabilisticNoise.shape", f"a mixture operator of shape {a.shape} on {val.qubit_count} qubits (must be {dim}×{dim})"
                    break
                if np.max(np.abs(a.T @ a - np.eye(len(a)))) > 1e-12:
                    key, what = "ProbabilisticNoise.unchecked", "a non-unitary gate matrix is accepted"
        if key is None and kind == "kraus":
            res = O.kraus_residual(val.kraus_operators)
            if res > 1e-12:
                key, what = "KrausNoise.unchecked", f"an incomplete Kraus set is accepted (Σ K†K − 1 = {res:.3g})"
        if key is not None:
            witness_once(ctx, key, what, pub)
            continue
        # physical parameters: through the simulator (needs a gate of the same arity)
        k = val.qubit_count
        if probs and sum(F(p) for p in probs) > 1 + F(1, 10 ** 7):
            continue  # a user-chosen large eq_tolerance: outside what Qulacs' Probabilistic accepts (documented tolerance is a rounding allowance)
        if 1 <= k <= 3 and sims < ctx.n(100, 800):
            sims += 1
            bad = check_simulation(ctx, meta["factory"], pub, val, k)
            if bad:
                if bad.startswith("raised:") and kind in ("pauli", "gdepol") and list(val.qubit_indices) != list(range(k)):
                    wkey = K_PAULI_CONV
                    what = (f"{meta['factory']} with qubit_indices={list(val.qubit_indices)} cannot be simulated: the converter builds the Pauli gate on the "
                            f"instruction's filter list instead of the gate's qubits ({bad})")
                else:
                    wkey, what = f"{meta['factory']}.simulator", f"through convert_circuit_with_noise_model + DensityMatrix: {bad}"
                witness_once(ctx, wkey, what, pub)


def run_measurement(ctx: Ctx):
    """MeasurementNoise (and the gate- / depth-interval wrappers exported next to it) wrap single-qubit instructions: always
    constructible from physical components, and physical through the simulator (2- and 3-qubit circuits, every index form)"""
    import numpy as np

    n = N()
    rng = ctx.rng
    Xm, Im = [[0.0, 1.0], [1.0, 0.0]], [[1.0, 0.0], [0.0, 1.0]]
    half = [[0.5, 0.0], [0.0, 0.5]]

    def component():
        nm = rng.choice(["BitFlipNoise", "PhaseFlipNoise", "BitPhaseFlipNoise", "DepolarizingNoise", "PhaseDampingNoise", "AmplitudeDampingNoise",
                         "ResetNoise", "PhaseAmplitudeDampingNoise", "KrausNoise", "ProbabilisticNoise"])
        if nm == "KrausNoise":
            ps = [rng.choice([[Xm], [Im], [half] * 4])]
        elif nm == "ProbabilisticNoise":
            ps = [[Xm], [rng.choice([0.0, 0.25, 1.0])]]
        elif nm == "ResetNoise":
            ps = [0.25, rng.choice([0.0, 0.5, 0.75])]
        elif nm == "PhaseAmplitudeDampingNoise":
            ps = [0.25, rng.choice([0.0, 0.5, 0.75]), rng.choice([0.0, 0.5, 1.0])]
        else:
            ps = [rng.choice([0.0, 0.25, 0.5, 1.0, 0.3]) for _ in range(SCALAR[nm][1])]
        if nm in SCALAR:
            return nm, ps, real_instr(ctx, nm, ps)
        st, ins = real_call(getattr(n, nm), *ps)
        if st == "err":
            witness_once(ctx, f"{nm}.rejects-valid", f"{nm} raises {ins} for valid arguments", {"factory": nm, "args": repr(ps)})
            return nm, ps, None
        return nm, ps, ins

    for it_ in range(ctx.n(24, 240)):
        subs = [c for c in (component() for _ in range(rng.randint(1, 3))) if c[2] is not None]
        if not subs:
            continue
        wrapper = "MeasurementNoise" if it_ % 3 != 2 else rng.choice(["GateIntervalNoise", "DepthIntervalNoise"])
        if wrapper == "MeasurementNoise":
            idx_d = rng.choice([None, [], [0], [1], [0, 1], (1, 0), "range2", [1, 1], (2,), [0, 1, 2]])
            args = [[s_[2] for s_ in subs]] + ([] if idx_d is None else [qi_object(idx_d)])
            if rng.random() < 0.3:
                args[0] = tuple(args[0])
        else:
            idx_d = rng.choice([1, 2, 3, 5])
            args = [[s_[2] for s_ in subs], idx_d]
        st, m = real_call(getattr(n, wrapper), *args)
        inp = {"factory": wrapper, "noises": [(a_, repr(b_)) for a_, b_, _ in subs], ("qubit_indices" if wrapper == "MeasurementNoise" else "interval"): str(idx_d)}
        ctx.case((wrapper, json.dumps(inp, sort_keys=True)), sample=None)
        ctx.count("factory", wrapper)
        if st == "err":
            witness_once(ctx, f"{wrapper}.rejects-valid", f"raises {m}", inp)
            continue
        try:
            if rng.random() < 0.5:
                rho, out, U = simulate([], 1, rng, measurement=m)
            else:
                rho, out = simulate3([m], rng)
        except Exception as e:  # noqa: BLE001
            witness_once(ctx, f"{wrapper}.simulator", f"simulation raises {type(e).__name__}: {str(e)[:100]}", inp)
            continue
        tr, lo = float(np.trace(out).real), O.min_eig(out)
        if not abs(tr - 1) <= 1e-9 or not lo >= -1e-9:
            witness_once(ctx, f"{wrapper}.simulator", f"trace={tr!r} min-eigenvalue={lo!r}", inp)


def run_invalid_unencodable(ctx: Ctx):
    """arguments outside the documented range that the driver's line protocol cannot express (negative integers):
    the property only asks that they are rejected"""
    n = N()
    for what, call, inp in [
        ("PauliNoise", lambda: n.PauliNoise([[-1]], [0.5]), {"factory": "PauliNoise", "pauli_list": [[-1]], "prob_list": ["0.5"]}),
        ("PauliNoise", lambda: n.PauliNoise([[1, -3]], [0.5], [0, 1]), {"factory": "PauliNoise", "pauli_list": [[1, -3]], "prob_list": ["0.5"], "qubit_indices": [0, 1]}),
        ("PauliNoise", lambda: n.PauliNoise(((0,), (-2 ** 32 + 1,)), (0.5, 0.25)), {"factory": "PauliNoise", "pauli_list": [[0], [-2 ** 32 + 1]], "prob_list": ["0.5", "0.25"]}),
        ("GeneralDepolarizingNoise", lambda: n.GeneralDepolarizingNoise(0.5, -1), {"factory": "GeneralDepolarizingNoise", "error_prob": "0.5", "qubit_count": -1}),
        ("GeneralDepolarizingNoise", lambda: n.GeneralDepolarizingNoise(error_prob=0.5, qubit_count=-2, qubit_indices=[0, 1]),
         {"factory": "GeneralDepolarizingNoise", "error_prob": "0.5", "qubit_count": -2, "qubit_indices": [0, 1]}),
    ]:
        st, val = real_call(call)
        ctx.case(("invalid", json.dumps(inp, sort_keys=True)), sample=None)
        ctx.count("outcome", f"{what}/unencodable-invalid/{val if st == 'err' else 'ok'}")
        if st == "ok":
            witness_once(ctx, f"{what}.accepts-invalid", "arguments outside the documented range are accepted", inp, sub=what)


def run_entry_points(ctx: Ctx):
    """the other public routes into the density-matrix simulator with a noise model (estimator, exact-probability sampler) and the
    second import path of the converter: trace one / probabilities non-negative summing to the shot count, and the same state as
    the converter route (input |000>)"""
    import numpy as np

    n = N()
    rng = ctx.rng
    try:
        from quri_parts.core.operator import PAULI_IDENTITY, Operator, pauli_label
        from quri_parts.core.state import quantum_state
        from quri_parts.qulacs.estimator import create_qulacs_density_matrix_estimator
        from quri_parts.qulacs.sampler import create_qulacs_density_matrix_ideal_sampler
        import quri_parts.qulacs.circuit.noise as qn
        import quri_parts.rust.qulacs as rq
    except Exception as e:  # noqa: BLE001
        ctx.notes.append(f"estimator / sampler entry points not importable ({type(e).__name__}: {str(e)[:80]}): not exercised")
        return
    if getattr(qn, "convert_circuit_with_noise_model", None) is not getattr(rq, "convert_circuit_with_noise_model", None):
        ctx.disagree("converter-entry", "quri_parts.qulacs.circuit.noise.convert_circuit_with_noise_model", "is not the Rust converter",
                     "re-export of quri_parts.rust.qulacs.convert_circuit_with_noise_model")
    rho0 = np.zeros((8, 8), dtype=complex)
    rho0[0, 0] = 1.0
    pool = [(nm, pv[0]) for nm, pv in FORM_PARAMS.items() if nm != "ThermalRelaxationNoise"]
    for nm, ps in (pool if not ctx.quick() else rng.sample(pool, 5)):
        qi = rng.choice([(), [0], [2, 1], (1,)])
        tg = rng.choice([(), ["X"], ["CNOT", "H"]])
        st, ins = call_scalar(nm, ps, {"qi": qi, "tg": tg})
        inp = {"factory": nm, "params": [repr(p) for p in ps], "form": {"qi": qi, "tg": tg}}
        if st == "err":
            witness_once(ctx, f"{nm}.rejects-valid", f"{nm} raises {ins} for parameters inside the documented range", inp)
            continue
        ctx.case(("entry", nm, str(qi), str(tg)), sample=None)
        ks = O.textbook_kraus(nm, ps)
        exp = expected3(rho0, ks, list(qi), list(tg))
        try:
            model = n.NoiseModel([ins])
            est = create_qulacs_density_matrix_estimator(model)
            state = quantum_state(3, circuit=circuit3())
            one = complex(est(Operator({PAULI_IDENTITY: 1.0}), state).value)
            zs = [complex(est(Operator({pauli_label(f"Z{q}"): 1.0}), state).value) for q in range(3)]
            counts = create_qulacs_density_matrix_ideal_sampler(model)(circuit3(), 1024)
        except Exception as e:  # noqa: BLE001
            witness_once(ctx, f"{nm}.simulator", f"density-matrix estimator / sampler with this noise raises {type(e).__name__}: {str(e)[:100]}", inp)
            continue
        ctx.count("simulate-entry", "ok")
        zexp = [float(np.trace(O.embed(3, [q], O.Z) @ exp).real) for q in range(3)]
        pexp = [float(exp[i, i].real) * 1024 for i in range(8)]
        cs = [float(counts.get(i, 0.0)) for i in range(8)]
        bad = None
        if abs(one - 1) > 1e-9:
            bad = f"estimator: <1> = {one!r}"
        elif max(abs(a_ - b_) for a_, b_ in zip(zs, zexp)) > 1e-9:
            bad = f"estimator: <Z_q> = {zs} but the textbook channel gives {zexp}"
        elif min(cs) < -1e-9 or abs(sum(cs) - 1024) > 1e-6:
            bad = f"exact sampler: probabilities*1024 = {cs}"
        elif max(abs(a_ - b_) for a_, b_ in zip(cs, pexp)) > 1e-6:
            bad = f"exact sampler: {cs} but the textbook channel gives {pexp}"
        if bad:
            witness_once(ctx, f"{nm}.simulator", f"{nm} through the density-matrix estimator / sampler (X(0) H(1) CNOT(1,2) X(2) on |000>): {bad}", inp)


# ---------------------------------------------------------------------------
# validation of assumed semantics
# ---------------------------------------------------------------------------
def validate_assumptions(ctx: Ctx):
    import numpy as np

    rng = ctx.rng
    # 1. round53 = CPython float rounding
    qs = []
    for _ in range(ctx.n(150, 3000)):
        r = rng.random()
        if r < 0.3:
            q = F(rng.randint(1, 10 ** 18), rng.randint(1, 10 ** 18))
        elif r < 0.6:
            q = F(rng.random()) + F(rng.random())
        elif r < 0.8:
            q = 1 + F(rng.randint(-4, 4), 2 ** rng.randint(50, 56))
        else:
            q = F(rng.randint(1, 2 ** 60), 2 ** rng.randint(0, 700)) * rng.choice([1, -1])
        qs.append(q)
    resp = ctx.driver([f"round53 {q.numerator}/{q.denominator}" for q in qs], entry=ENTRY)
    for q, r in zip(qs, resp):
        ctx.evaluations += 1
        if F(r) != F(float(q)):
            ctx.disagree("round53", str(q), repr(float(q)), r)
    # 2. flip weights of the model = what Qulacs does (through the real conversion) = textbook
    n = N()
    fl = [(name, p) for name in FLIPS for p in (0.0, 0.25, 0.3, 1.0)]
    for (name, p), r in zip(fl, ctx.driver([f"flipw {name} {xr(p)}" for name, p in fl], entry=ENTRY)):
        w = [F(x) for x in r.split()]
        ks = O.mixture_kraus([(float(a), u) for a, u in zip(w, O.PAULI)])
        d = float(np.max(np.abs(O.superop(ks) - O.superop(O.textbook_kraus(name, [p])))))
        ins = real_instr(ctx, name, (p,))
        if ins is None:
            continue
        bad = check_simulation(ctx, name, {"factory": name, "params": [repr(p)]}, ins, 1, textbook=ks)
        ctx.evaluations += 1
        if d > 1e-12 or bad:
            ctx.disagree("flip-weights-vs-qulacs", {"factory": name, "p": p}, bad or f"textbook differs {d}", str(w))
    # 3. thermal: the hypotheses of thermal_choi_psd_tp_partial hold for the floats the factory would compute,
    #    and the Choi matrix of the model is the oracle's, positive semidefinite and trace preserving
    th = []
    for _ in range(ctx.n(40, 600)):
        t1 = rng.choice([1.0, 50.0, 1e-3, math.inf, 3.0]) if rng.random() < 0.5 else rng.uniform(0.01, 100)
        t2 = rng.choice([t1, 2 * t1, t1 / 2]) if rng.random() < 0.6 else rng.uniform(0.001, 2 * t1 if t1 != math.inf else 100)
        if t1 == math.inf and rng.random() < 0.5:
            t2 = math.inf
        t = rng.choice([0.0, 0.1, 1.0, 1e-9, 1e9, math.inf]) if rng.random() < 0.5 else rng.uniform(0, 5)
        s = rng.choice(IN_POOL)
        if O.in_range("ThermalRelaxationNoise", (t1, t2, t, s)):
            th.append((t1, t2, t, s) + O.thermal_rates(t1, t2, t))
    resp = ctx.driver([f"choi {xr(a)} {xr(e)} {xr(s)}" for (_, _, _, s, a, e) in th], entry=ENTRY)
    for (t1, t2, t, s, a, e), r in zip(th, resp):
        ctx.evaluations += 1
        if not (0 <= a <= 1 and e * e <= 1 - a + 1e-15):
            ctx.disagree("thermal-exp-hypotheses", [t1, t2, t, s], f"a={a} e={e}", "0<=a<=1, e^2<=1-a")
        c = O.thermal_choi(t1, t2, t, s)
        m = np.array([[float(F(x)) for x in row.split(":")] for row in r.split(",")])
        if np.max(np.abs(m - c)) > 1e-12:
            ctx.disagree("thermal-choi", [t1, t2, t, s], str(c.tolist()), r)
        if np.min(np.linalg.eigvalsh(c)) < -1e-12 or abs(c[0, 0] + c[1, 1] - 1) > 1e-12 or abs(c[2, 2] + c[3, 3] - 1) > 1e-12:
            ctx.disagree("thermal-choi-psd", [t1, t2, t, s], "oracle Choi matrix is not PSD/TP", "thermal_choi_psd_tp_partial")
        ks = O.kraus_of_choi(c)
        if O.kraus_residual(ks) > 1e-9:
            ctx.disagree("thermal-kraus-of-choi", [t1, t2, t, s], "Kraus set of the Choi matrix is incomplete", "")


def witness_pauli_conversion(ctx: Ctx, info):
    """the Rust source builds the Pauli gates on `noise.qubit_indices` (translator); replay on the installed binary"""
    n = N()
    inp = {"factory": "PauliNoise", "pauli_list": [[1]], "prob_list": ["0.25"], "qubit_indices": []}
    st0, a = real_call(n.PauliNoise, [[1]], [0.25])
    st1, b = real_call(n.PauliNoise, [[1]], [0.25], [0])
    if st0 == "err" or st1 == "err":
        witness_once(ctx, "PauliNoise.rejects-valid", f"PauliNoise([[1]], [0.25]) raises {a if st0 == 'err' else b}", inp)
        return
    bad = check_simulation(ctx, "PauliNoise", inp, a, 1)
    ok_with_filter = check_simulation(ctx, "PauliNoise", inp, b, 1, textbook=O.mixture_kraus([(0.75, O.I2), (0.25, O.X)]))
    if ok_with_filter:
        witness_once(ctx, "PauliNoise.simulator", f"PauliNoise([[1]],[0.25],[0]): {ok_with_filter}", inp)
    if bad and bad.startswith("raised:"):
        witness_once(ctx, K_PAULI_CONV, "PauliNoise([[1]], [0.25]) (default: any qubit) cannot be simulated: the converter builds the Pauli gate on "
                     f"the instruction's (empty) filter list instead of the gate's qubits ({bad})", inp,
                     {"rust_source_uses_filter_indices": info["rust"].get("pauli_uses_filter_indices")})
    elif bad:
        witness_once(ctx, "PauliNoise.simulator", bad, inp)
    if bool(bad and bad.startswith("raised:")) != bool(info["rust"].get("pauli_uses_filter_indices")):
        ctx.notes.append("installed quri_parts.rust binary and packages/rust/src/qulacs/noise.rs differ on which qubits PauliNoise is applied to")


# ---------------------------------------------------------------------------
def replay_file(path):
    n = N()
    data = json.load(open(path))
    for w in data.get("witnesses", []):
        inp = w["input"]
        f = inp.get("factory")
        print("REPLAY", w["key"], inp)
        if f in SCALAR:
            ps = [float(x) for x in inp["params"]]
            st, val = real_call(getattr(n, f), *ps)
            print("  real:", st, val if st == "err" else {"params": list(val.params), "kraus": val.kraus_operators})
            print("  in documented range:", O.in_range(f, ps))


def run(ctx: Ctx, replay=None) -> int:
    ctx.rule = ("cases = (factory, exact parameter values as rationals / ±inf / nan, filters); real factory outcome (exception class or every "
                "stored field; Kraus entries through exact squares) vs the Lean model evaluated with IEEE rounding; distinct = distinct "
                "canonical (factory, arguments); every accepted real instruction is additionally judged by the independent oracle "
                "(range, Σ K†K, weights, trace / positivity through the real Qulacs conversion); every factory is also called in the other "
                "argument forms of its documented signature (ints / bools / numpy.float64, tuples / ranges, keywords, explicit or omitted "
                "optional arguments, both import paths), with qubit / gate filters (stored as given; simulated on a 3-qubit circuit against the "
                "textbook channel applied where the filters say), and twice on the same argument objects (same outcome, arguments untouched)")
    ctx.trusted = TRUSTED
    ctx.assumptions = [
        "parameters are IEEE doubles in the normal range (no overflow / subnormal arithmetic), ±inf or NaN",
        "IEEE rounding is monotone and fixes 0 and 1 (`Faithful`)",
        "documented ranges: probabilities/rates/populations in [0,1], p0+p1 ≤ 1, prate+arate ≤ 1, T1,T2 > 0 (∞ allowed), T2 ≤ 2·T1, "
        "gate_time ≥ 0, Σ prob ≤ 1 + eq_tolerance, Kraus sets complete, gate matrices unitary",
    ]
    if replay:
        replay_file(replay)
    info = gen(ctx)
    targets = list(LEAN_TARGETS) + ([] if ctx.quick() else LEAN_TARGETS_THOROUGH)
    obl_mods = [PROPS, OBL, LIFT] + ([] if ctx.quick() else [DEEP])
    ok = ctx.prove(targets, obl_mods)
    if ok:
        names = [f"QV.Props.C17.{n}" for _, n, _ in ctx.count_obligations([PROPS])]
        names += [f"QV.Gen.C17.{n}" for _, n, _ in ctx.count_obligations([OBL])]
        names += [f"QV.Props.C17Lift.{n}" for _, n, _ in ctx.count_obligations([LIFT])]
        imports = [PROPS, OBL, LIFT]
        if not ctx.quick():
            names += [f"QV.Props.C17Deep.{n}" for _, n, _ in ctx.count_obligations([DEEP])]
            imports.append(DEEP)
        ctx.audit(names, imports)
    flags = ("1" if info["thermal"].get("uses_general_eig") else "0") + ("1" if env_eig_complex() else "0") \
        + ("1" if info["rust"].get("kraus_field_real") else "0")
    ctx.extra["thermal_flags(usesGeneralEig,eigReturnsComplex,krausFieldReal)"] = flags
    ctx.extra["binary_is_not_built_from_repo"] = True
    broken = (not ok) or bool(ctx.failed_obligations)
    driver_ok = ok or not any("Driver" in f.get("at", "") or "Model" in f.get("at", "") or "C17Data" in f.get("at", "")
                              for f in ctx.failed_obligations)
    if not ok:
        # the obligations file broke, but the data / driver may still build: the search below needs the driver
        ok2, out = ctx.lake_build(["QuriVerif.Driver.C17"])
        driver_ok = ok2
    rounds = 1 if not broken else 3
    t0 = time.time()
    if driver_ok:
        with ctx.timed("correspond+oracle"):
            validate_assumptions(ctx)
            witness_pauli_conversion(ctx, info)
            for _ in range(rounds):
                run_scalar(ctx, info, flags, scalar_cases(ctx))
                run_lists(ctx, info)
                run_measurement(ctx)
                run_invalid_unencodable(ctx)
                run_entry_points(ctx)
                if ctx.disagreements and rounds == 1:
                    rounds = 3  # a disagreement triggers a larger search
                    run_scalar(ctx, info, flags, scalar_cases(ctx))
                    run_lists(ctx, info)
    else:
        with ctx.timed("oracle-only"):
            oracle_only(ctx, info)
    ctx.search_budget_s = round(time.time() - t0, 1)
    # a defect form emitted by the translator must have been confirmed on the real code
    seen_keys = {w["key"] for w in ctx.witnesses}
    for d in info["defect_forms"]:
        key = K_PAULI_CONV if d.startswith("PauliNoise.convert") else d
        if key not in seen_keys and driver_ok:
            ctx.disagree("translator-defect-form-not-reproduced", d, "real code does not show the defect", "translator read the defect from the source")
    keys: dict = {}
    for w in ctx.witnesses:
        keys[w["key"]] = keys.get(w["key"], 0) + 1
    ctx.extra["witness_keys"] = keys
    ctx.extra["witness_inputs"] = {w["key"]: w["input"] for w in reversed(ctx.witnesses)}
    # one witness per distinct key first (the replay file keeps a prefix)
    first, rest, seen = [], [], set()
    for w in ctx.witnesses:
        (rest if w["key"] in seen else first).append(w)
        seen.add(w["key"])
    ctx.witnesses = first + rest
    return ctx.finish()


def oracle_only(ctx: Ctx, info):
    """the Lean side does not build at all: judge the real code by the oracle alone (failing-input search)"""
    import numpy as np

    n = N()
    for name, ps, form in scalar_cases(ctx):
        st, val = call_scalar(name, ps, form)
        rng_ok = O.in_range(name, ps)
        inp = {"factory": name, "params": [repr(p) for p in ps], **({"form": form} if form else {})}
        ctx.evaluations += 1
        if st == "err" and rng_ok:
            ctx.witness(K_THERMAL if is_thermal_type_error(name, val) else f"{name}.rejects-valid", f"raises {val}", inp)
        elif st == "ok" and not rng_ok:
            ctx.witness(classify_bad_accept(name, ps, info), "accepts parameters outside the documented range", inp)
        elif st == "ok" and val.kraus_operators and not O.kraus_residual(val.kraus_operators) <= 1e-12:
            ctx.witness(f"{name}.not-cptp", "Σ K†K ≠ 1", inp)
