"""MANIFEST.setup_cmd: regenerate every Generated/*.lean from the working tree and build the whole Lean library once."""
import importlib
import os
import subprocess
import sys

sys.path.insert(0, os.path.dirname(os.path.abspath(__file__)))
sys.path.insert(0, os.path.dirname(os.path.dirname(os.path.abspath(__file__))))
import common  # noqa: E402

import json

with open(os.path.join(common.VERIF, "MANIFEST.json")) as _f:
    PROPS = [c["property_id"] for c in json.load(_f)["checks"]]


def main():
    common.overlay()
    targets = ["QuriVerif.Driver.All"]
    for pid in PROPS:
        try:
            mod = importlib.import_module(pid.lower())
        except ModuleNotFoundError:
            continue
        ctx = common.Ctx(pid, "quick", 0)
        if hasattr(mod, "gen"):
            mod.gen(ctx)
        targets += getattr(mod, "LEAN_TARGETS", [f"QuriVerif.Props.{pid}"])
        targets += getattr(mod, "LEAN_TARGETS_THOROUGH", [])
    p = subprocess.run(["lake", "build"] + sorted(set(targets)), cwd=common.LEAN)
    sys.exit(p.returncode)


if __name__ == "__main__":
    main()
