"""C20 — Frozen, bound and derived objects are unaffected by later mutation."""
from __future__ import annotations

import contextlib
import json
import operator
import os
import sys
import time

sys.path.insert(0, os.path.dirname(os.path.dirname(os.path.abspath(__file__))))

from common import VERIF, Ctx, InfraError, load_known_findings  # noqa: E402
from translate import c20gen  # noqa: E402

PROPS = "QuriVerif.Props.C20"
GENMOD = "QuriVerif.Generated.C20ShapesOk"
ENTRY = "DriverC20.lean"
LEAN_TARGETS = [PROPS, "QuriVerif.Driver.C20"]

TRUSTED = [
    "Lean 4.33 kernel; axioms audited ⊆ {propext, Classical.choice, Quot.sound}",
    "translator translate/c20gen.py: brace-matching extraction of Rust fn bodies + catalogue of normalised bodies "
    "(a body outside the catalogue is `unknown` and breaks the obligation rust_known_ok)",
    "the installed quri_parts.rust 0.27 binary stands in for the working-tree Rust (cannot be rebuilt): the correspondence "
    "runs of Rust-backed objects exercise that binary, the working-tree .rs files are tied by text only",
    "harness/c20.py interpreter of operation histories on real objects, canonicalisation of observations "
    "(parameter identities renamed by first appearance; bound parameter maps as dictionaries)",
    "oracle/valsem.py: copy-in/copy-out interpreter (value semantics by construction) built from the library's own "
    "constructors on fresh objects",
    "binary-only behaviour not in the working-tree Rust and therefore not modelled: __hash__ of immutable circuits "
    "(checked on the real objects only), the qubit-count check of `+` (histories use one qubit count)",
    "harness/c20.py to_model(): the table that maps alternative entry points / argument forms to the model operation they are "
    "documented to equal; the Python restatements of is_trivial_mapping, mapper / seq_mapper, get_derivatives, with_data_updated, "
    "combine, measure and the state constructors used by the sub-checks that have no Lean model",
    "not judged (recorded under observations_not_judged): writing into the read-only typed Mapping handed out by "
    "LinearParameterMapping.mapping",
]

KEY_CTOR = "ImmutableQuantumCircuit-ctor-aliases-argument"
KEY_COPY = "get_mutable_copy-keeps-is_immutable-flag"
KEY_UNBOUND = "bound-circuit-keeps-live-reference-to-unbound-circuit"

# witness histories (also proved in Props/C20.lean: witness_*), replayed on the real code every run
WITNESSES = {
    KEY_CTOR: ["newC:2", "addGate:0:0.0.0.-:-", "immCtor:0", "freeze:0", "addGate:0:1.1.0.-:-", "obs:2"],
    KEY_COPY: ["newC:2", "addGate:0:0.0.0.-:-", "freeze:0", "mutCopy:1", "freeze:2", "addGate:2:1.1.0.-:-", "obs:3"],
    KEY_UNBOUND: ["newP:2", "addPar:0:3:0", "obs:0", "bind:0:2", "getUnbound:1", "addPar:0:4:1", "obs:2"],
}
WITNESS_TEXT = {
    KEY_CTOR: "ImmutableQuantumCircuit(c) returns c itself with is_immutable set, so a later c.freeze() is c: the 'frozen' circuit follows c.add_*",
    KEY_COPY: "ImmutableQuantumCircuit.get_mutable_copy()/+ clone the is_immutable flag: freeze() of the mutable copy returns the copy itself "
              "(also: state.with_gates_applied(...).circuit is a mutable QuantumCircuit)",
    KEY_UNBOUND: "bind_parameters stores the unfrozen source: bound.unbound_param_circuit is the mutable parametric circuit and follows its later mutation",
}

# ---------------------------------------------------------------------------------------------
# gate alphabet shared with the model: kind code -> (name, #controls, #targets, has angle)
# (the model treats the kind code, the qubit list and the integer `a` as opaque data: an injective encoding of the
#  real gate is all that is needed)
#   0..22   fixed-arity gates, NPAR[k] = number of float parameters (several parameters are packed into `a`)
#   30      UnitaryMatrix on 1 or 2 targets, `a` = index into UNITARIES[#targets]
#   100+c   Pauli gate, c = base-4 code of the pauli ids;   200+c  PauliRotation (one angle) with those ids
# ---------------------------------------------------------------------------------------------
KINDS = {0: ("X", 0, 1, False), 1: ("H", 0, 1, False), 2: ("CNOT", 1, 1, False), 3: ("RX", 0, 1, True),
         4: ("RY", 0, 1, True), 5: ("RZ", 0, 1, True), 6: ("SWAP", 0, 2, False),
         7: ("Y", 0, 1, False), 8: ("Z", 0, 1, False), 9: ("S", 0, 1, False), 10: ("Sdag", 0, 1, False),
         11: ("SqrtX", 0, 1, False), 12: ("SqrtXdag", 0, 1, False), 13: ("SqrtY", 0, 1, False),
         14: ("SqrtYdag", 0, 1, False), 15: ("T", 0, 1, False), 16: ("Tdag", 0, 1, False), 17: ("Identity", 0, 1, False),
         18: ("U1", 0, 1, True), 19: ("CZ", 1, 1, False), 20: ("TOFFOLI", 2, 1, False), 21: ("U2", 0, 1, True),
         22: ("U3", 0, 1, True)}
NPAR = {3: 1, 4: 1, 5: 1, 18: 1, 21: 2, 22: 3}
KIND_OF_NAME = {v[0]: k for k, v in KINDS.items()}
PAR_KINDS = [3, 4, 5]
K_UM, K_PAULI, K_PROT = 30, 100, 200
_R = 2 ** -0.5
UNITARIES = {1: [((0, 1), (1, 0)), ((1, 0), (0, -1)), ((_R, _R), (_R, -_R)), ((1, 0), (0, 1j))],
             2: [((1, 0, 0, 0), (0, 1, 0, 0), (0, 0, 0, 1), (0, 0, 1, 0)), ((1, 0, 0, 0), (0, 0, 1, 0), (0, 1, 0, 0), (0, 0, 0, 1)),
                 ((1, 0, 0, 0), (0, 1, 0, 0), (0, 0, 1, 0), (0, 0, 0, -1))]}


def pauli_code(ids) -> int:
    return sum(int(x) * 4 ** i for i, x in enumerate(ids))


def pauli_ids(code: int, m: int):
    return [(code // 4 ** i) % 4 for i in range(m)]


def pack_params(ps) -> int:
    """several small integral parameters -> one integer (injective for |p| <= 4); one parameter: itself"""
    vals = []
    for x in ps:
        f = float(x)
        if f != int(f):
            raise InfraError(f"non-integral angle {f} in an observed gate")
        vals.append(int(f))
    if len(vals) <= 1:
        return vals[0] if vals else 0
    if any(abs(v) > 4 for v in vals):
        raise InfraError(f"parameter out of the packing range in {vals}")
    return sum((v + 4) * 9 ** i for i, v in enumerate(vals))


def unpack_params(k: int, a: int):
    n = NPAR.get(k, 0)
    if n <= 1:
        return [a] * n
    return [(a // 9 ** i) % 9 - 4 for i in range(n)]


def enc_gate(g) -> str:
    k, qs, a, p = g
    return f"{k}.{','.join(map(str, qs))}.{a}.{'-' if p is None else p}"


def real_gate(g):
    from quri_parts.circuit import QuantumGate

    k, qs, a, p = g
    if k >= K_PROT:
        return QuantumGate(name="PauliRotation", target_indices=tuple(qs), pauli_ids=tuple(pauli_ids(k - K_PROT, len(qs))),
                           params=(float(a),))
    if k >= K_PAULI:
        return QuantumGate(name="Pauli", target_indices=tuple(qs), pauli_ids=tuple(pauli_ids(k - K_PAULI, len(qs))))
    if k == K_UM:
        return QuantumGate(name="UnitaryMatrix", target_indices=tuple(qs), unitary_matrix=UNITARIES[len(qs)][a])
    name, nc, nt, ang = KINDS[k]
    return QuantumGate(name=name, target_indices=tuple(qs[nc:]), control_indices=tuple(qs[:nc]),
                       params=tuple(float(x) for x in unpack_params(k, a)))


def named_call(o, g, form: int):
    """the same gate through the `add_<Name>_gate` convenience method (form 1: the most specific variant)"""
    k, qs, a, p = g
    if k >= K_PROT:
        return o.add_PauliRotation_gate(list(qs), pauli_ids(k - K_PROT, len(qs)), float(a))
    if k >= K_PAULI:
        return o.add_Pauli_gate(tuple(qs) if form else list(qs), pauli_ids(k - K_PAULI, len(qs)))
    if k == K_UM:
        m = [list(r) for r in UNITARIES[len(qs)][a]]
        if form and len(qs) == 1:
            return o.add_SingleQubitUnitaryMatrix_gate(qs[0], m)
        if form and len(qs) == 2:
            return o.add_TwoQubitUnitaryMatrix_gate(qs[0], qs[1], m)
        return o.add_UnitaryMatrix_gate(list(qs), m)
    name = KINDS[k][0]
    ps = unpack_params(k, a)
    return getattr(o, f"add_{name}_gate")(*qs, *[(int(x) if form else float(x)) for x in ps])


def gate_struct(g, param, pid):
    """real gate -> [k, qs, a, p]"""
    import numpy as np

    name = g.name
    if name.startswith("Parametric"):
        name = name[len("Parametric"):]
    qs = list(g.control_indices) + list(g.target_indices)
    ps = tuple(getattr(g, "params", ()))
    if name == "PauliRotation":
        k = K_PROT + pauli_code(g.pauli_ids)
    elif name == "Pauli":
        k = K_PAULI + pauli_code(g.pauli_ids)
    elif name == "UnitaryMatrix":
        k = K_UM
        m = np.array(g.unitary_matrix, dtype=complex)
        cat = UNITARIES.get(len(qs), [])
        hit = [i for i, u in enumerate(cat) if np.array(u).shape == m.shape and np.allclose(np.array(u, dtype=complex), m)]
        if not hit:
            raise InfraError("observed a UnitaryMatrix gate whose matrix is not in the catalogue")
        return [k, qs, hit[0], None if param is None else pid(param)]
    else:
        k = KIND_OF_NAME[name]
    return [k, qs, pack_params(ps), None if param is None else pid(param)]


ERR = {"AttributeError": "attr", "ValueError": "value", "IndexError": "index", "TypeError": "type", "KeyError": "key",
       "RuntimeError": "runtime", "PanicException": "panic"}


@contextlib.contextmanager
def quiet_stderr():
    """the Rust panic of `c.extend(c)` prints a backtrace on fd 2"""
    sys.stderr.flush()
    saved = os.dup(2)
    dn = os.open(os.devnull, os.O_WRONLY)
    try:
        os.dup2(dn, 2)
        yield
    finally:
        sys.stderr.flush()
        os.dup2(saved, 2)
        os.close(dn)
        os.close(saved)


# ---------------------------------------------------------------------------------------------
# interpreter of histories on real objects; copying=True is the value-semantics oracle
# ---------------------------------------------------------------------------------------------
class Interp:
    def __init__(self, copying: bool):
        from oracle import valsem

        self.vs = valsem
        self.copying = copying
        self.h: list = []
        self.pids: dict = {}  # Parameter -> raw id (first sight)
        self.keep: list = []
        self.hash0: dict[int, int] = {}
        self.probes: list = []  # captured mapper closures / derivative mappings (no model image)
        self.flags: list = []  # (op index, key, what, detail): an observation contradicts its direct restatement
        self.n_ops = 0

    def flag(self, key, what, detail):
        self.flags.append((self.n_ops, key, what, detail))

    # -- helpers --------------------------------------------------------------
    def pid(self, p):
        if p not in self.pids:
            self.pids[p] = len(self.pids)
            self.keep.append(p)
        return self.pids[p]

    def arg(self, i):
        o = self.h[i]
        return self.vs.clone(o) if self.copying else o

    def put(self, o, frozen=None):
        """copy-out; `frozen` = documented mutability of the result (only used by the oracle)"""
        if not self.copying:
            self.h.append(o)
        elif frozen is None or self.vs.kind_of(o) in ("gs", "ps"):
            self.h.append(self.vs.clone(o))
        else:
            self.h.append(self.vs.clone_circuit(o, frozen=frozen))

    def kind(self, i):
        return self.vs.kind_of(self.h[i])

    def src(self, s):
        if s[0] == "h":
            return self.arg(int(s[1:]))
        gs = [real_gate(g) for g in dec_lit(s)]
        return tuple(gs) if s[0] == "T" else gs  # `T…`: the same literal handed over as a tuple

    @staticmethod
    def vals(txt, form="l"):
        import numpy as np

        vs = [x for x in txt.split(",")] if txt else []
        if form == "t":
            return tuple(float(x) for x in vs)
        if form == "n":
            return np.array([float(x) for x in vs], dtype=float)
        if form == "i":
            return [int(x) for x in vs]
        return [float(x) for x in vs]

    def bind_by_dict(self, o, txt):
        """bind_parameters_by_dict with a caller-owned dict: reversed insertion order, one surplus key;
        the dict is overwritten afterwards (the bound circuit must not keep it)"""
        from quri_parts.circuit import Parameter

        d = {}
        ins = list(o.param_mapping.in_params)
        if len(ins) != len(self.vals(txt)):
            # not a complete assignment (only when a history is replayed in a world where the circuit has other
            # parameters than in the run that generated it): the op then means the plain list form
            return o.bind_parameters(self.vals(txt))
        for p_, v in zip(ins, self.vals(txt)):
            d[p_] = v
        d[Parameter("not-in-the-circuit")] = 9.0
        d = dict(reversed(list(d.items())))
        try:
            b = o.bind_parameters_by_dict(d)
            if not self.copying:
                # documented: the same as bind_parameters with the values in the order of the circuit's parameters
                try:
                    ref = [gate_struct(g, None, None) for g in o.bind_parameters([d[p_] for p_ in ins]).gates]
                except Exception as e:  # noqa: BLE001
                    ref = "err:" + type(e).__name__
                got = [gate_struct(g, None, None) for g in b.gates]
                if got != ref:
                    self.flag("bind_parameters_by_dict", "bind_parameters_by_dict differs from bind_parameters with the values in parameter order",
                              {"by_dict": got, "by_sequence": ref, "values_in_parameter_order": [fl2int(d[p_]) for p_ in ins]})
            return b
        finally:
            if not self.copying:
                for k_ in list(d):
                    d[k_] = 7.0
                d.clear()

    # -- captured mappers (no model image) --------------------------------------
    def probe_eval(self, pr):
        def num(v):
            f = complex(v)
            return int(f.real) if f.imag == 0 and f.real == int(f.real) else repr(f)

        m = pr["m"]
        outs = list(m.out_params)
        seq = [num(v) for v in pr["sm"](pr["vals"])]
        d = pr["mp"](dict(zip(pr["ins"], pr["vals"])))
        mp = [num(d[p_]) for p_ in outs]
        der = []
        for dm in pr["dv"]:
            row = []
            for p_ in outs:
                f = dm.mapping.get(p_)
                if f is None:
                    row.append(0)
                elif hasattr(f, "items"):
                    row.append([["C" if is_const(q) else "P", num(c)] for q, c in f.items()])
                else:
                    row.append("param")
            der.append([len(dm.in_params), len(dm.out_params), row])
        return ["probe", seq, mp, der]

    def probe_take(self, o, k, txt):
        m = o.param_mapping
        vals = self.vals(txt)
        pr = {"m": m, "sm": m.seq_mapper, "mp": m.mapper, "dv": list(m.get_derivatives()), "ins": tuple(m.in_params), "vals": vals}
        out = self.probe_eval(pr)
        pr["first"] = out
        self.probes.append(pr)
        # direct restatement of the documented meaning on the mapping as it is observed now
        if k in LM:
            st = self.circ_struct(o)
            ins, fns = st["ins"], st["fn"]
        else:
            ins = [self.pid(p_) for p_ in m.in_params]
            fns = [["p", x] for x in ins]
        dv = {}
        for p_, v in zip(ins, vals):
            dv[p_] = v
        want_seq, want_der = [], [[] for _ in ins]
        for f in fns:
            terms = [[f[1], 1]] if f[0] == "p" else f[1]
            want_seq.append(int(sum(c * (1 if q is None else dv[q]) for q, c in terms)))
            for i, q in enumerate(ins):
                cs = [c for r, c in terms if r == q]
                want_der[i].append(0 if not cs else [["C", cs[-1]]])
        got_der = [r[2] for r in out[3]]
        if out[1] != want_seq or out[2] != want_seq:
            self.flag("mapper-value", "seq_mapper / mapper do not compute the linear functions of the observed mapping",
                      {"seq_mapper": out[1], "mapper": out[2], "want": want_seq, "ins": ins, "fn": fns, "values": [int(v) for v in vals]})
        if got_der != want_der:
            self.flag("mapping-derivatives", "get_derivatives() is not the coefficient table of the observed mapping",
                      {"got": got_der, "want": want_der, "ins": ins, "fn": fns})
        return out

    # -- observation ----------------------------------------------------------
    def circ_struct(self, o):
        k = self.vs.kind_of(o)
        if k in ("qc", "iqc", "bqc"):
            d = {"k": "R", "cls": k, "n": o.qubit_count, "gs": [gate_struct(g, None, self.pid) for g in o.gates],
                 "pm": [], "ub": []}
            if k == "bqc":
                pm = o.parameter_map
                d["pm"] = [[self.pid(p), fl2int(v)] for p, v in pm.items()]
                self.scribble(pm)
            if k == "iqc":
                d["hash"] = hash(o)
            self.scribble(o.gates)
            return d
        if k in ("pqc", "ipqc"):
            gp = o.gates_and_params
            d = {"k": "R", "cls": k, "n": o.qubit_count,
                 "gs": [gate_struct(g, p, self.pid) for g, p in gp], "pm": [], "ub": []}
            # the `gates` property is the same sequence without the parameters
            gl = o.gates
            if [gate_struct(g, None, None)[:3] for g in gl] != [x[:3] for x in d["gs"]]:
                self.flag("gates-property", "`gates` of a parametric circuit is not the first component of gates_and_params",
                          {"gates": [gate_struct(g, None, None)[:3] for g in gl], "gates_and_params": [x[:3] for x in d["gs"]]})
            self.scribble(gp)
            self.scribble(gl)
            return d
        if k in ("lqc", "ilqc"):
            m = o.param_mapping
            fn = []
            for out in m.out_params:
                f = m.mapping[out]
                if hasattr(f, "items"):
                    fn.append(["l", [[None if is_const(p) else self.pid(p), fl2int(c)] for p, c in f.items()]])
                else:
                    fn.append(["p", self.pid(f)])
            d = {"k": "L", "mu": k == "lqc", "ins": [self.pid(p) for p in m.in_params],
                 "outs": [self.pid(p) for p in m.out_params], "fn": fn, "pc": self.circ_struct(o._circuit)}
            # further public observers of the wrapper (not in the model's value): judged against their restatement
            triv = bool(o.has_trivial_parameter_mapping)
            want = trivial_restated(d["ins"], d["outs"], fn)
            if triv != want:
                self.flag("has_trivial_parameter_mapping", "has_trivial_parameter_mapping contradicts the observed mapping",
                          {"got": triv, "want": want, "ins": d["ins"], "outs": d["outs"], "fn": fn})
            gl = o.gates
            if [gate_struct(g, None, None)[:3] for g in gl] != [x[:3] for x in d["pc"]["gs"]]:
                self.flag("gates-property", "`gates` of a linear-mapped circuit differs from the gates of its primitive circuit",
                          {"gates": [gate_struct(g, None, None)[:3] for g in gl], "primitive": [x[:3] for x in d["pc"]["gs"]]})
            cnt = o.parameter_count
            if cnt != len(d["ins"]):
                self.flag("parameter_count", "parameter_count differs from the number of input parameters", {"got": cnt, "ins": d["ins"]})
            # keys of the mapping that belong to no output parameter (none on the unchanged tree; a mapping object shared with a
            # sibling circuit that is updated in place shows up here)
            d["x"] = {"triv": triv, "pcnt": cnt, "mkeys": sum(1 for q in m.mapping if all(q is not o_ for o_ in m.out_params))}
            # (not done: writing into `param_mapping.mapping`.  After with_data_updated / combine that is the mapping's own
            #  plain dict - only the constructor wraps it in a MappingProxyType - so a caller who writes into the
            #  `Mapping` it was handed does change every circuit sharing the mapping object.  The getter is typed as a
            #  read-only Mapping and no mutator of a circuit is involved, so the property does not speak about it;
            #  recorded as an observation in the evidence, see mapping_value_histories.)
            self.scribble(gl)
            self.scribble(m.in_params)
            self.scribble(m.out_params)
            return d
        raise InfraError(f"cannot observe object of kind {k}")

    def scribble(self, box):
        """the caller of an observer owns what it got back: overwrite / empty every container that lets us.
        Only on the real (reference-sharing) run - the copying run is the statement of what must be seen."""
        if self.copying:
            return
        try:
            if isinstance(box, list):
                box.clear()
            elif hasattr(box, "keys"):
                for k_ in list(box.keys()):
                    try:
                        box[k_] = 7.0
                    except TypeError:
                        break
                try:
                    box.clear()
                except (TypeError, AttributeError):
                    pass
        except Exception:  # noqa: BLE001 - refusing the write is the good outcome
            pass

    def observe(self, i):
        o = self.h[i]
        k = self.vs.kind_of(o)
        if k in ("gs", "ps"):
            c = o.circuit if k == "gs" else o.parametric_circuit
            r = repr(o)  # must not raise and must not touch the state
            v = self.circ_struct(c)
            if type(o).__name__ not in r or o.qubit_count != c.qubit_count:
                self.flag("state-observers", "repr / qubit_count of a state disagree with its circuit",
                          {"repr": r[:80], "qubit_count": o.qubit_count, "circuit_qubit_count": c.qubit_count})
            return {"t": "s", "v": v}
        return {"t": "c", "v": self.circ_struct(o)}

    # -- one operation --------------------------------------------------------
    def do(self, op: str):
        f = op.split(":")
        self.n_ops += 1
        try:
            with quiet_stderr() if (f[0] in ("extend", "iadd")) else contextlib.nullcontext():
                return self._do(f)
        except InfraError:
            raise
        except BaseException as e:  # noqa: BLE001 - the real code's behaviour is an output
            if isinstance(e, (KeyboardInterrupt, SystemExit, MemoryError)):
                raise
            return "err:" + ERR.get(type(e).__name__, "other-" + type(e).__name__)

    def _do(self, f):
        import quri_parts.circuit as qc
        from quri_parts.circuit.parameter import CONST
        from quri_parts.core.state import GeneralCircuitQuantumState, ParametricCircuitQuantumState

        name = f[0]
        if name == "newC":
            self.put(qc.QuantumCircuit(int(f[1])))
            return "ok"
        if name == "newP":
            self.put(qc.ParametricQuantumCircuit(int(f[1])))
            return "ok"
        if name == "newL":
            self.put(qc.LinearMappedParametricQuantumCircuit(int(f[1])))
            return "ok"
        if name == "mapEval":
            i = int(f[1])
            if i >= len(self.probes):
                return "err:badop"
            pr = self.probes[i]
            out = self.probe_eval(pr)
            if out != pr["first"]:
                self.flag("captured-mapper-changed", "a mapper / seq_mapper / derivative mapping taken earlier gives a different result now",
                          {"probe": i, "first": pr["first"], "now": out})
            return out
        h = int(f[1])
        if h >= len(self.h):
            return "err:badop"
        if name in ("addGate", "addNamed", "addPar", "addParL", "addParams", "addParam1", "extend", "iadd"):
            o = val = self.arg(h)
            try:
                if name == "addGate":
                    g = dec_gate(f[2])
                    if f[3] == "-":
                        o.add_gate(real_gate(g))
                    else:
                        o.add_gate(real_gate(g), int(f[3]))
                elif name == "addNamed":
                    g = dec_gate(f[2])
                    n0 = len(o.gates)
                    named_call(o, g, int(f[3]))
                    if not self.copying:  # add_<Name>_gate(...) is documented as add_gate(<Name>(...))
                        gl = list(o.gates)
                        if len(gl) != n0 + 1 or gate_struct(gl[-1], None, None) != gate_struct(real_gate(g), None, None):
                            self.flag("named-adder", "an add_<Name>_gate method did not append exactly the gate it names",
                                      {"asked": list(g[:3]), "appended": [gate_struct(x, None, None)[:3] for x in gl[n0:]]})
                elif name == "iadd":
                    if not hasattr(type(o), "__iadd__"):
                        raise AttributeError("no in-place addition")  # (`+=` would silently be `h = h + src`)
                    ref = None
                    if not self.copying and self.kind(h) == "lqc":
                        ref = self.vs.clone(o)  # (the Python wrapper) `+=` is documented as extend: replay that on a private copy
                    cur = o
                    try:
                        cur += self.src(f[2])  # `h += src`: the variable is re-bound to whatever the operator returns
                        val = cur
                    finally:
                        if ref is not None:
                            try:
                                ref.extend(self.src(f[2]))
                            except Exception:  # noqa: BLE001
                                pass
                            a_, b_ = strip_hash(self.circ_struct(cur)), strip_hash(self.circ_struct(ref))
                            if a_ != b_:
                                self.flag("iadd-vs-extend", "`circuit += gates` left the circuit in another state than circuit.extend(gates)",
                                          {"after_iadd": a_, "after_extend": b_})
                elif name == "addParam1":
                    o.add_parameter("q")
                elif name == "addPar":
                    qs = [int(x) for x in f[3].split(",")]
                    kk = int(f[2])
                    if kk >= K_PROT:
                        o.add_ParametricPauliRotation_gate(qs, pauli_ids(kk - K_PROT, len(qs)))
                    else:
                        getattr(o, f"add_Parametric{KINDS[kk][0]}_gate")(*qs)
                elif name == "addParL":
                    qs = [int(x) for x in f[3].split(",")]
                    terms = []
                    for t in f[5].split(","):
                        r, c = t.split("*")
                        if r == "C":
                            terms.append((CONST, int(c)))
                        else:
                            hp, i = r.split(".")
                            terms.append((self.h[int(hp)].param_mapping.in_params[int(i)], int(c)))
                    angle = terms[0][0] if f[4] == "1" else dict(terms)
                    try:
                        kk = int(f[2])
                        if kk >= K_PROT:
                            o.add_ParametricPauliRotation_gate(tuple(qs), tuple(pauli_ids(kk - K_PROT, len(qs))), angle)
                        else:
                            getattr(o, f"add_Parametric{KINDS[kk][0]}_gate")(*qs, angle)
                    finally:
                        if isinstance(angle, dict) and not self.copying:
                            # the caller re-uses its scratch dict after the call: the circuit must have taken a snapshot
                            # (the copying oracle, i.e. value semantics, cannot see this at all)
                            for k_ in list(angle):
                                angle[k_] = 7.0
                            angle.clear()
                elif name == "addParams":
                    o.add_parameters(*[f"p{i}" for i in range(int(f[2]))])
                else:
                    s = f[2]
                    if s[0] == "h" and int(s[1:]) == h:
                        o.extend(o)  # Rust objects: borrow panic, also under value semantics
                    else:
                        o.extend(self.src(s))
            finally:
                if self.copying or val is not o:
                    self.h[h] = val  # the private copy becomes the handle's value (also after a partial failure)
            return "ok"
        k = self.kind(h)
        is_state = k in ("gs", "ps")
        if name in ("freeze", "mutCopy", "immCtor", "primitive", "combine", "bind", "getUnbound", "mkState", "depth", "mapTake") and is_state:
            return "err:badop"
        if name == "mapTake":
            if k not in LM + PAR:
                return "err:badop"
            return self.probe_take(self.arg(h), k, f[2])
        if name in ("stCircuit", "stApply", "stBind", "stPrim") and not is_state:
            return "err:badop"
        if name == "freeze":
            self.put(self.arg(h).freeze(), frozen=True)
        elif name == "mutCopy":
            self.put(self.arg(h).get_mutable_copy(), frozen=False)
        elif name == "immCtor":
            ctor = {"qc": qc.ImmutableQuantumCircuit, "iqc": qc.ImmutableQuantumCircuit, "bqc": qc.ImmutableQuantumCircuit,
                    "pqc": qc.ImmutableParametricQuantumCircuit, "ipqc": qc.ImmutableParametricQuantumCircuit,
                    "lqc": qc.ImmutableLinearMappedParametricQuantumCircuit,
                    "ilqc": qc.ImmutableLinearMappedParametricQuantumCircuit}[k]
            self.put(ctor(self.arg(h)), frozen=True)
        elif name == "primitive":
            if k in ("qc", "iqc", "bqc"):
                return "err:badop"
            self.put(self.arg(h).primitive_circuit(), frozen=True)
        elif name == "combine":
            s = f[2]
            if s[0] == "h":
                j = int(s[1:])
                if j >= len(self.h) or self.kind(j) in ("gs", "ps"):
                    return "err:badop"
            self.put(self.arg(h) + self.src(s), frozen=False)
        elif name == "bind":
            if k in ("qc", "iqc", "bqc"):
                return "err:badop"
            form = f[3] if len(f) > 3 else "l"
            if form == "d":
                self.put(self.bind_by_dict(self.arg(h), f[2]))
            else:
                self.put(self.arg(h).bind_parameters(self.vals(f[2], form)))
        elif name == "getUnbound":
            if k != "bqc":
                return "err:badop"
            u = self.arg(h).unbound_param_circuit
            self.put(u, frozen=True)  # value semantics: a frozen snapshot
        elif name == "mkState":
            o = self.arg(h)
            cls = GeneralCircuitQuantumState if k in ("qc", "iqc", "bqc") else ParametricCircuitQuantumState
            self.put(cls(o.qubit_count, o))
        elif name == "stCircuit":
            o = self.arg(h)
            self.put(o.circuit if k == "gs" else o.parametric_circuit)
        elif name == "stApply":
            self.put(self.arg(h).with_gates_applied([real_gate(g) for g in dec_lit(f[2])]))
        elif name == "stBind":
            if k != "ps":
                return "err:badop"
            self.put(self.arg(h).bind_parameters(self.vals(f[2], f[3] if len(f) > 3 else "l")))
        elif name == "stPrim":
            if k != "ps":
                return "err:badop"
            self.put(self.arg(h).with_primitive_circuit())
        elif name == "obs":
            return self.observe(h)
        elif name == "depth":
            return self.arg(h).depth
        elif name == "eq":
            j = int(f[2])
            if j >= len(self.h):
                return "err:badop"
            ks = {k, self.kind(j)}
            if ks & {"gs", "ps", "lqc", "ilqc"}:
                return "err:badop"
            return bool(self.arg(h) == self.arg(j))
        else:
            raise InfraError(f"unknown op {f}")
        return "ok"


def trivial_restated(ins, outs, fns) -> bool:
    """`is_trivial_mapping` as the code means it: as many outputs as inputs, every output is one input with
    coefficient 1 (bare or as a one-term function; a CONST-only term counts as a "parameter" there too), no input used twice.
    Permutations are trivial in that sense - whether they should be is C10's question, not an aliasing matter."""
    if len(ins) != len(outs):
        return False
    used = []
    for f in fns:
        if f[0] == "p":
            q = f[1]
        else:
            if len(f[1]) != 1 or f[1][0][1] != 1:
                return False
            q = f[1][0][0]
        if q in used:
            return False
        used.append(q)
    return True


def is_const(p) -> bool:
    from quri_parts.circuit.parameter import CONST

    return p is CONST or p == CONST


def fl2int(v):
    f = float(v)
    if f != int(f):
        raise InfraError(f"non-integral number {v} in an observation")
    return int(f)


def dec_gate(s):
    k, qs, a, p = s.split(".")
    return (int(k), [int(x) for x in qs.split(",")] if qs else [], int(a), None if p == "-" else int(p))


def dec_lit(s):
    body = s[1:]
    return [dec_gate(x) for x in body.split("/")] if body else []


# ---------------------------------------------------------------------------------------------
# canonicalisation: parameter identities renamed by first appearance along the transcript
# ---------------------------------------------------------------------------------------------
class Canon:
    def __init__(self, with_hash=False):
        self.m: dict = {}
        self.with_hash = with_hash

    def p(self, x, must_know=False):
        if x is None:
            return None
        if x not in self.m:
            if must_know:
                raise InfraError("a bound parameter map mentions a parameter that was never observed before")
            self.m[x] = len(self.m)
        return self.m[x]

    def gates(self, gs):
        return [[g[0], list(g[1]), g[2], self.p(g[3])] for g in gs]

    def rval(self, d):
        out = {"cls": d["cls"], "n": d["n"], "gs": self.gates(d["gs"])}
        pm = {}
        for p, v in d["pm"]:
            pm[self.p(p, must_know=True)] = v  # later wins, as in a dict
        out["pm"] = sorted(pm.items())
        if self.with_hash and "hash" in d:
            out["hash"] = d["hash"]
        if self.with_hash and d.get("x"):
            out["x"] = d["x"]
        return out

    def cv(self, d):
        if d["k"] == "R":
            return self.rval(d)
        ins = [self.p(x) for x in d["ins"]]
        outs = [self.p(x) for x in d["outs"]]
        fns = []
        for f in d["fn"]:
            if f[0] == "p":
                fns.append(["p", self.p(f[1])])
            else:
                fns.append(["l", [[self.p(t[0]), t[1]] for t in f[1]]])
        out = {"mu": d["mu"], "ins": ins, "outs": outs, "fn": fns, "pc": self.rval(d["pc"])}
        if self.with_hash and d.get("x"):
            out["x"] = d["x"]
        return out

    def out(self, o):
        if isinstance(o, dict):
            return {"t": o["t"], "v": self.cv(o["v"])}
        return o


def align_model_fn(v):
    """model L value: `fn` is an association list (first match wins); align it with `outs` like the real side"""
    if v["k"] != "L":
        return v
    al = []
    for o in v["outs"]:
        f = next((e[1] for e in v["fn"] if e[0] == o), None)
        if f is None:
            raise InfraError("model mapping has an output parameter without a function")
        al.append(f)
    v = dict(v)
    v["fn"] = al
    return v


def canon_transcript(outs, model: bool, with_hash=False, ops=None):
    """`ops` (optional): the history, used to merge the exception class of a rejected `+`
    (the installed binary raises ValueError where the working-tree Rust returns NotImplemented → TypeError)"""
    c = Canon(with_hash)
    res = []
    for i, o in enumerate(outs):
        if isinstance(o, dict):
            o = {"t": o["t"], "v": align_model_fn(o["v"]) if model else o["v"]}
        elif ops is not None and isinstance(o, str):
            n_ = ops[i].split(":")[0]
            if n_ in ("combine", "stApply") and o in ("err:value", "err:type"):
                o = "err:rejected"
            elif n_ == "iadd" and o in ("err:value", "err:type", "err:other-NotImplementedError"):
                # a rejected `+=`: Rust classes raise NotImplementedError, the Python wrapper ends in TypeError
                o = "err:rejected"
        res.append(c.out(o))
    return res


# ---------------------------------------------------------------------------------------------
# history generation (incremental, guided by the kinds of the real handles)
# ---------------------------------------------------------------------------------------------
CIRC = ("qc", "iqc", "bqc", "pqc", "ipqc", "lqc", "ilqc")
NP = ("qc", "iqc", "bqc")
PAR = ("pqc", "ipqc")
LM = ("lqc", "ilqc")
MUT = ("qc", "pqc", "lqc")


def rand_gate_ext(rng, n, bad):
    """the rest of the gate set (everything `MutableQuantumCircuitProtocol.add_*_gate` can add, except Measurement)"""
    fam = rng.choice(["one", "one", "u", "cz", "toff", "um", "pauli", "prot"])
    if fam == "cz" and n < 2 or fam == "toff" and n < 3:
        fam = "one"
    a = 0
    if fam == "one":
        k, qs = rng.choice(range(7, 18)), [rng.randrange(n)]
    elif fam == "u":
        k, qs = rng.choice([18, 21, 22]), [rng.randrange(n)]
        a = pack_params([rng.randint(-3, 3) for _ in range(NPAR[k])])
    elif fam == "cz":
        k, qs = 19, rng.sample(range(n), 2)
    elif fam == "toff":
        k, qs = 20, rng.sample(range(n), 3)
    elif fam == "um":
        m = rng.randint(1, min(n, 2))
        k, qs, a = K_UM, rng.sample(range(n), m), rng.randrange(len(UNITARIES[m]))
    else:
        m = rng.randint(1, min(n, 3))
        qs = rng.sample(range(n), m)
        code = pauli_code([rng.randint(1, 3) for _ in range(m)])
        k = (K_PAULI if fam == "pauli" else K_PROT) + code
        a = rng.randint(-3, 3) if fam == "prot" else 0
    if rng.random() < bad:
        qs[-1] = n + rng.randint(0, 1)
    return (k, qs, a, None)


def rand_par_kind(rng, n):
    """(kind, qubits) of a parametric gate: RX/RY/RZ or a Pauli rotation on 1-3 qubits"""
    if rng.random() < 0.75:
        return rng.choice(PAR_KINDS), [rng.randrange(n) if rng.random() > 0.04 else n]
    m = rng.randint(1, min(n, 3))
    qs = rng.sample(range(n), m)
    if rng.random() < 0.04:
        qs[-1] = n
    return K_PROT + pauli_code([rng.randint(1, 3) for _ in range(m)]), qs


def rand_gate(rng, n, bad=0.04, ext=True):
    if ext and rng.random() < 0.3:
        return rand_gate_ext(rng, n, bad)
    k = rng.choice([0, 0, 1, 1, 2, 2, 3, 4, 5, 6] if n >= 2 else [0, 1, 3, 4, 5])
    _, nc, nt, ang = KINDS[k]
    qs = rng.sample(range(n), nc + nt)
    if k == 6:
        qs = sorted(qs)  # the installed binary compares SWAP gates up to the order of their targets
    if rng.random() < bad:
        qs[-1] = n + rng.randint(0, 1)
    return (k, qs, rng.randint(-3, 3) if ang else 0, None)


def rand_lit(rng, n, bad=0.03):
    return ("L" if rng.random() < 0.75 else "T") + "/".join(enc_gate(rand_gate(rng, n, bad)) for _ in range(rng.randint(0, 3)))


def gen_history(rng, length: int, profile: str):
    """returns (ops, real transcript, restatement flags of the real run).
    The real run guides the generation (which handles exist / their kinds)."""
    R = Interp(False)
    n = rng.choice([1, 2, 2, 3])
    ops: list[str] = []
    outs: list = []

    def emit(op):
        ops.append(op)
        outs.append(R.do(op))

    def pick(kinds):
        c = [i for i in range(len(R.h)) if R.kind(i) in kinds]
        if not c:
            return None
        # prefer recent handles and handles something was derived from
        return rng.choice(c[-6:]) if rng.random() < 0.6 else rng.choice(c)

    starts = {"np": ["newC"], "par": ["newP"], "lm": ["newL"], "mixed": ["newC", "newP", "newL"]}[profile]
    emit(f"{rng.choice(starts)}:{n}")
    while len(ops) < length:
        r = rng.random()
        nh = len(R.h)
        if r < 0.06 or nh == 0:
            emit(f"{rng.choice(starts)}:{n}")
            continue
        if r < 0.30:  # mutate
            h = pick(MUT) if rng.random() < 0.93 else pick(CIRC)
            if h is None:
                continue
            k = R.kind(h)
            x = rng.random()
            if k == "lqc" and x < 0.25:
                if rng.random() < 0.3:
                    emit(f"addParam1:{h}")
                else:
                    emit(f"addParams:{h}:{rng.randint(1, 2)}")
            elif k == "lqc" and x < 0.68:
                cnt = R.h[h].parameter_count
                hp, cp = h, cnt
                if rng.random() < 0.1:
                    o = pick(LM)
                    if o is not None and R.h[o].parameter_count:
                        hp, cp = o, R.h[o].parameter_count
                if cp == 0:
                    emit(f"addParams:{h}:1")
                    continue
                bare = rng.random() < 0.35
                idx = rng.sample(range(cp), 1 if bare else rng.randint(1, min(2, cp)))
                terms = [f"{hp}.{i}*{1 if bare else rng.randint(-2, 3)}" for i in idx]
                if not bare and rng.random() < 0.4:
                    terms.append(f"C*{rng.randint(-2, 2)}")
                pk, pq = rand_par_kind(rng, n)
                emit(f"addParL:{h}:{pk}:{','.join(map(str, pq))}:{1 if bare else 0}:{','.join(terms)}")
            elif k == "pqc" and x < 0.5:
                pk, pq = rand_par_kind(rng, n)
                emit(f"addPar:{h}:{pk}:{','.join(map(str, pq))}")
            elif x < 0.8:
                g = rand_gate(rng, n)
                idx = "-"
                if rng.random() < (0.6 if k == "lqc" else 0.3) and not (k == "pqc" and g[0] >= K_PROT):
                    # (the Rust ParametricQuantumCircuit has no add_PauliRotation_gate)
                    # the same gate through its add_<Name>_gate method (Python for the linear-mapped wrapper, Rust otherwise)
                    emit(f"addNamed:{h}:{enc_gate(g)}:{rng.randint(0, 1)}")
                    continue
                if rng.random() < 0.2:
                    idx = str(rng.randint(0, 4))
                emit(f"addGate:{h}:{enc_gate(g)}:{idx}")
            else:
                verb = "extend" if rng.random() < 0.65 or k not in MUT else "iadd"
                if rng.random() < 0.5:
                    emit(f"{verb}:{h}:{rand_lit(rng, n)}")
                else:
                    j = pick(CIRC)
                    if j is not None and verb == "iadd":
                        # `+=` with an argument `extend` rejects by type falls back to `+` and re-binds the variable:
                        # that is `combine`, not a mutation - only arguments extend accepts are written as `+=`
                        rank = {"qc": 0, "iqc": 0, "bqc": 0, "pqc": 1, "ipqc": 1, "lqc": 2, "ilqc": 2}
                        if rank[R.kind(j)] <= rank[k] and all(R.h[j] is not R.h[i] for i in range(nh) if i == h or R.h[i] is R.h[h]):
                            emit(f"iadd:{h}:h{j}")
                    elif j is not None and (j != h or rng.random() < 0.3):
                        emit(f"extend:{h}:h{j}")
            continue
        if r < 0.62:  # derive from a circuit
            h = pick(CIRC)
            if h is None:
                continue
            k = R.kind(h)
            x = rng.random()
            if x < 0.26:
                emit(f"freeze:{h}")
            elif x < 0.42:
                emit(f"mutCopy:{h}")
            elif x < 0.52:
                emit(f"immCtor:{h}")
            elif x < 0.6 and k in PAR + LM:
                emit(f"primitive:{h}")
            elif x < 0.74:
                if rng.random() < 0.45:
                    emit(f"combine:{h}:{rand_lit(rng, n)}")
                else:
                    j = pick(CIRC)
                    if j is not None:
                        emit(f"combine:{h}:h{j}")
            elif x < 0.86 and k in PAR + LM:
                cnt = R.h[h].parameter_count
                if rng.random() < 0.1:
                    cnt = max(0, cnt + rng.choice([-1, 1]))
                emit(f"obs:{h}")
                form = rng.choice(["", "", ":l", ":t", ":n", ":i", ":d", ":d"] + ([":d", ":d"] if k in LM else []))
                if form == ":d":  # one value per distinct parameter, no missing key (see bind_by_dict)
                    ins = list(R.h[h].param_mapping.in_params)
                    val_of = {}
                    for p_ in ins:
                        val_of.setdefault(p_, rng.randint(-3, 3))
                    emit(f"bind:{h}:{','.join(str(val_of[p_]) for p_ in ins)}:d")
                else:
                    emit(f"bind:{h}:{','.join(str(rng.randint(-3, 3)) for _ in range(cnt))}{form}")
            elif x < 0.9 and k in PAR + LM and rng.random() < 0.6:
                cnt = R.h[h].parameter_count
                emit(f"mapTake:{h}:{','.join(str(rng.randint(-3, 3)) for _ in range(cnt))}")
            elif x < 0.9 and k == "bqc":
                emit(f"getUnbound:{h}")
            else:
                emit(f"mkState:{h}")
            continue
        if r < 0.72:  # states
            h = pick(("gs", "ps"))
            if h is None:
                continue
            k = R.kind(h)
            x = rng.random()
            if x < 0.35:
                emit(f"stCircuit:{h}")
            elif x < 0.7:
                emit(f"stApply:{h}:{rand_lit(rng, n)}")
            elif k == "ps" and x < 0.87:
                cnt = R.h[h].parametric_circuit.parameter_count
                emit(f"obs:{h}")
                emit(f"stBind:{h}:{','.join(str(rng.randint(-3, 3)) for _ in range(cnt))}{rng.choice(['', ':l', ':t', ':n', ':i'])}")
            elif k == "ps":
                emit(f"stPrim:{h}")
            continue
        # observe
        h = rng.randrange(nh)
        x = rng.random()
        if x < 0.55:
            emit(f"obs:{h}")
        elif x < 0.8 and R.kind(h) in CIRC:
            emit(f"depth:{h}")
        elif x < 0.86 and R.probes:
            emit(f"mapEval:{rng.randrange(len(R.probes))}")
        else:
            j = rng.randrange(nh)
            if R.kind(h) in NP + PAR and R.kind(j) in NP + PAR:
                emit(f"eq:{h}:{j}")
    # final sweep: everything is observed, depth last (it fills the caches)
    for i in range(len(R.h)):
        emit(f"obs:{i}")
    for i in range(len(R.probes)):
        emit(f"mapEval:{i}")
    for i in range(len(R.h)):
        if R.kind(i) in CIRC and rng.random() < 0.5:
            emit(f"depth:{i}")
    return ops, outs, R.flags


def named_sweeps():
    """deterministic histories: every add_<Name>_gate method (both call variants) once on each mutable class,
    with frozen / copied snapshots taken on the way and everything observed at the end"""
    gates = [(k, list(range(KINDS[k][1] + KINDS[k][2])), pack_params([(-1) ** i * (i + 1) for i in range(NPAR.get(k, 0))]), None) for k in sorted(KINDS)]
    gates += [(K_UM, [1], 2, None), (K_UM, [2, 0], 1, None), (K_PAULI + pauli_code([1, 3]), [0, 2], 0, None), (K_PAULI + pauli_code([2]), [1], 0, None),
              (K_PROT + pauli_code([3, 1, 2]), [2, 0, 1], -2, None)]
    out = []
    for new, form0 in (("newC", 0), ("newC", 1), ("newP", 0), ("newP", 1), ("newL", 0), ("newL", 1)):
        ops = [f"{new}:3"]
        for i, g in enumerate(gates):
            if new == "newP" and g[0] >= K_PROT:
                continue
            ops.append(f"addNamed:0:{enc_gate(g)}:{(form0 + i) % 2}")
            if i % 7 == 3:
                ops.append("freeze:0" if i % 2 else "mutCopy:0")
        n_h = 1 + sum(1 for op in ops if op.split(":")[0] in ("freeze", "mutCopy"))
        ops += [f"obs:{h}" for h in range(n_h)] + ["depth:0"]
        out.append(ops)
    # every way of handing over the values of several parameters (list / tuple / numpy / ints / dict), on a linear-mapped
    # circuit, its frozen copy, a mutable copy that then gets one more parameter, and on the states made from them
    out.append(["newL:2", "addParams:0:3", "addParL:0:3:0:0:0.0*1,0.2*2", "addParL:0:4:1:1:0.1*1", "addParL:0:5:0:0:0.2*-1,C*1",
                "freeze:0", "obs:0", "obs:1", "bind:0:1,2,3:d", "bind:1:3,-1,2:d", "mutCopy:1", "addParam1:4", "addParL:4:3:1:1:4.3*1",
                "obs:4", "bind:4:1,-2,3,2:d", "bind:4:1,-2,3,2:t", "bind:4:1,-2,3,2:n", "bind:1:3,-1,2:i", "mkState:4", "obs:9",
                "stBind:9:2,3,-1,1:n", "stBind:9:2,3,-1,1:t", "mapTake:4:1,2,3,-2", "addParL:4:4:0:0:4.0*3", "mapEval:0",
                "bind:1:0,1,2:d"] + [f"obs:{h}" for h in range(13)])
    out.append(["newP:2", "addPar:0:3:0", "addPar:0:201:1", "addPar:0:5:0", "obs:0", "bind:0:1,2,3:d", "freeze:0", "bind:2:3,1,-2:d",
                "bind:2:3,1,-2:n", "addPar:0:4:1", "obs:0", "bind:0:1,2,3,-1:d", "mapTake:0:1,2,3,-1", "addPar:0:4:0", "mapEval:0"]
               + [f"obs:{h}" for h in range(6)])
    return out


def run_ops(ops, copying: bool):
    it = Interp(copying)
    return [it.do(op) for op in ops]


def run_flags(ops):
    """real run -> (outputs, flags raised by the restatement checks of the observers)"""
    it = Interp(False)
    outs = [it.do(op) for op in ops]
    return outs, it.flags


def to_model(ops):
    """the model's protocol knows one form per operation: alternative entry points / argument forms of the real API are
    mapped to the operation they must be equivalent to; probes of captured closures have no model image.
    Returns (model ops, indices of the real ops that have an image)."""
    mops, idx = [], []
    for i, op in enumerate(ops):
        f = op.split(":")
        n = f[0]
        if n in ("mapTake", "mapEval"):
            continue
        if n == "addNamed":
            m = f"addGate:{f[1]}:{f[2]}:-"
        elif n == "iadd":
            m = f"extend:{f[1]}:{f[2]}"
        elif n == "addParam1":
            m = f"addParams:{f[1]}:1"
        elif n in ("bind", "stBind") and len(f) > 3:
            m = ":".join(f[:3])
        else:
            m = op
        if n in ("extend", "iadd", "combine", "stApply"):
            g = m.split(":")
            if g[2][0] == "T":
                g[2] = "L" + g[2][1:]
                m = ":".join(g)
        mops.append(m)
        idx.append(i)
    return mops, idx


def model_view(ops, outs):
    """(real ops with a model image, their outputs)"""
    _, idx = to_model(ops)
    return [ops[i] for i in idx], [outs[i] for i in idx]


def model_run(ctx: Ctx, histories, cfg="gen"):
    reqs = [f"c20run {cfg} | " + ";".join(to_model(ops)[0]) for ops in histories]
    out = []
    for r in ctx.driver(reqs, entry=ENTRY):
        if r == "bad-request":
            raise InfraError("the C20 driver rejected a request")
        out.append(json.loads(r))
    return out


def model_out(o):
    """JSON output of the model -> the shape the interpreter produces"""
    if isinstance(o, str):
        return o
    if isinstance(o, dict):
        return o
    return o


def first_diff(a, b):
    for i, (x, y) in enumerate(zip(a, b)):
        if x != y:
            return i
    return None if len(a) == len(b) else min(len(a), len(b))


def strip_hash(o):
    if isinstance(o, dict):
        return {k: strip_hash(v) for k, v in o.items() if k not in ("hash", "x")}
    if isinstance(o, list):
        return [strip_hash(x) for x in o]
    return o


# ---------------------------------------------------------------------------------------------
# shrinking of a history on which the real run differs from the value-semantics oracle
# ---------------------------------------------------------------------------------------------
PUSHERS = ("newC", "newP", "newL", "freeze", "mutCopy", "immCtor", "primitive", "combine", "bind", "getUnbound",
           "mkState", "stCircuit", "stApply", "stBind", "stPrim")


def real_vs_oracle(ops):
    """index of the first output on which the reference-sharing run and the copying run differ"""
    try:
        a = canon_transcript(run_ops(ops, False), False, with_hash=True, ops=ops)
        b = canon_transcript(run_ops(ops, True), False, with_hash=True, ops=ops)
    except InfraError:
        return None
    return first_diff(a, b)


def renumber(op: str, removed_handle: int | None):
    """handle indices > removed_handle shift down by one; None if the op uses the removed handle"""
    if removed_handle is None:
        return op
    f = op.split(":")

    def fix(x):
        v = int(x)
        if v == removed_handle:
            raise KeyError
        return str(v - 1 if v > removed_handle else v)

    try:
        if f[0] in ("newC", "newP", "newL", "mapEval"):
            return op
        f[1] = fix(f[1])
        if f[0] in ("extend", "combine", "iadd") and f[2][0] == "h":
            f[2] = "h" + fix(f[2][1:])
        if f[0] == "eq":
            f[2] = fix(f[2])
        if f[0] == "addParL":
            ts = []
            for t in f[5].split(","):
                r, c = t.split("*")
                if r != "C":
                    hp, i = r.split(".")
                    r = fix(hp) + "." + i
                ts.append(r + "*" + c)
            f[5] = ",".join(ts)
        return ":".join(f)
    except KeyError:
        return None


def first_flag(key):
    """predicate for `shrink`: index of the first operation at which the real run raises the restatement flag `key`"""
    def pred(ops):
        try:
            _, flags = run_flags(ops)
        except InfraError:
            return None
        hit = [i for i, k, _, _ in flags if k == key]
        return hit[0] - 1 if hit else None
    return pred


def shrink(ops, real_vs_oracle=None):
    real_vs_oracle = real_vs_oracle or globals()["real_vs_oracle"]
    ops = list(ops)
    d = real_vs_oracle(ops)
    if d is None:
        return ops
    ops = ops[: d + 1]
    changed = True
    while changed:
        changed = False
        for i in range(len(ops) - 1, -1, -1):
            # which handle (if any) did op i create?  replay the prefix on real objects
            it = Interp(False)
            for op in ops[:i]:
                it.do(op)
            before = len(it.h)
            it.do(ops[i])
            created = before if len(it.h) > before else None
            rest = [renumber(op, created) for op in ops[i + 1:]]
            if any(r is None for r in rest):
                continue
            cand = ops[:i] + rest
            if cand and real_vs_oracle(cand) is not None:
                ops = cand[: real_vs_oracle(cand) + 1]
                changed = True
                break
    return ops


# ---------------------------------------------------------------------------------------------
# caches
# ---------------------------------------------------------------------------------------------
LABELS = ["X0", "Z0", "Y1", "Z1", "X0 Y1", "Z0 Z1", "X1", ""]


def cache_correspond(ctx: Ctx, n_hist: int):
    import numpy as np

    from oracle import valsem
    from quri_parts.circuit import QuantumCircuit
    from quri_parts.core.measurement import CachedMeasurementFactory, bitwise_commuting_pauli_measurement
    from quri_parts.core.operator import PAULI_IDENTITY, Operator, pauli_label
    from quri_parts.core.state import GeneralCircuitQuantumState
    from quri_parts.qulacs.estimator import create_qulacs_vector_estimator
    import quri_parts.qulacs.operator as qop

    rng = ctx.rng
    labs = [pauli_label(s) if s else PAULI_IDENTITY for s in LABELS]
    est = create_qulacs_vector_estimator()
    hists, reals = [], []
    for _ in range(n_hist):
        calls = []

        def stub(op, calls=calls):
            snap = tuple(op.items())
            calls.append(snap)
            return snap

        fac = CachedMeasurementFactory(stub)
        real_fac = CachedMeasurementFactory(bitwise_commuting_pauli_measurement)
        qop._operator_cache.clear()
        ops: list = []
        objs: list = []
        real = []
        seen_keys: set = set()
        c = QuantumCircuit(2)
        for g in [rand_gate(rng, 2, 0, ext=False) for _ in range(rng.randint(0, 4))]:
            c.add_gate(real_gate(g))
        state = GeneralCircuitQuantumState(2, c)
        gates = list(c.gates)
        c3 = QuantumCircuit(3)
        c3.extend(gates)
        state3 = GeneralCircuitQuantumState(3, c3)
        for _ in range(rng.randint(4, 14)):
            r = rng.random()
            if not objs or r < 0.12:
                ops.append("new")
                objs.append(Operator())
                real.append(None)
            elif r < 0.5:
                h = rng.randrange(len(objs))
                li = rng.randrange(len(labs))
                v = rng.choice([-2, -1, 1, 2, 3])
                present = [labs.index(p) for p in objs[h]]
                if present and rng.random() < 0.6:  # change the coefficient of a term that is already there
                    li = rng.choice(present)
                    v = rng.choice([x for x in (-2, -1, 1, 2, 3) if float(x) != complex(objs[h][labs[li]]).real])
                ops.append(f"set:{h}:{li}:{v}")
                objs[h][labs[li]] = float(v)
                real.append(None)
            elif r < 0.58:
                h = rng.randrange(len(objs))
                li = rng.randrange(len(labs))
                ops.append(f"del:{h}:{li}")
                objs[h].pop(labs[li], None)
                real.append(None)
            elif r < 0.66:
                h = rng.randrange(len(objs))
                ops.append(f"copy:{h}")
                objs.append(objs[h].copy())
                real.append(None)
            elif r < 0.70 and seen_keys:
                # the copy of the cache handed out by `cached_groups` belongs to the caller: its keys are the contents asked
                # for so far; emptying it must not make the factory forget anything (the later `get`s are judged by the model)
                try:
                    g_ = fac.cached_groups
                    ks = set(g_.keys())
                    for k_ in list(g_):
                        g_[k_] = ()
                    g_.clear()
                except Exception as e:  # noqa: BLE001
                    ks = "err:" + type(e).__name__
                ctx.traces += 1
                ctx.count("cache", "cached_groups")
                if ks != seen_keys:
                    ctx.witness("cache:CachedMeasurementFactory", "cached_groups does not list exactly the operator contents asked for so far",
                                {"ops": ops[:]}, {"got": sorted(map(str, ks)) if isinstance(ks, set) else ks, "want": sorted(map(str, seen_keys))})
                else:
                    try:
                        ks2 = set(fac.cached_groups.keys())
                    except Exception as e:  # noqa: BLE001
                        ks2 = "err:" + type(e).__name__
                    if ks2 != seen_keys:
                        ctx.witness("cache:CachedMeasurementFactory", "emptying the dict handed out by cached_groups emptied the factory's cache",
                                    {"ops": ops[:] + ["cached_groups -> overwrite and clear the returned dict -> cached_groups"]},
                                    {"got": sorted(map(str, ks2)) if isinstance(ks2, set) else ks2, "want": sorted(map(str, seen_keys))})
            else:
                h = rng.randrange(len(objs))
                arg = objs[h]
                argdesc = "the Operator"
                if rng.random() < 0.3:
                    # the other argument form: an iterable of Pauli labels (every coefficient 1).  For the model this is a
                    # new operator with those terms; the caller's container is overwritten after the call
                    chosen = [rng.choice(labs) for _ in range(rng.randint(0, 3))]
                    form = rng.choice(["list", "tuple", "set", "gen", "keys"])
                    box = {"list": list, "tuple": tuple, "set": set, "gen": list, "keys": lambda c_: dict.fromkeys(c_, 5.0)}[form](chosen)
                    order = list(dict.fromkeys(box))
                    h = len(objs)
                    ops.append("new")
                    real.append(None)
                    objs.append(Operator())
                    for p_ in order:
                        ops.append(f"set:{h}:{labs.index(p_)}:1")
                        real.append(None)
                        objs[h][p_] = 1.0
                    arg = box.keys() if form == "keys" else (x for x in box) if form == "gen" else box
                    ctx.count("cache", "label-iterable:" + form)
                    argdesc = f"the labels of operator {h} as a {form} (CachedMeasurementFactory only)"
                ops.append(f"get:{h}:0")
                before = len(calls)
                try:
                    res = fac(arg)
                except Exception as e:  # noqa: BLE001 - the real code's behaviour is an output
                    ctx.witness("cache:CachedMeasurementFactory", "CachedMeasurementFactory raised on an operator / label iterable",
                                {"ops": ops[:], "last_get_called_with": argdesc}, {"error": type(e).__name__, "argument": type(arg).__name__})
                    real.append(None)
                    continue
                finally:
                    if arg is not objs[h] and isinstance(arg, (list, set)):
                        arg.clear()
                seen_keys.add(frozenset((p_, complex(v)) for p_, v in objs[h].items()))
                hit = len(calls) == before
                content = [[labs.index(p), fl2int(complex(v).real)] for p, v in res]
                real.append([content, hit])
                ctx.traces += 1
                if set(res) != set(objs[h].items()):
                    # the cache handed back the result of the underlying function for a different content
                    ctx.witness("cache:CachedMeasurementFactory",
                                "CachedMeasurementFactory returned the result computed for another operator content",
                                {"ops": ops[:], "last_get_called_with": argdesc}, {"computed_on": sorted(map(str, res)), "current": sorted(map(str, objs[h].items()))})
                # (b) real grouping through the cache == grouping of a fresh copy (as label sets)
                if len(objs[h]) > 0:
                    got = real_fac(objs[h] if arg is objs[h] else list(objs[h]))
                    want = bitwise_commuting_pauli_measurement(objs[h].copy())
                    norm = lambda gs: sorted(sorted(str(p) for p in g.pauli_set) for g in gs)  # noqa: E731
                    ctx.traces += 1
                    if norm(got) != norm(want):
                        ctx.witness("cache:CachedMeasurementFactory", "cached grouping differs from the grouping of the current operator content",
                                    {"ops": ops[:]}, {"got": norm(got), "want": norm(want)})
                # (c) estimator through the qulacs operator cache vs numpy on the current content
                nq = rng.choice([2, 3])  # the qubit count is part of the cache key
                val = est(objs[h], state if nq == 2 else state3).value
                want = valsem.expectation(nq, gates, [(tuple(p), v) for p, v in objs[h].items()])
                ctx.traces += 1
                ctx.count("cache", "estimate")
                if abs(complex(val) - want) > 1e-9:
                    ctx.witness("cache:qulacs.convert_operator", "estimate through the operator cache differs from the expectation value of the current operator content",
                                {"ops": ops[:], "circuit": [gate_struct(g, None, None) for g in gates]},
                                {"got": str(val), "want": str(want)})
                # (d) the same cache reached by a bare Pauli label (identity included) and by convert_operator directly
                #     (no zero-operator shortcut in front of it): the returned operator must have the CURRENT content
                if rng.random() < 0.5:
                    lab = rng.choice(labs)
                    lv = est(lab, state if nq == 2 else state3).value
                    lw = valsem.expectation(nq, gates, [(tuple(lab), 1.0)])
                    ctx.traces += 1
                    if abs(complex(lv) - lw) > 1e-9:
                        ctx.witness("cache:qulacs.convert_operator", f"estimate of the bare label {lab!s} through the operator cache is wrong",
                                    {"ops": ops[:], "label": str(lab), "circuit": [gate_struct(g, None, None) for g in gates]},
                                    {"got": str(lv), "want": str(lw)})
                    # ... and the bare label handed to convert_operator itself
                    try:
                        ql = qop.convert_operator(lab, nq)
                        lt = sorted((tuple(sorted(zip(ql.get_term(i).get_index_list(), ql.get_term(i).get_pauli_id_list()))), complex(ql.get_term(i).get_coef()))
                                    for i in range(ql.get_term_count()))
                    except Exception as e:  # noqa: BLE001
                        lt = "err:" + type(e).__name__
                    ctx.traces += 1
                    if lt != [(tuple(sorted((int(q), int(pp)) for q, pp in lab)), 1 + 0j)]:
                        ctx.witness("cache:qulacs.convert_operator", f"convert_operator({lab!s}, {nq}) is not the single term 1*{lab!s}",
                                    {"ops": ops[:], "label": str(lab), "n_qubits": nq}, {"got": str(lt)[:300]})
                qo = qop.convert_operator(objs[h], nq)
                got_terms = sorted(
                    (tuple(sorted(zip(qo.get_term(i).get_index_list(), qo.get_term(i).get_pauli_id_list()))), complex(qo.get_term(i).get_coef()))
                    for i in range(qo.get_term_count()))
                want_terms = sorted((tuple(sorted((int(q), int(pp)) for q, pp in p)), complex(v)) for p, v in objs[h].items())
                ctx.traces += 1
                if got_terms != want_terms:
                    ctx.witness("cache:qulacs.convert_operator", "convert_operator returned an operator whose terms are not the current content of its argument",
                                {"ops": ops[:], "n_qubits": nq}, {"got": str(got_terms)[:300], "want": str(want_terms)[:300]})
        hists.append(ops)
        reals.append(real)
    resp = ctx.driver(["c20cache " + ";".join(o) for o in hists], entry=ENTRY)
    for ops, real, r in zip(hists, reals, resp):
        if r == "bad-request":
            raise InfraError("cache driver rejected a request")
        model = json.loads(r)
        ctx.case(("cache", tuple(ops)), nontrivial=any(x and x[1] for x in real), sample={"cache_ops": ops[:8]})
        ctx.traces += 1
        ctx.count("cache", "histories")
        if model != real:
            ctx.disagree("cache-model", {"ops": ops}, real, model)



# ---------------------------------------------------------------------------------------------
# LinearParameterMapping as a value type: histories of constructor / with_data_updated / combine / get_derivatives /
# mapper / seq_mapper calls with caller-owned argument containers that are overwritten after every call.
# Every mapping ever made must (a) be what the documented meaning of the call says (direct restatement below) and
# (b) observe the same from its creation to the end of the history, whatever happens to the arguments it was built
# from, to the mappings it was derived from and to the containers its getters returned.
# ---------------------------------------------------------------------------------------------
def _mv_fn_value(fn, dv):
    if fn[0] == "p":
        return dv[fn[1]]
    return sum(c * (1 if q is None else dv[q]) for q, c in fn[1])


def _mv_restate_derivs(want):
    """table (per input parameter) of the constant functions d f_out / d p, for the outputs that mention p"""
    res = []
    for p_ in want["ins"]:
        fn = {}
        for o_, f in want["fn"].items():
            if f[0] == "p":
                if f[1] == p_:
                    fn[o_] = ("l", [(None, 1)])
            else:
                cs = [c for q, c in f[1] if q == p_]
                if cs:
                    fn[o_] = ("l", [(None, cs[-1])])
        res.append({"ins": list(want["ins"]), "outs": list(want["outs"]), "fn": fn})
    return res


def mapping_value_histories(ctx: Ctx, n_hist: int):
    from types import MappingProxyType

    from quri_parts.circuit import CONST, Parameter
    from quri_parts.circuit.parameter_mapping import LinearParameterMapping

    rng = ctx.rng
    outer_types = set()

    def num(v):
        f = complex(v)
        return int(f.real) if f.imag == 0 and f.real == int(f.real) else repr(f)

    for _ in range(n_hist):
        pool: list = []
        log: list[str] = []
        recs: list[dict] = []  # {"m", "want", "snap", "made_by"}
        probes: list = []

        def pid(p_):
            if p_ is CONST:
                return None
            for i, q in enumerate(pool):
                if q is p_:
                    return i
            pool.append(p_)
            return len(pool) - 1

        def fresh(k):
            ps = [Parameter(f"a{len(pool) + i}") for i in range(k)]
            for p_ in ps:
                pid(p_)
            return ps

        def observe(m):
            """everything the public getters of a mapping show (exceptions are outputs)"""
            try:
                ins = [pid(x) for x in m.in_params]
                outs = [pid(x) for x in m.out_params]
                fn = {}
                for o_, f in m.mapping.items():
                    fn[pid(o_)] = ("l", [(pid(q), num(c)) for q, c in f.items()]) if hasattr(f, "items") else ("p", pid(f))
                d = {"ins": ins, "outs": outs, "fn": fn}
            except Exception as e:  # noqa: BLE001
                return {"error": type(e).__name__}
            vals = [float(i + 1) for i in range(len(ins))]
            for name, call in (("triv", lambda: bool(m.is_trivial_mapping)),
                               ("seq", lambda: [num(v) for v in m.seq_mapper(vals)]),
                               ("map", lambda: [num(v) for v in (lambda r: [r[x] for x in m.out_params])(m.mapper(dict(zip(m.in_params, vals))))])):
                try:
                    d[name] = call()
                except Exception as e:  # noqa: BLE001
                    d[name] = "err:" + type(e).__name__
            return d

        def restate(want):
            """the same record from the expected value alone"""
            d = {"ins": list(want["ins"]), "outs": list(want["outs"]), "fn": dict(want["fn"])}
            dv = {}
            for i, p_ in enumerate(want["ins"]):
                dv[p_] = i + 1
            ok = all(o_ in want["fn"] for o_ in want["outs"]) and \
                all(q is None or q in dv for f in want["fn"].values() for q in ([f[1]] if f[0] == "p" else [t[0] for t in f[1]]))
            d["triv"] = trivial_restated(want["ins"], want["outs"], [list(want["fn"][o_]) if want["fn"][o_][0] == "p" else
                                                                     ["l", [list(t) for t in want["fn"][o_][1]]]
                                                                     for o_ in want["outs"]]) if ok else None
            seq = [int(_mv_fn_value(want["fn"][o_], dv)) for o_ in want["outs"]] if ok else None
            d["seq"] = d["map"] = seq
            return d

        def same(got, want_rec):
            if "error" in got:
                return False
            for k_ in ("ins", "outs", "fn"):
                if got[k_] != want_rec[k_]:
                    return False
            # is_trivial_mapping / the mappers are only specified for well-formed mappings
            return all(want_rec[k_] is None or got[k_] == want_rec[k_] for k_ in ("triv", "seq", "map"))

        def register(m, want, how, scribble):
            """judge the fresh mapping, then overwrite the caller-owned arguments and judge again"""
            ctx.traces += 1
            snap0 = observe(m)
            if not same(snap0, restate(want)):
                ctx.witness("mapping:" + how.split(" ")[0], f"the mapping returned by {how.split(' ')[0]} is not what the call documents",
                            {"calls": log[:]}, {"got": str(snap0)[:400], "want": str(restate(want))[:400]})
            scribble()
            snap1 = observe(m)
            if snap1 != snap0:
                ctx.witness("mapping-keeps-caller-container", "a mapping changed when the containers it was built from were overwritten after the call",
                            {"calls": log[:]}, {"before": str(snap0)[:400], "after": str(snap1)[:400]})
            recs.append({"m": m, "want": want, "snap": snap1, "how": how})
            # (what `mapping` hands out is deliberately not written to - neither the outer dict nor the linear functions,
            #  which are plain dicts in derivative mappings - see the note in Interp.circ_struct)
            outer_types.add(type(m.mapping).__name__)
            for box in (m.in_params, m.out_params):
                if isinstance(box, list):
                    box.clear()

        def rand_fn(ins_ids):
            """(value, caller-owned object) of a random function of the given inputs"""
            ins_ids = list(dict.fromkeys(ins_ids))  # (after combine an input may be listed twice)
            if ins_ids and rng.random() < 0.35:
                q = rng.choice(ins_ids)
                return ("p", q), pool[q]
            qs = rng.sample(ins_ids, rng.randint(0, min(2, len(ins_ids)))) if ins_ids else []
            terms = [(q, rng.choice([-2, -1, 1, 1, 2, 3])) for q in qs]
            if rng.random() < 0.4 or not terms:
                terms.insert(rng.randint(0, len(terms)), (None, rng.randint(-2, 2)))
            obj = {(CONST if q is None else pool[q]): (float(c) if rng.random() < 0.7 else int(c)) for q, c in terms}
            if rng.random() < 0.2:
                obj = MappingProxyType(obj)  # (then nobody, the caller included, can write through this object)
            return ("l", terms), obj

        def overwrite(*boxes):
            def go():
                for b in boxes:
                    try:
                        if isinstance(b, list):
                            b.append(Parameter("late"))
                            b.reverse()
                            b.clear()
                        elif isinstance(b, dict):
                            for k_, v in list(b.items()):
                                if isinstance(v, dict):
                                    for q in list(v):
                                        v[q] = 7.0
                                    v.clear()
                                b[k_] = {CONST: 7.0}
                            b.clear()
                    except TypeError:
                        pass
            return go

        for _step in range(rng.randint(3, 9)):
            r = rng.random()
            if not recs or r < 0.3:
                ins = fresh(rng.randint(0, 3))
                outs = fresh(rng.randint(0, 3))
                ins_ids = [pid(x) for x in ins]
                fnv, fno = {}, {}
                for o_ in outs:
                    fnv[pid(o_)], fno[o_] = rand_fn(ins_ids)
                want = {"ins": ins_ids, "outs": [pid(x) for x in outs], "fn": fnv}
                a_in = list(ins) if rng.random() < 0.7 else tuple(ins)
                a_out = list(outs) if rng.random() < 0.7 else tuple(outs)
                form = rng.choice(["kw", "pos", "default"]) if not ins and not outs else rng.choice(["kw", "pos"])
                log.append(f"m{len(recs)} = LinearParameterMapping[{form}](in={want['ins']}, out={want['outs']}, mapping={fnv}) "
                           f"containers={type(a_in).__name__}/{type(a_out).__name__}/{[type(v).__name__ for v in fno.values()]}; then overwrite them")
                try:
                    if form == "kw":
                        m = LinearParameterMapping(in_params=a_in, out_params=a_out, mapping=fno)
                    elif form == "pos":
                        m = LinearParameterMapping(a_in, a_out, fno)
                    else:
                        m = LinearParameterMapping()
                except Exception as e:  # noqa: BLE001
                    ctx.witness("mapping:LinearParameterMapping", "the constructor rejected a well-formed mapping", {"calls": log[:]}, {"error": type(e).__name__})
                    continue
                register(m, want, "LinearParameterMapping " + form, overwrite(a_in, a_out, fno))
            elif r < 0.6:
                i = rng.randrange(len(recs))
                base = recs[i]["want"]
                add_in = fresh(rng.randint(0, 2)) if rng.random() < 0.6 else []
                ins_ids = base["ins"] + [pid(x) for x in add_in]
                add_out = fresh(rng.randint(0, 2)) if rng.random() < 0.7 else []
                fnv, fno = {}, {}
                for o_ in add_out:
                    fnv[pid(o_)], fno[o_] = rand_fn(ins_ids)
                if base["outs"] and rng.random() < 0.25:  # redefine the function of an existing output
                    o_ = rng.choice(base["outs"])
                    fnv[o_], fno[pool[o_]] = rand_fn(ins_ids)
                want = {"ins": ins_ids, "outs": base["outs"] + [pid(x) for x in add_out], "fn": {**base["fn"], **fnv}}
                kw = {}
                a_in, a_out = list(add_in), list(add_out)
                if add_in or rng.random() < 0.5:
                    kw["in_params_addition"] = a_in
                if add_out or rng.random() < 0.5:
                    kw["out_params_addition"] = a_out
                if fno or rng.random() < 0.5:
                    kw["mapping_update"] = fno
                log.append(f"m{len(recs)} = m{i}.with_data_updated({', '.join(kw)}) in+={[pid(x) for x in add_in]} out+={[pid(x) for x in add_out]} "
                           f"update={fnv}; then overwrite the arguments")
                try:
                    m = recs[i]["m"].with_data_updated(**kw)
                except Exception as e:  # noqa: BLE001
                    ctx.witness("mapping:with_data_updated", "with_data_updated raised on a well-formed update", {"calls": log[:]}, {"error": type(e).__name__})
                    continue
                register(m, want, "with_data_updated", overwrite(a_in, a_out, fno))
            elif r < 0.75:
                i, j = rng.randrange(len(recs)), rng.randrange(len(recs))
                a, b = recs[i]["want"], recs[j]["want"]
                want = {"ins": a["ins"] + b["ins"], "outs": a["outs"] + b["outs"], "fn": {**a["fn"], **b["fn"]}}
                log.append(f"m{len(recs)} = m{i}.combine(m{j})")
                try:
                    m = recs[i]["m"].combine(recs[j]["m"])
                except Exception as e:  # noqa: BLE001
                    ctx.witness("mapping:combine", "combine raised", {"calls": log[:]}, {"error": type(e).__name__})
                    continue
                register(m, want, "combine", lambda: None)
            elif r < 0.9:
                i = rng.randrange(len(recs))
                base = recs[i]["want"]
                if not all(o_ in base["fn"] for o_ in base["outs"]):
                    continue
                log.append(f"m{len(recs)}.. = m{i}.get_derivatives()")
                try:
                    ds = list(recs[i]["m"].get_derivatives())
                except Exception as e:  # noqa: BLE001
                    ctx.witness("mapping:get_derivatives", "get_derivatives raised", {"calls": log[:]}, {"error": type(e).__name__})
                    continue
                wants = _mv_restate_derivs(base)
                if len(ds) != len(wants):
                    ctx.witness("mapping:get_derivatives", "get_derivatives does not return one mapping per input parameter",
                                {"calls": log[:]}, {"got": len(ds), "want": len(wants)})
                    continue
                for dm, w in zip(ds, wants):
                    register(dm, w, "get_derivatives", lambda: None)
            else:
                i = rng.randrange(len(recs))
                m = recs[i]["m"]
                w = recs[i]["want"]
                vals = [float(rng.randint(-3, 3)) for _ in w["ins"]]
                log.append(f"take m{i}.mapper / m{i}.seq_mapper, values {[int(v) for v in vals]}")
                try:
                    sm, mp = m.seq_mapper, m.mapper
                    first = ([num(v) for v in sm(vals)], {pid(k_): num(v) for k_, v in mp(dict(zip(m.in_params, vals))).items()})
                except Exception as e:  # noqa: BLE001
                    first = "err:" + type(e).__name__
                    sm = mp = None
                probes.append((i, sm, mp, vals, first, tuple(m.in_params)))
                if sm is not None:
                    # documented: a value sequence of the wrong length is rejected with ValueError
                    bad = vals + [1.0] if rng.random() < 0.5 or not vals else vals[:-1]
                    try:
                        sm(bad)
                        got = "accepted"
                    except ValueError:
                        got = "ValueError"
                    except Exception as e:  # noqa: BLE001
                        got = type(e).__name__
                    ctx.traces += 1
                    if got != "ValueError":
                        ctx.witness("mapping:seq_mapper-length", "seq_mapper did not reject a value sequence of the wrong length with ValueError",
                                    {"calls": log[:], "values": len(bad), "parameters": len(vals)}, {"got": got})
                if sm is not None and all(o_ in w["fn"] for o_ in w["outs"]):
                    dv = {}
                    for p_, v in zip(w["ins"], vals):
                        dv[p_] = v
                    want_seq = [int(_mv_fn_value(w["fn"][o_], dv)) for o_ in w["outs"]]
                    ctx.traces += 1
                    if first[0] != want_seq or [first[1].get(o_) for o_ in w["outs"]] != want_seq:
                        ctx.witness("mapping:mapper", "mapper / seq_mapper do not compute the mapping's linear functions",
                                    {"calls": log[:]}, {"seq_mapper": first[0], "mapper": str(first[1]), "want": want_seq})
        # the end of the history: nothing ever made may have changed
        for n_, rec in enumerate(recs):
            now = observe(rec["m"])
            ctx.traces += 1
            if now != rec["snap"]:
                ctx.witness("mapping-value-changed-later", f"mapping m{n_} ({rec['how']}) observes differently at the end of the history than when it was made",
                            {"calls": log[:]}, {"made": str(rec["snap"])[:400], "now": str(now)[:400]})
        for i, sm, mp, vals, first, ins in probes:
            if sm is None:
                continue
            try:
                now = ([num(v) for v in sm(vals)], {pid(k_): num(v) for k_, v in mp(dict(zip(ins, vals))).items()})
            except Exception as e:  # noqa: BLE001
                now = "err:" + type(e).__name__
            ctx.traces += 1
            if now != first:
                ctx.witness("mapping-closure-changed-later", f"the mapper / seq_mapper taken from m{i} gives a different result at the end of the history",
                            {"calls": log[:]}, {"first": str(first)[:300], "now": str(now)[:300]})
        ctx.case(("mapping", tuple(log)), nontrivial=len(recs) > 1, sample={"mapping_calls": log[:4]})
        ctx.count("mapping", "histories")
        ctx.count("mapping", "mappings", len(recs))
    ctx.extra.setdefault("observations_not_judged", []).append(
        "LinearParameterMapping.mapping hands out " + "/".join(sorted(outer_types)) + ": after with_data_updated / combine it is the "
        "mapping's own plain dict (only the constructor wraps it in a MappingProxyType), so writing into the returned `Mapping` "
        "changes every circuit that shares the mapping object (e.g. lqc.freeze() and lqc). No circuit mutator is involved and the "
        "getter is typed read-only, so C20 does not judge it.")


# ---------------------------------------------------------------------------------------------
# circuits with classical bits (`measure` in both argument forms) and the state constructors' remaining branches
# (default circuit, documented qubit-count error): small random histories judged by a direct restatement -
# every call appends one known gate to one known handle; frozen / copied / combined / bound handles keep their prefix.
# ---------------------------------------------------------------------------------------------
def measure_histories(ctx: Ctx, n_hist: int):
    import quri_parts.circuit as qc
    from quri_parts.core.state import GeneralCircuitQuantumState, ParametricCircuitQuantumState

    rng = ctx.rng

    class RealErr(Exception):
        pass

    def real(f):
        """a call into the library: only its exceptions are outputs"""
        try:
            return f()
        except Exception as e:  # noqa: BLE001
            raise RealErr(f"{type(e).__name__}: {e}"[:160]) from None

    def desc(g):
        return [g.name.replace("Parametric", ""), list(g.control_indices) + list(g.target_indices), list(getattr(g, "classical_indices", ()))]

    def show(o):
        try:
            c = o
            if isinstance(o, GeneralCircuitQuantumState):
                c = o.circuit
            elif isinstance(o, ParametricCircuitQuantumState):
                c = o.parametric_circuit
            return {"gates": [desc(g) for g in c.gates], "cbits": c.cbit_count, "n": c.qubit_count}
        except Exception as e:  # noqa: BLE001
            return {"error": type(e).__name__}

    for _ in range(n_hist):
        fam = rng.choice(["qc", "pqc", "lqc", "lqc"])
        n, cb = rng.randint(1, 3), rng.randint(1, 3)
        log = [f"c0 = {fam}({n}, cbit_count={cb})"]
        cls = {"qc": qc.QuantumCircuit, "pqc": qc.ParametricQuantumCircuit, "lqc": qc.LinearMappedParametricQuantumCircuit}[fam]
        hs = [cls(n, cb)]  # handles
        exp = [[]]  # expected gate descriptors
        mut = [True]
        xs = {}
        # known finding get_mutable_copy-keeps-is_immutable-flag (non-parametric Rust family only): freeze() of a circuit made by
        # `+` / get_mutable_copy() may return that very object - such handles are not frozen / wrapped in a state here
        taint = [False]

        def witness(what, detail, key="classical-bits-history"):
            ctx.witness(key, what, {"calls": log[:]}, detail)

        for _step in range(rng.randint(3, 10)):
            taint += [False] * (len(hs) - len(taint))
            i = rng.randrange(len(hs))
            o = hs[i]
            r = rng.random()
            try:
                if mut[i] and r < 0.3:
                    q, c = rng.randrange(n), rng.randrange(cb)
                    if rng.random() < 0.5:
                        log.append(f"c{i}.measure({q}, {c})")
                        real(lambda: o.measure(q, c))
                        exp[i].append(["Measurement", [q], [c]])
                    else:
                        k = rng.randint(1, min(n, cb))
                        qs, cs = rng.sample(range(n), k), rng.sample(range(cb), k)
                        log.append(f"c{i}.measure({qs}, {cs})")
                        real(lambda: o.measure(qs, cs))
                        exp[i].append(["Measurement", qs, cs])
                elif mut[i] and r < 0.45:
                    q = rng.randrange(n)
                    log.append(f"c{i}.add_H_gate({q})")
                    real(lambda: o.add_H_gate(q))
                    exp[i].append(["H", [q], []])
                elif mut[i] and r < 0.55 and fam != "qc":
                    q = rng.randrange(n)
                    if fam == "lqc":
                        if i not in xs:
                            xs[i] = real(lambda: o.add_parameter("x"))
                        log.append(f"c{i}.add_ParametricRY_gate({q}, {{x{i}: 2}})")
                        real(lambda: o.add_ParametricRY_gate(q, {xs[i]: 2.0}))
                    else:
                        log.append(f"c{i}.add_ParametricRY_gate({q})")
                        real(lambda: o.add_ParametricRY_gate(q))
                    exp[i].append(["RY", [q], []])
                elif mut[i] and r < 0.62:
                    q, c = rng.randrange(n), rng.randrange(cb)
                    log.append(f"c{i} += [Measurement([{q}], [{c}])]")
                    hs[i] = real(lambda: operator.iadd(o, [qc.Measurement([q], [c])]))
                    exp[i].append(["Measurement", [q], [c]])
                elif taint[i] and (r < 0.74 or r >= 0.9):
                    continue
                elif r < 0.74 and not isinstance(o, (GeneralCircuitQuantumState, ParametricCircuitQuantumState)):
                    log.append(f"c{len(hs)} = c{i}.freeze()")
                    hs.append(real(lambda: o.freeze())); exp.append(list(exp[i])); mut.append(False)
                elif r < 0.82 and not isinstance(o, (GeneralCircuitQuantumState, ParametricCircuitQuantumState)):
                    log.append(f"c{len(hs)} = c{i}.get_mutable_copy()")
                    hs.append(real(lambda: o.get_mutable_copy())); exp.append(list(exp[i])); mut.append(True); taint.append(fam == "qc")
                    if i in xs:
                        xs[len(hs) - 1] = xs[i]
                elif r < 0.9 and not isinstance(o, (GeneralCircuitQuantumState, ParametricCircuitQuantumState)):
                    q, c = rng.randrange(n), rng.randrange(cb)
                    log.append(f"c{len(hs)} = c{i} + [Measurement([{q}], [{c}])]")
                    hs.append(real(lambda: o + [qc.Measurement([q], [c])])); exp.append(exp[i] + [["Measurement", [q], [c]]]); mut.append(True)
                    taint.append(fam == "qc")
                    if i in xs:
                        xs[len(hs) - 1] = xs[i]
                elif not isinstance(o, (GeneralCircuitQuantumState, ParametricCircuitQuantumState)):
                    st = GeneralCircuitQuantumState if type(o) in (qc.QuantumCircuit, qc.ImmutableQuantumCircuit) else ParametricCircuitQuantumState
                    log.append(f"c{len(hs)} = {st.__name__}({n}, c{i})")
                    hs.append(real(lambda: st(n, o))); exp.append(list(exp[i])); mut.append(False)
                else:
                    q = rng.randrange(n)
                    log.append(f"c{len(hs)} = c{i}.with_gates_applied([H({q})])")
                    hs.append(real(lambda: o.with_gates_applied([qc.H(q)]))); exp.append(exp[i] + [["H", [q], []]]); mut.append(False)
            except RealErr as e:  # every call above is well-formed
                witness("a well-formed call on a circuit with classical bits raised", {"error": str(e)})
                break
        ctx.traces += 1
        taint += [False] * (len(hs) - len(taint))
        for i, o in enumerate(hs):
            got = show(o)
            want = {"gates": exp[i], "cbits": cb, "n": n}
            if got != want:
                witness(f"handle c{i} does not hold the gates its own history gave it (a later call on another handle leaked in, or classical bits were lost)",
                        {"handle": i, "got": str(got)[:400], "want": str(want)[:400]})
                break
        ctx.case(("cbits", tuple(log)), nontrivial=len(hs) > 1, sample={"cbit_calls": log[:5]})
        ctx.count("cbits", "histories")


def state_ctor_checks(ctx: Ctx):
    """default circuit of GeneralCircuitQuantumState and the documented ValueError of both state constructors"""
    import quri_parts.circuit as qc
    from quri_parts.core.state import GeneralCircuitQuantumState as GS, ParametricCircuitQuantumState as PS

    def fail(what, inp, detail):
        ctx.witness("state-constructor", what, inp, detail)

    for n in (1, 2, 3, 5):
        for form in ("omitted", "None"):
            ctx.traces += 1
            try:
                s = GS(n) if form == "omitted" else GS(n, None)
                t = GS(n)
                s2 = s.with_gates_applied([qc.H(0)])
                s3 = s2.with_gates_applied((qc.X(n - 1),))
                m = s.circuit.get_mutable_copy()
                m.add_X_gate(0)
                got = [s.qubit_count, s.circuit.qubit_count, len(s.circuit.gates), len(t.circuit.gates),
                       [g.name for g in s2.circuit.gates], [g.name for g in s3.circuit.gates], len(m.gates)]
            except Exception as e:  # noqa: BLE001
                got = "err:" + type(e).__name__
            want = [n, n, 0, 0, ["H"], ["H", "X"], 1]
            if got != want:
                fail("a state built without a circuit is not the empty-circuit state, or states derived from it leak into it",
                     {"n_qubits": n, "circuit_argument": form}, {"got": got, "want": want})
    for n in (1, 2, 3):
        for dn in (-1, 1, 2):
            if n + dn < 1:
                continue
            c = qc.QuantumCircuit(n)
            c.add_H_gate(0)
            p = qc.ParametricQuantumCircuit(n)
            p.add_ParametricRX_gate(0)
            l = qc.LinearMappedParametricQuantumCircuit(n)
            x = l.add_parameter("x")
            l.add_ParametricRZ_gate(n - 1, {x: 2.0})
            for name, ctor, arg in (("GeneralCircuitQuantumState", GS, c), ("GeneralCircuitQuantumState", GS, c.freeze()),
                                    ("ParametricCircuitQuantumState", PS, p), ("ParametricCircuitQuantumState", PS, l),
                                    ("ParametricCircuitQuantumState", PS, l.freeze())):
                ctx.traces += 1
                try:
                    ctor(n + dn, arg)
                    got = "accepted"
                except ValueError:
                    got = "ValueError"
                except Exception as e:  # noqa: BLE001
                    got = type(e).__name__
                if got != "ValueError" or len(arg.gates) != 1:
                    fail(f"{name}(n_qubits, circuit) with a different qubit count must be rejected with ValueError and leave the circuit alone",
                         {"n_qubits": n + dn, "circuit": type(arg).__name__, "circuit_qubit_count": n}, {"got": got, "gates_after": len(arg.gates)})
    ctx.count("state-constructor", "cases", 8 + 3 * 5 * 3 - 5)


# ---------------------------------------------------------------------------------------------
# rejected calls ("rejected with an error rather than mis-handled"): qubit-count mismatch in extend / + / += for every pair of
# circuit classes, a gate list with an out-of-range gate on the left of `+`, a parametric circuit with a foreign kind of
# parameter mapping.  The call must raise and BOTH operands must observe exactly as before.
# ---------------------------------------------------------------------------------------------
def rejected_call_checks(ctx: Ctx):
    import quri_parts.circuit as qc

    reg: dict = {}

    def id(q):  # noqa: A001 - identity of a Parameter (the Rust classes hand out a new wrapper object per access)
        return reg.setdefault(q, len(reg))

    def snap(o):
        d = {"cls": type(o).__name__, "n": o.qubit_count,
             "gates": [(g.name, tuple(g.control_indices) + tuple(g.target_indices), tuple(getattr(g, "params", ()))) for g in o.gates]}
        if hasattr(o, "param_mapping"):
            m = o.param_mapping
            d["ins"] = [id(q) for q in m.in_params]
            d["outs"] = [id(q) for q in m.out_params]
            d["fn"] = {id(k_): (id(f) if not hasattr(f, "items") else tuple((id(q), c) for q, c in f.items())) for k_, f in m.mapping.items()}
        return d

    keep = []

    def build(fam, n):
        """a circuit of the family with an X, and (parametric families) one parametric gate"""
        base = {"qc": qc.QuantumCircuit, "iqc": qc.QuantumCircuit, "pqc": qc.ParametricQuantumCircuit, "ipqc": qc.ParametricQuantumCircuit,
                "lqc": qc.LinearMappedParametricQuantumCircuit, "ilqc": qc.LinearMappedParametricQuantumCircuit}[fam](n)
        base.add_X_gate(n - 1)
        if fam in ("pqc", "ipqc"):
            base.add_ParametricRX_gate(0)
        if fam in ("lqc", "ilqc"):
            x = base.add_parameter("x")
            keep.append(x)
            base.add_ParametricRZ_gate(0, {x: 2.0, qc.CONST: 1.0})
        return base.freeze() if fam.startswith("i") else base

    class Foreign:
        """quacks like a parametric circuit; its parameter mapping is not a LinearParameterMapping"""
        qubit_count, cbit_count, depth, parameter_count, gates, has_trivial_parameter_mapping = 2, 0, 0, 0, (), True
        param_mapping = object()

        def bind_parameters(self, params): raise NotImplementedError
        def bind_parameters_by_dict(self, d): raise NotImplementedError
        def freeze(self): return self
        def get_mutable_copy(self): return self
        def primitive_circuit(self): return qc.ParametricQuantumCircuit(2).freeze()
        def __add__(self, o): return NotImplemented
        def __radd__(self, o): return NotImplemented

    def attempt(what, inp, f, operands, only=None):
        before = [snap(o) for o in operands]
        try:
            f()
            got = "accepted"
        except (ValueError, TypeError, NotImplementedError) as e:
            got = type(e).__name__
        except Exception as e:  # noqa: BLE001
            got = "other:" + type(e).__name__
        after = [snap(o) for o in operands]
        ctx.traces += 1
        ok = got in (only or ("ValueError", "TypeError", "NotImplementedError"))
        if not ok or before != after:
            ctx.witness("rejected-call", what, inp, {"outcome": got, "operands_changed": before != after,
                                                      "before": str(before)[:300], "after": str(after)[:300]})

    fams = ("qc", "iqc", "pqc", "ipqc", "lqc", "ilqc")
    cnt = 0
    for n, m in ((2, 3), (3, 2), (1, 2), (2, 1)):
        for fa in fams:
            for fb in fams:
                a, b = build(fa, n), build(fb, m)
                inp = {"left": f"{fa}({n})", "right": f"{fb}({m})"}
                if fa == "lqc":
                    # the wrapper's own documented check (a foreign Rust circuit may be refused by type instead)
                    attempt("extend with a circuit of another qubit count must raise ValueError and leave both circuits alone",
                            dict(inp, call="left.extend(right)"), lambda: a.extend(b), [a, b],
                            only=("ValueError",))
                    attempt("`+=` with a circuit of another qubit count must raise and leave both circuits alone",
                            dict(inp, call="left += right"), lambda: operator.iadd(a, b), [a, b])
                if "lqc" in fa or "lqc" in fb:
                    attempt("`+` of circuits with different qubit counts must raise and leave both circuits alone",
                            dict(inp, call="left + right"), lambda: a + b, [a, b])
                cnt += 1
    for fa in ("lqc", "ilqc"):
        for n in (1, 2, 3):
            a = build(fa, n)
            for form in (list, tuple):
                gs = form([qc.H(0), qc.X(n)])
                attempt("a gate sequence with an out-of-range gate + linear-mapped circuit must raise and leave the circuit alone",
                        {"call": f"{form.__name__}[H(0), X({n})] + {fa}({n})"}, lambda: gs + a, [a])
                attempt("linear-mapped circuit + a gate sequence with an out-of-range gate must raise and leave the circuit alone",
                        {"call": f"{fa}({n}) + {form.__name__}[H(0), X({n})]"}, lambda: a + gs, [a])
                cnt += 2
    a = build("lqc", 2)
    f_ = Foreign()
    if isinstance(f_, qc.ParametricQuantumCircuitProtocol):
        attempt("extend with a parametric circuit whose parameter mapping is not linear must raise ValueError and leave the circuit alone",
                {"call": "lqc(2).extend(<parametric circuit with a foreign param_mapping>)"}, lambda: a.extend(f_), [a], only=("ValueError",))
        cnt += 1
    ctx.count("rejected-call", "cases", cnt)


# ---------------------------------------------------------------------------------------------
# states as values: histories over EVERY state class (GeneralCircuitQuantumState, ComputationalBasisState, QuantumStateVector,
# ParametricCircuitQuantumState, ParametricQuantumStateVector) built from EVERY circuit class - the qulacs pre-compiled ones
# included, which are mutable QuantumCircuit subclasses whose freeze() returns self, so a state built from one holds a
# mutable circuit - and derived through every entry point that is documented to return a new state and leave its
# arguments alone: with_gates_applied (list / tuple / circuit), state_helper.apply_circuit, state_helper.quantum_state,
# bind_parameters, with_primitive_circuit, re-wrapping state.circuit in a new state.  Derivations are repeated on the same
# source.  After EVERY call every state and every circuit made so far must read exactly as its own history says.
# ---------------------------------------------------------------------------------------------
KEY_COMPILED = "compiled-circuit-freeze-returns-mutable-self"


def state_derivation_histories(ctx: Ctx, n_hist: int):
    import numpy as np

    import quri_parts.circuit as qc
    from quri_parts.core import state as st

    try:
        from quri_parts.qulacs.circuit.compiled_circuit import compile_circuit, compile_parametric_circuit
    except Exception:  # noqa: BLE001 - renamed / removed: the histories run without the compiled kinds
        compile_circuit = compile_parametric_circuit = None
    apply_circuit, quantum_state = st.apply_circuit, st.quantum_state
    rng = ctx.rng
    try:
        from quri_parts.core.operator import Operator, pauli_label
        from quri_parts.qulacs.circuit import convert_parametric_circuit
        from quri_parts.qulacs.operator import convert_operator
        from quri_parts.qulacs.estimator import create_qulacs_vector_estimator, create_qulacs_vector_parametric_estimator
        est, pest = create_qulacs_vector_estimator(), create_qulacs_vector_parametric_estimator()
    except Exception:  # noqa: BLE001 - without them the histories are only re-read, not re-used
        est = pest = convert_parametric_circuit = None

    def outcome(f):
        """value of a re-USE of a derived object (numbers rounded off only when compared); the library's exceptions are outcomes"""
        try:
            return f()
        except BaseException as e:  # noqa: BLE001
            if isinstance(e, (KeyboardInterrupt, SystemExit, MemoryError)):
                raise
            return "err:" + type(e).__name__

    def close(x, y):
        if isinstance(x, (list, tuple)) and isinstance(y, (list, tuple)):
            return len(x) == len(y) and all(close(p_, q_) for p_, q_ in zip(x, y))
        if isinstance(x, (int, float, complex)) and isinstance(y, (int, float, complex)):
            return abs(complex(x) - complex(y)) < 1e-9
        return x == y

    def values(cnt):
        return [0.3 * (k_ + 1) * (-1) ** k_ for k_ in range(cnt)]
    compiled_known = any(k["property"] == "C20" and k["key"] == KEY_COMPILED for k in load_known_findings())

    class RealErr(Exception):
        pass

    def real(f):
        try:
            return f()
        except BaseException as e:  # noqa: BLE001 - the library's exceptions (Rust panics included) are outputs
            if isinstance(e, (KeyboardInterrupt, SystemExit, MemoryError)):
                raise
            raise RealErr(f"{type(e).__name__}: {e}"[:160]) from None

    def desc(g):
        ps = tuple(getattr(g, "params", ()))
        return [g.name.replace("Parametric", ""), list(g.control_indices) + list(g.target_indices),
                "unbound" if g.name.startswith("Parametric") else [float(x) for x in ps]]

    def circuit_of(o):
        if isinstance(o, (st.ParametricCircuitQuantumState, st.ParametricQuantumStateVector)):
            return o.parametric_circuit
        if hasattr(o, "circuit") and not hasattr(o, "gates"):
            return o.circuit
        return o

    def read(o):
        try:
            c = circuit_of(o)
            d = {"n": c.qubit_count, "gates": [desc(g) for g in c.gates]}
            if hasattr(o, "vector"):
                d["vector"] = [complex(x) for x in np.asarray(o.vector).ravel()]
            return d
        except Exception as e:  # noqa: BLE001
            return {"error": type(e).__name__}

    def use(o, n):
        """what a holder of the object gets when it USES it now: estimates a state (through the qulacs vector estimators, which
        take the compiled-circuit fast path when the state holds a compiled circuit), calls the parameter mapper of a compiled
        parametric circuit, binds a parametric circuit / state.  Reading gates alone does not show a derived callable or a cached
        converted circuit that is still tied to the source."""
        rec = {}
        c = circuit_of(o)
        is_state = c is not o
        par = hasattr(c, "parameter_count") and hasattr(c, "bind_parameters")
        cnt = outcome(lambda: c.parameter_count) if par else 0
        vals = values(cnt) if isinstance(cnt, int) else []
        # the backend-side object the library keeps inside a compiled circuit and shows through a public property: ALL of it
        # (gates and the current value of every qulacs parameter) - an estimate / bind must not write into it.  It is read
        # before the estimate below, so what an estimate leaves behind shows up at the next look
        def backend(qc_):
            d_ = [qc_.get_gate_count(), qc_.to_string() if hasattr(qc_, "to_string") else str(qc_)]
            if hasattr(qc_, "get_parameter_count"):
                d_.append([float(qc_.get_parameter(k_)) for k_ in range(qc_.get_parameter_count())])
            return d_

        if hasattr(c, "param_mapper"):
            rec["param_mapper(values)"] = outcome(lambda: [float(x) for x in c.param_mapper(vals)])
        if hasattr(c, "qulacs_circuit"):
            rec["qulacs_circuit (gates, parameter values)"] = outcome(lambda: backend(c.qulacs_circuit))
        if par:
            rec["bind_parameters(values)"] = outcome(lambda: [desc(g) for g in circuit_of(o.bind_parameters(vals)).gates])
        if is_state and est is not None:
            op = Operator({pauli_label("Z0"): 1.0, pauli_label(f"X{n - 1}"): 0.5, pauli_label(f"Y0 Z{n - 1}" if n > 1 else "Y0"): -0.25})
            rec["estimate"] = outcome(lambda: complex(pest(op, o, vals).value) if par else complex(est(op, o).value))
            # a second estimate with other values right away: the first one must not have left anything behind
            if par and vals:
                rec["estimate(-values)"] = outcome(lambda: complex(pest(op, o, [-v_ for v_ in vals]).value))
            rec["converted operator"] = outcome(lambda: (lambda q_: sorted(
                (tuple(q_.get_term(k_).get_index_list()), tuple(q_.get_term(k_).get_pauli_id_list()), complex(q_.get_term(k_).get_coef()))
                for k_ in range(q_.get_term_count())))(convert_operator(op, n)))
        return rec

    def lit(n):
        gs, ds = [], []
        for _ in range(rng.randint(1, 2)):
            # (no Pauli gates: ComputationalBasisState folds Pauli-only sequences into its bits / phase)
            k = rng.choice(["H", "S", "RZ", "CNOT"] if n > 1 else ["H", "S", "RZ"])
            if k == "CNOT":
                a, b = rng.sample(range(n), 2)
                gs.append(qc.CNOT(a, b)); ds.append(["CNOT", [a, b], []])
            elif k == "RZ":
                q, a = rng.randrange(n), float(rng.randint(-3, 3))
                gs.append(qc.RZ(q, a)); ds.append(["RZ", [q], [a]])
            else:
                q = rng.randrange(n)
                gs.append(getattr(qc, k)(q)); ds.append([k, [q], []])
        return gs, ds

    for _ in range(n_hist):
        n = rng.randint(1, 3)
        log: list[str] = []
        objs: list = []   # circuits and states
        exp: list = []    # expected {"n", "gates"[, "vector"]}
        tag: list = []    # kind tags
        # circuits that are mutated later: made by a plain constructor, compile_parametric_circuit of a plain parametric circuit
        # (a mutable ParametricQuantumCircuit subclass whose freeze() must give an independent immutable circuit), mutable copies of
        # the parametric families.  NOT the non-parametric compile_circuit results (narrow known finding KEY_COMPILED) and not the
        # non-parametric results of get_mutable_copy / + (known finding get_mutable_copy-keeps-is_immutable-flag)
        fresh_mut: set = set()
        used: list = []   # what using the object gave when it was made (refreshed when the object ITSELF is mutated)
        calls: list = []  # derived callables: (description, function, argument, first outcome)

        def put(o, want, kind, name):
            objs.append(o); exp.append(want); tag.append(kind)
            with quiet_stderr():
                used.append(use(o, n))
            log[-1] = f"v{len(objs) - 1} = " + log[-1]
            return len(objs) - 1

        def check_all(after: str) -> bool:
            ctx.traces += 1
            with quiet_stderr():
                now = [use(o, n) for o in objs]
            for i, (u0, u1) in enumerate(zip(used, now)):
                bad = [k_ for k_ in u0 if not close(u0[k_], u1.get(k_))]
                if bad:
                    ctx.witness("derived-object-use-changes", f"after `{after}` USING the {tag[i]} v{i} gives something else than when it was made "
                                "(a derived object kept a live tie to a circuit that was mutated later, or a call that only returns a new object / an estimate "
                                "wrote into one of the objects it was given)",
                                {"calls": log[:], "values": "0.3, -0.6, 0.9, ... (one per parameter)"},
                                {"object": f"v{i}", "use": bad[0], "when_made": str(u0[bad[0]])[:300], "now": str(u1.get(bad[0]))[:300]})
                    return False
            for what, fn, arg, first in calls:
                again = outcome(lambda: [float(x) for x in fn(arg)])
                if not close(first, again):
                    ctx.witness("derived-object-use-changes", f"after `{after}` the callable `{what}` returns something else than when it was made",
                                {"calls": log[:], "argument": arg}, {"when_made": str(first)[:300], "now": str(again)[:300]})
                    return False
            for i, o in enumerate(objs):
                got = read(o)
                if got != exp[i]:
                    key = "state-derivation-changes-source" if i < len(objs) - 1 or not after.startswith("v") else "state-derivation-result"
                    ctx.witness(key, f"after `{after}` the {tag[i]} v{i} does not read as its own history says "
                                     "(a call documented to return a new object changed one of its arguments or built the wrong result, or a later "
                                     "mutation of the circuit it was derived from leaked into it)",
                                {"calls": log[:]}, {"object": f"v{i}", "kind": tag[i], "got": str(got)[:400], "want": str(exp[i])[:400]})
                    return False
            return True

        def new_circuit():
            fam = rng.choice(["qc", "iqc", "pqc", "ipqc", "lqc", "ilqc", "bqc", "cc", "cc", "cp", "cl"])
            if fam in ("cc", "cp", "cl") and compile_circuit is None:
                fam = "qc"
            base_f = {"qc": "qc", "iqc": "qc", "cc": "qc", "pqc": "pqc", "ipqc": "pqc", "bqc": "pqc", "cp": "pqc", "lqc": "lqc", "ilqc": "lqc", "cl": "lqc"}[fam]
            c = {"qc": qc.QuantumCircuit, "pqc": qc.ParametricQuantumCircuit, "lqc": qc.LinearMappedParametricQuantumCircuit}[base_f](n)
            gs, ds = lit(n)
            c.extend(gs)
            if base_f == "pqc":
                q = rng.randrange(n)
                c.add_ParametricRY_gate(q); ds.append(["RY", [q], "unbound"])
            if base_f == "lqc":
                x = c.add_parameter("x")
                q = rng.randrange(n)
                c.add_ParametricRX_gate(q, {x: 2.0}); ds.append(["RX", [q], "unbound"])
            log.append(f"{base_f}({n}) with gates {ds}")
            b = put(c, {"n": n, "gates": list(ds)}, base_f, "")
            fresh_mut.add(b)
            if fam in ("iqc", "ipqc", "ilqc"):
                log.append(f"v{b}.freeze()")
                return put(real(lambda: c.freeze()), {"n": n, "gates": list(ds)}, fam, "")
            if fam == "bqc":
                log.append(f"v{b}.bind_parameters([3.0])")
                return put(real(lambda: c.bind_parameters([3.0])), {"n": n, "gates": [d if d[2] != "unbound" else [d[0], d[1], [3.0]] for d in ds]}, "bqc", "")
            if fam == "cc":
                log.append(f"compile_circuit(v{b})")
                return put(real(lambda: compile_circuit(c)), {"n": n, "gates": list(ds)}, "compiled circuit", "")
            if fam in ("cp", "cl"):
                log.append(f"compile_parametric_circuit(v{b})")
                h_ = put(real(lambda: compile_parametric_circuit(c)), {"n": n, "gates": list(ds)}, f"compiled parametric circuit ({base_f})", "")
                if hasattr(objs[h_], "add_gate"):
                    fresh_mut.add(h_)
                return h_
            return b

        def is_par(i):
            return any(d[2] == "unbound" for d in exp[i]["gates"]) or tag[i] in ("pqc", "ipqc", "lqc", "ilqc") or tag[i].startswith("compiled parametric")

        def circuits():
            return [i for i, t_ in enumerate(tag) if not t_.startswith("state:")]

        def states():
            return [i for i, t_ in enumerate(tag) if t_.startswith("state:")]

        def vec():
            v = np.zeros(2 ** n, dtype=complex)
            v[rng.randrange(2 ** n)] = 1
            return v

        def state_kind(o):
            return "state:" + type(o).__name__

        try:
            new_circuit()
            for _step in range(rng.randint(4, 10)):
                r = rng.random()
                cs, ss = circuits(), states()
                if r < 0.12 or not cs:
                    new_circuit()
                elif r < 0.34 or not ss:
                    # a state from a circuit, through a constructor or through quantum_state
                    i = rng.choice(cs)
                    c, par = objs[i], is_par(i)
                    how = rng.choice(["ctor", "ctor-vector", "helper", "helper-bits", "helper-vector"])
                    want = {"n": n, "gates": list(exp[i]["gates"])}
                    if how == "ctor":
                        cls = st.ParametricCircuitQuantumState if par else st.GeneralCircuitQuantumState
                        log.append(f"{cls.__name__}({n}, v{i})")
                        o = real(lambda: cls(n, c))
                    elif how == "ctor-vector":
                        cls = st.ParametricQuantumStateVector if par else st.QuantumStateVector
                        v = vec()
                        want["vector"] = [complex(x) for x in v]
                        log.append(f"{cls.__name__}({n}, basis vector {int(np.argmax(np.abs(v)))}, v{i})")
                        # (the caller's array is not overwritten afterwards: np.asarray keeps a complex128 array as it is, so the
                        #  state shares it - the property speaks about circuits, the vector is not judged)
                        o = real(lambda: cls(n, c, v) if par else cls(n, v, c))
                    elif how == "helper":
                        log.append(f"quantum_state({n}, circuit=v{i})")
                        o = real(lambda: quantum_state(n, circuit=c))
                    elif how == "helper-bits":
                        b = rng.randrange(2 ** n)
                        want["gates"] = [["X", [q], []] for q in range(n) if (b >> q) & 1] + want["gates"]
                        log.append(f"quantum_state({n}, bits={b}, circuit=v{i})")
                        o = real(lambda: quantum_state(n, bits=b, circuit=c))
                    else:
                        v = vec()
                        want["vector"] = [complex(x) for x in v]
                        log.append(f"quantum_state({n}, vector=basis {int(np.argmax(np.abs(v)))}, circuit=v{i})")
                        o = real(lambda: quantum_state(n, vector=v, circuit=c))
                    put(o, want, state_kind(o), "")
                elif r < 0.46:
                    # mutate a circuit that came from a plain constructor: nothing derived from it may follow.
                    # (a compiled circuit is itself such a mutable object - known finding, replayed separately)
                    cand = [i for i in cs if i in fresh_mut]
                    comp = [i for i in cand if tag[i].startswith("compiled")]
                    if not cand:
                        continue
                    i = rng.choice(comp) if comp and rng.random() < 0.6 else rng.choice(cand)
                    q = rng.randrange(n)
                    how = rng.choice(["add_S_gate", "add_gate", "extend", "+=", "parametric", "parametric"])
                    if how == "parametric" and hasattr(objs[i], "add_parameters"):
                        # the parametric STRUCTURE of a linear-mapped circuit: a new parameter, a new gate on one of its parameters
                        ins = list(objs[i].param_mapping.in_params)
                        if ins and rng.random() < 0.6:
                            cf = float(rng.choice([-2, -1, 1, 2, 3]))
                            log.append(f"v{i}.add_ParametricRX_gate({q}, {{<parameter {len(ins) - 1} of v{i}>: {cf}}})")
                            real(lambda: objs[i].add_ParametricRX_gate(q, {ins[-1]: cf}))
                            exp[i]["gates"].append(["RX", [q], "unbound"])
                        else:
                            log.append(f"v{i}.add_parameters('y')")
                            real(lambda: objs[i].add_parameters("y"))
                    elif how == "add_S_gate":
                        log.append(f"v{i}.add_S_gate({q})")
                        real(lambda: objs[i].add_S_gate(q))
                        exp[i]["gates"].append(["S", [q], []])
                    elif how == "add_gate":
                        log.append(f"v{i}.add_gate(H({q}), 0)")
                        real(lambda: objs[i].add_gate(qc.H(q), 0))
                        exp[i]["gates"].insert(0, ["H", [q], []])
                    elif how == "parametric" and is_par(i):
                        log.append(f"v{i}.add_ParametricRY_gate({q})")
                        real(lambda: objs[i].add_ParametricRY_gate(q))
                        exp[i]["gates"].append(["RY", [q], "unbound"])
                    else:
                        gs, ds = lit(n)
                        if how == "+=":
                            log.append(f"v{i} += {ds}")
                            objs[i] = real(lambda: operator.iadd(objs[i], gs))
                        else:
                            log.append(f"v{i}.extend({ds})")
                            real(lambda: objs[i].extend(tuple(gs)))
                        exp[i]["gates"] += ds
                    with quiet_stderr():
                        used[i] = use(objs[i], n)
                elif r < 0.56:
                    # a circuit from a circuit: freeze() / get_mutable_copy() / + (the source is mutated later, see above)
                    i = rng.choice(cs)
                    how = rng.choice(["freeze", "freeze", "get_mutable_copy", "+", "convert", "mapper"])
                    par_fam = is_par(i)
                    if how in ("convert", "mapper") and not (par_fam and hasattr(objs[i], "parameter_count")):
                        how = "freeze"
                    if how == "convert" and convert_parametric_circuit is not None:
                        arg = values(real(lambda: objs[i].parameter_count))
                        log.append(f"(_, mapper{len(calls)}) = convert_parametric_circuit(v{i})")
                        fn = real(lambda: convert_parametric_circuit(objs[i]))[1]
                        calls.append((f"mapper{len(calls)}", fn, arg, outcome(lambda: [float(x) for x in fn(arg)])))
                    elif how in ("convert", "mapper"):
                        arg = values(real(lambda: objs[i].parameter_count))
                        log.append(f"mapper{len(calls)} = v{i}.param_mapping.seq_mapper")
                        fn = real(lambda: objs[i].param_mapping.seq_mapper)
                        calls.append((f"mapper{len(calls)}", fn, arg, outcome(lambda: [float(x) for x in fn(arg)])))
                    elif how == "freeze":
                        log.append(f"v{i}.freeze()")
                        put(real(lambda: objs[i].freeze()), {"n": n, "gates": list(exp[i]["gates"])}, "frozen " + tag[i], "")
                    elif how == "get_mutable_copy":
                        log.append(f"v{i}.get_mutable_copy()")
                        h_ = put(real(lambda: objs[i].get_mutable_copy()), {"n": n, "gates": list(exp[i]["gates"])}, "mutable copy of " + tag[i], "")
                        if par_fam:
                            fresh_mut.add(h_)
                    else:
                        gs, ds = lit(n)
                        log.append(f"v{i} + {ds}")
                        h_ = put(real(lambda: objs[i] + gs), {"n": n, "gates": list(exp[i]["gates"]) + ds}, "sum with " + tag[i], "")
                        if par_fam:
                            fresh_mut.add(h_)
                else:
                    j = rng.choice(ss)
                    s_, par = objs[j], is_par(j)
                    reps = 2 if rng.random() < 0.4 else 1
                    x = rng.random()
                    for _rep in range(reps):
                        want = {k_: (list(v_) if isinstance(v_, list) else v_) for k_, v_ in exp[j].items()}
                        if x < 0.25 and hasattr(s_, "with_gates_applied"):
                            gs, ds = lit(n)
                            form = rng.choice(["list", "tuple", "circuit"])
                            arg = gs if form == "list" else tuple(gs) if form == "tuple" else (lambda c_: (c_.extend(gs), c_.freeze())[1])(qc.QuantumCircuit(n))
                            want["gates"] = want["gates"] + ds
                            log.append(f"v{j}.with_gates_applied({form} {ds})")
                            o = real(lambda: s_.with_gates_applied(arg))
                        elif x < 0.7:
                            i = rng.choice(cs)
                            want["gates"] = want["gates"] + list(exp[i]["gates"])
                            log.append(f"apply_circuit(v{i}, v{j})")
                            with quiet_stderr():  # (a Rust borrow panic prints a backtrace)
                                o = real(lambda: apply_circuit(objs[i], s_))
                        elif x < 0.8 and par and hasattr(s_, "bind_parameters"):
                            cnt = real(lambda: circuit_of(s_).parameter_count)
                            vals = [float(rng.randint(-3, 3)) for _ in range(cnt)]
                            if isinstance(circuit_of(s_), qc.ImmutableLinearMappedParametricQuantumCircuit):
                                # (the bound angle of a linear-mapped gate is a function of the values: the model-judged histories cover it)
                                break
                            k_ = iter(vals)
                            want["gates"] = [d if d[2] != "unbound" else [d[0], d[1], [next(k_)]] for d in want["gates"]]
                            log.append(f"v{j}.bind_parameters({vals})")
                            o = real(lambda: s_.bind_parameters(vals))
                        elif x < 0.9:
                            c_ = circuit_of(s_)
                            cls = (st.ParametricCircuitQuantumState if par else st.GeneralCircuitQuantumState)
                            want.pop("vector", None)
                            log.append(f"{cls.__name__}({n}, <circuit of v{j}>)")
                            o = real(lambda: cls(n, c_))
                        else:
                            c_ = circuit_of(s_)
                            want.pop("vector", None)
                            log.append(f"quantum_state({n}, circuit=<circuit of v{j}>)")
                            o = real(lambda: quantum_state(n, circuit=c_))
                        put(o, want, state_kind(o), "")
                        if not check_all(log[-1]):
                            raise StopIteration
                    continue
                if not check_all(log[-1]):
                    raise StopIteration
        except RealErr as e:
            ctx.witness("state-derivation-result", "a well-formed construction / derivation of a state raised", {"calls": log[:]}, {"error": str(e)})
        except StopIteration:
            pass
        ctx.case(("states", tuple(log)), nontrivial=len(objs) > 2, sample={"state_calls": log[:5]})
        ctx.count("states", "histories")
        for t_ in tag:
            ctx.count("states", t_)

    # the separate defect the compiled circuits have on the unchanged tree (replayed; judged only once it is a listed finding)
    if compile_circuit is not None:
        c = qc.QuantumCircuit(2)
        c.add_H_gate(0)
        try:
            cc = compile_circuit(c)
            s0 = st.GeneralCircuitQuantumState(2, cc)
            cc.add_X_gate(1)
            follows = [g.name for g in s0.circuit.gates] != ["H"]
            stale = cc.qulacs_circuit.get_gate_count() != len(cc.gates)
        except Exception:  # noqa: BLE001
            follows = stale = False
        ctx.extra["compiled_circuit_is_mutable_and_state_follows_it"] = follows
        if follows and compiled_known:
            ctx.witness(KEY_COMPILED, "compile_circuit(c) is documented as an ImmutableQuantumCircuit but is a mutable QuantumCircuit whose freeze() returns "
                        "itself: a state built from it follows later add_*_gate calls on it" + (" (and its cached qulacs circuit goes stale)" if stale else ""),
                        {"calls": ["c = QuantumCircuit(2); c.add_H_gate(0)", "cc = compile_circuit(c)", "s0 = GeneralCircuitQuantumState(2, cc)", "cc.add_X_gate(1)"]},
                        {"s0.circuit.gates": [g.name for g in s0.circuit.gates], "want": ["H"]})
        elif follows:
            ctx.extra.setdefault("observations_not_judged", []).append(
                "GENUINE DEFECT awaiting a known_findings line (key " + KEY_COMPILED + "): cc = compile_circuit(c); s0 = GeneralCircuitQuantumState(2, cc); "
                "cc.add_X_gate(1) -> s0.circuit.gates == [H, X]: the compiled circuit is a mutable QuantumCircuit whose freeze() returns self")


# ---------------------------------------------------------------------------------------------
# estimates are operations too: requested concurrently (threads) with many distinct parameter sets on one state, every result
# must be the value for ITS OWN parameters - workers must not share a mutable backend object.  Circuits with a few hundred
# parametric gates, compiled and not, plain and linear-mapped; judged against (a) the sequential parametric estimator on a
# state freshly built from a fresh circuit and (b) the bind_parameters + non-parametric estimator path; afterwards the state
# and what it holds must read and estimate as before.
# ---------------------------------------------------------------------------------------------
def concurrent_parametric_checks(ctx: Ctx, n_sets: int):
    import sys as _sys
    from concurrent.futures import ThreadPoolExecutor

    import quri_parts.circuit as qc
    from quri_parts.core.operator import Operator, pauli_label
    from quri_parts.core.state import ParametricCircuitQuantumState
    from quri_parts.qulacs.estimator import (create_qulacs_vector_concurrent_parametric_estimator, create_qulacs_vector_estimator,
                                             create_qulacs_vector_parametric_estimator)

    try:
        from quri_parts.qulacs.circuit.compiled_circuit import compile_parametric_circuit
    except Exception:  # noqa: BLE001
        compile_parametric_circuit = None
    rng = ctx.rng
    n, n_gates = 4, 240
    op = Operator({pauli_label("Z0 Z1"): 1.0, pauli_label("X2"): 0.5, pauli_label("Y0 X3"): -0.25, pauli_label("Z3"): 0.75})
    layout = [(rng.choice(["RX", "RY", "RZ"]), rng.randrange(n), rng.randrange(3), rng.choice([-2.0, -1.0, 0.5, 1.0, 2.0])) for _ in range(n_gates)]
    cnots = [tuple(rng.sample(range(n), 2)) for _ in range(n_gates)]

    def build(kind):
        if kind.endswith("lqc"):
            c = qc.LinearMappedParametricQuantumCircuit(n)
            xs = c.add_parameters("a", "b", "c")
            for (g, q, k_, cf), (u, v) in zip(layout, cnots):
                getattr(c, f"add_Parametric{g}_gate")(q, {xs[k_]: cf, qc.CONST: 0.1})
                c.add_CNOT_gate(u, v)
            cnt = 3
        else:
            c = qc.ParametricQuantumCircuit(n)
            for (g, q, _, _), (u, v) in zip(layout[:60], cnots):
                getattr(c, f"add_Parametric{g}_gate")(q)
                c.add_CNOT_gate(u, v)
            cnt = 60
        if kind.startswith("compiled"):
            c = compile_parametric_circuit(c)
        return ParametricCircuitQuantumState(n, c), cnt

    def run(f):
        try:
            return [complex(e.value) for e in f()]
        except BaseException as e:  # noqa: BLE001
            if isinstance(e, (KeyboardInterrupt, SystemExit, MemoryError)):
                raise
            return "err:" + type(e).__name__

    kinds = ["lqc", "pqc"] + (["compiled lqc", "compiled pqc"] if compile_parametric_circuit is not None else [])
    old = _sys.getswitchinterval()
    _sys.setswitchinterval(1e-5)  # many thread switches: a shared backend object does not survive them
    try:
        for kind in kinds:
            state, cnt = build(kind)
            fresh, _ = build(kind)
            sets = [[round(rng.uniform(-3, 3), 3) for _ in range(cnt)] for _ in range(n_sets)]
            seq, nonpar = create_qulacs_vector_parametric_estimator(), create_qulacs_vector_estimator()
            want = run(lambda: [seq(op, fresh, p_) for p_ in sets])
            bound = run(lambda: [nonpar(op, fresh.bind_parameters(p_)) for p_ in sets[:8]])
            ctx.traces += 2
            if isinstance(want, str) or isinstance(bound, str) or any(abs(x - y) > 1e-8 for x, y in zip(want, bound)):
                ctx.witness("parametric-estimate-entry-points-differ", "the sequential parametric estimator and bind_parameters + estimator disagree",
                            {"state": f"ParametricCircuitQuantumState(4, {kind} with {n_gates if 'lqc' in kind else 60} parametric gates)", "parameter_sets": sets[:2]},
                            {"parametric": str(want)[:200], "bound": str(bound)[:200]})
                continue
            for workers, conc in ((4, 4), (3, 8)):
                with ThreadPoolExecutor(max_workers=workers) as ex:
                    cest = create_qulacs_vector_concurrent_parametric_estimator(ex, conc)
                    for _rep in range(2):
                        got = run(lambda: cest(op, state, sets))
                        ctx.traces += 1
                        badi = None if not isinstance(got, str) and len(got) == len(want) else 0
                        if badi is None:
                            badi = next((i for i, (x, y) in enumerate(zip(got, want)) if abs(x - y) > 1e-8), None)
                        if badi is not None:
                            ctx.witness("concurrent-parametric-estimate", "a concurrently requested estimate is not the value for its own parameters "
                                        "(sequential estimate on a freshly built equal state differs)",
                                        {"state": f"ParametricCircuitQuantumState(4, {kind}: {n_gates if 'lqc' in kind else 60} parametric gates alternating with CNOTs)",
                                         "estimator": f"create_qulacs_vector_concurrent_parametric_estimator(ThreadPoolExecutor({workers}), {conc})",
                                         "parameter_sets": len(sets), "failing_index": badi, "parameters": sets[badi][:6]},
                                        {"got": str(got if isinstance(got, str) else got[badi]), "want": str(want[badi])})
                            break
                    else:
                        continue
                    break
            # afterwards the state given to all those estimates is what it was: it estimates like the fresh one
            after = run(lambda: [seq(op, state, p_) for p_ in sets[:4]])
            ctx.traces += 1
            if isinstance(after, str) or any(abs(x - y) > 1e-8 for x, y in zip(after, want)):
                ctx.witness("concurrent-parametric-estimate", "after concurrent estimates the state no longer estimates like an equal fresh state",
                            {"state": f"ParametricCircuitQuantumState(4, {kind})", "parameters": sets[0][:6]}, {"got": str(after)[:200], "want": str(want[:4])[:200]})
            ctx.count("concurrent", kind)
    finally:
        _sys.setswitchinterval(old)


# ---------------------------------------------------------------------------------------------
# CachedMeasurementFactory must serve EVERY request for equal content the grouping of that content, whatever kind of
# iterable the wrapped factory returns (the factory type only promises an Iterable: a one-shot generator / iterator that
# is cached as it is would be handed out exhausted on the cache hit; repaired in /repo by fc1fb9e, which stores a tuple).
# ---------------------------------------------------------------------------------------------
def cache_one_shot_iterable_probe(ctx: Ctx):
    from quri_parts.core.measurement import CachedMeasurementFactory, bitwise_commuting_pauli_measurement
    from quri_parts.core.operator import Operator, pauli_label

    def groups(it):
        return sorted(sorted(str(p_) for p_ in g.pauli_set) for g in it)

    for terms in ({"X0 Y1": 1.0, "Z0": 2.0}, {"X0": 1.0, "Y0": -1.0, "Z0 Z1": 0.5, "X1": 3.0}):
        op = Operator({pauli_label(k_): v_ for k_, v_ in terms.items()})
        want = groups(bitwise_commuting_pauli_measurement(op))
        for form, wrap in (("generator", lambda o: (g for g in bitwise_commuting_pauli_measurement(o))),
                           ("iterator", lambda o: iter(bitwise_commuting_pauli_measurement(o))),
                           ("list", lambda o: list(bitwise_commuting_pauli_measurement(o))),
                           ("tuple", lambda o: tuple(bitwise_commuting_pauli_measurement(o)))):
            try:
                fac = CachedMeasurementFactory(wrap)
                got = [groups(fac(op)), groups(fac(op.copy())), groups(fac(op))]
            except Exception as e:  # noqa: BLE001 - the real code's behaviour is an output
                got = "err:" + type(e).__name__
            ctx.traces += 1
            ctx.count("cache", "one-shot-probe:" + form)
            if got != [want, want, want]:
                ctx.witness("cache:CachedMeasurementFactory-one-shot-iterable",
                            "a repeated request for equal operator content was not served the grouping of that content "
                            "(the iterable returned by the wrapped factory was cached as it is and is exhausted on the cache hit)",
                            {"operator": terms, "wrapped_factory_returns": form,
                             "calls": ["fac = CachedMeasurementFactory(<bitwise_commuting_pauli_measurement wrapped to return a " + form + ">)",
                                       "fac(op)", "fac(op.copy())", "fac(op)"]},
                            {"group_counts": got if isinstance(got, str) else [len(x) for x in got], "want": [len(want)] * 3})


# ---------------------------------------------------------------------------------------------
# exhaustive small scopes (thorough tier): every history of a given length over a small alphabet
# ---------------------------------------------------------------------------------------------
def small_alphabet(R: "Interp", family: str):
    """all applicable operations (from a small template set) in the current real state"""
    nh = len(R.h)
    kinds = [R.kind(i) for i in range(nh)]
    out = []
    if nh < 4:
        out.append({"np": "newC:2", "par": "newP:2", "lm": "newL:2"}[family])
    for h, k in enumerate(kinds):
        if k in MUT:
            out.append(f"addGate:{h}:0.0.0.-:-")
            if k == "pqc":
                out.append(f"addPar:{h}:3:1")
            if k == "lqc":
                out.append(f"addParams:{h}:1")
                if R.h[h].parameter_count:
                    out.append(f"addParL:{h}:4:0:1:{h}.0*1")
                # the Python wrapper's other entry points: add_<Name>_gate, `+=`
                out.append(f"addNamed:{h}:9.1.0.-:0")
                out.append(f"iadd:{h}:T1.1.0.-")
                for j, kj in enumerate(kinds):
                    if kj in CIRC and j != h and all(R.h[j] is not R.h[i] for i in range(nh) if R.h[i] is R.h[h]):
                        out.append(f"iadd:{h}:h{j}")
            for j, kj in enumerate(kinds):
                if kj in CIRC and j != h:
                    out.append(f"extend:{h}:h{j}")
        if k in CIRC and nh < 4:
            out += [f"freeze:{h}", f"mutCopy:{h}", f"immCtor:{h}", f"mkState:{h}", f"combine:{h}:L1.1.0.-"]
            if k in PAR + LM:
                out.append(f"primitive:{h}")
                cnt = R.h[h].parameter_count
                out.append(f"bind:{h}:{','.join(['2'] * cnt)}")
                if k in LM and cnt:
                    out.append(f"bind:{h}:{','.join(['2'] * cnt)}:d")
                    if len(R.probes) < 2:
                        out.append(f"mapTake:{h}:{','.join(str(i + 1) for i in range(cnt))}")
            if k == "bqc":
                out.append(f"getUnbound:{h}")
            for j, kj in enumerate(kinds):
                if kj in CIRC and j <= h:
                    out.append(f"combine:{h}:h{j}")
        if k in ("gs", "ps") and nh < 4:
            out += [f"stCircuit:{h}", f"stApply:{h}:L0.1.0.-"]
            if k == "ps":
                out.append(f"stPrim:{h}")
                out.append(f"stBind:{h}:{','.join(['1'] * R.h[h].parametric_circuit.parameter_count)}")
        if k in CIRC:
            out.append(f"depth:{h}")
    return out


def enumerate_histories(family: str, depth: int, limit: int):
    """depth-first enumeration; the real interpreter is re-run on every prefix (objects cannot be snapshotted)"""
    start = {"np": "newC:2", "par": "newP:2", "lm": "newL:2"}[family]
    out = []

    def rec(prefix):
        if len(out) >= limit:
            return
        R = Interp(False)
        for op in prefix:
            R.do(op)
        if len(prefix) == depth:
            out.append(prefix + [f"obs:{i}" for i in range(len(R.h))] + [f"mapEval:{i}" for i in range(len(R.probes))])
            return
        for op in small_alphabet(R, family):
            rec(prefix + [op])

    rec([start])
    return out


def exhaustive(ctx: Ctx, depth: int, limit: int, families=("np", "par", "lm")):
    total = ctx.extra.get("exhaustive_histories", 0)
    for family in families:
        hs = enumerate_histories(family, depth, limit)
        total += len(hs)
        ctx.count("exhaustive", f"{family}-depth{depth}", len(hs))
        for lo in range(0, len(hs), 3000):
            chunk = hs[lo: lo + 3000]
            models = model_run(ctx, chunk)
            for ops, m in zip(chunk, models):
                real, flags = run_flags(ops)
                report_flags(ctx, ops, flags, all(m["safe"]))
                cr = canon_transcript(real, False, with_hash=True, ops=ops)
                vops, vreal = model_view(ops, real)
                crm = canon_transcript(vreal, False, ops=vops)
                cm = canon_transcript(m["impl"], True, ops=vops)
                ctx.traces += 1
                ctx.evaluations += 1
                d = first_diff(crm, cm)
                if d is not None:
                    ctx.disagree("impl-model-vs-real(exhaustive)", {"history": vops[: d + 1]}, crm[d] if d < len(crm) else None,
                                 cm[d] if d < len(cm) else None)
                safe = all(m["safe"])
                if safe and not m["refines"]:
                    ctx.disagree("refinement-fails-on-safe-history", {"history": ops}, "Safe = true", "refinesB = false")
                if safe:
                    co = canon_transcript(run_ops(ops, True), False, with_hash=True, ops=ops)
                    d = first_diff(cr, co)
                    if d is not None:
                        ctx.witness("alias-free-history-diverges", "a history without any known aliasing step behaves differently from value semantics",
                                    {"history": shrink(ops)}, {"real": cr[d] if d < len(cr) else None, "value_semantics": co[d] if d < len(co) else None})
    ctx.extra["exhaustive_histories"] = total

# ---------------------------------------------------------------------------------------------
def gen(ctx: Ctx):
    with ctx.timed("translate"):
        try:
            txt, n, info = c20gen.emit()
        except Exception as e:  # noqa: BLE001 - a source the translator cannot read is an undischarged obligation, not an infra fault
            msg = f"{type(e).__name__}: {e}"[:200].replace('"', "'")
            txt = ("-- GENERATED by /verif/translate/c20gen.py: the translator could not read the sources\n"
                   "import QuriVerif.Model.C20\nnamespace QV.Gen.C20\nopen QV.C20\n"
                   "def cfg : Cfg := ⟨⟨.cloneUnlessImmutable, .cloneKeepFlag, .aliasSetFlag, true, false⟩, "
                   "⟨.cloneUnlessImmutable, .cloneResetFlag, .cloneFlagFalse, true, false⟩, .keepsSelf, true, true⟩\n"
                   f'def rustUnknown : List String := ["translator: {msg}"]\n'
                   "def pyUnknown : List String := []\ndef rustSem : List (String × Bool) := []\nend QV.Gen.C20\n")
            n = 0
            info = {"rust": {}, "python": {}, "unknown": ["translator: " + msg], "py_unknown": [],
                    "ok_text": ("import QuriVerif.Generated.C20Shapes\nnamespace QV.Gen.C20\n"
                                "theorem rust_known_ok : rustUnknown = [] := by decide\n"
                                "theorem rust_semantics_ok : rustSem.all (·.2) = true := by decide\nend QV.Gen.C20\n")}
        ctx.write_generated("C20Shapes", txt)
        ctx.write_generated("C20ShapesOk", info["ok_text"])
        ctx.generated_entries += n
        ctx.extra["rust_shapes"] = {k: v for k, v in info["rust"].items() if k in ("np", "par", "bind")}
        ctx.extra["rust_unknown"] = info["unknown"]
        ctx.extra["python_wrapper_shapes_changed"] = info["py_unknown"]
        ctx.extra["binary_is_not_built_from_repo"] = True
        ctx.extra["binary_vs_working_tree_rust_differences_seen"] = [
            "binary defines __hash__ on immutable circuits (not in circuit.rs)",
            "binary: `a + b` raises ValueError for different qubit counts and for a rejected gate (circuit.rs: NotImplemented → TypeError)",
            "binary: == on parametric circuits ignores parameter identity; SWAP gates compare up to target order",
        ]
        return info


# restatements that compare with a private copy: only meaningful while no known aliasing step has tied handles together
FLAGS_NEEDING_ALIAS_FREE = ("iadd-vs-extend",)


def report_flags(ctx: Ctx, ops, flags, safe: bool) -> int:
    """an observer of the real objects contradicted the direct restatement of its documented meaning"""
    seen = set()
    for i, key, what, detail in flags:
        if key in seen or (key in FLAGS_NEEDING_ALIAS_FREE and not safe):
            continue
        seen.add(key)
        small = ops[:i] if key in FLAGS_NEEDING_ALIAS_FREE else shrink(ops[:i], first_flag(key))
        ctx.witness("observer:" + key, what, {"history": small}, detail)
    return len(seen)


def replay_witnesses(ctx: Ctx):
    """the three known aliasing defects, re-derived on the real objects"""
    seen = {}
    for key, ops in WITNESSES.items():
        d = real_vs_oracle(ops)
        ctx.traces += 1
        seen[key] = d is not None
        if d is not None:
            a = canon_transcript(run_ops(ops, False), False)
            b = canon_transcript(run_ops(ops, True), False)
            ctx.witness(key, WITNESS_TEXT[key], {"history": ops}, {"real": a[d], "value_semantics": b[d], "at": d})
    return seen


def correspond(ctx: Ctx, n_hist: int, length: int):
    rng = ctx.rng
    hists, reals = [], []
    corpus = os.path.join(VERIF, "corpus", "C20")
    if os.path.isdir(corpus):
        for fn in sorted(os.listdir(corpus)):
            if fn.endswith(".json"):
                ops = json.load(open(os.path.join(corpus, fn)))["history"]
                hists.append(ops)
                reals.append(run_flags(ops))
                ctx.count("source", "corpus")
    for ops in WITNESSES.values():
        hists.append(ops)
        reals.append(run_flags(ops))
    for ops in named_sweeps():
        hists.append(ops)
        reals.append(run_flags(ops))
        ctx.count("source", "named-sweep")
    for i in range(n_hist):
        profile = ["np", "par", "lm", "mixed", "mixed"][i % 5]
        ops, outs, flags = gen_history(rng, rng.randint(length // 2, length), profile)
        hists.append(ops)
        reals.append((outs, flags))
        ctx.count("profile", profile)
    models = model_run(ctx, hists)
    n_safe = n_unsafe_diff = 0
    for ops, (real, flags), m in zip(hists, reals, models):
        report_flags(ctx, ops, flags, all(m["safe"]))
        oracle = run_ops(ops, True)
        vops, vreal = model_view(ops, real)
        _, voracle = model_view(ops, oracle)
        cr = canon_transcript(vreal, False, ops=vops)
        cm = canon_transcript(m["impl"], True, ops=vops)
        cs = canon_transcript(m["spec"], True, ops=vops)
        co = canon_transcript(voracle, False, ops=vops)
        safe = all(m["safe"])
        key = tuple(ops)
        for op in ops:
            f_ = op.split(":")
            ctx.count("op", f_[0])
            if f_[0] in ("bind", "stBind") and len(f_) > 3:
                ctx.count("bind_form", f_[3])
        for o in cr:
            if isinstance(o, str) and o.startswith("err:"):
                ctx.count("outcome", o)
        ctx.count("history", "alias-free" if safe else "has-aliasing-step")
        for op, ok_ in zip(vops, m["safe"]):
            if not ok_:
                ctx.count("aliasing_step", op.split(":")[0])
        ctx.case(key, nontrivial=len(ops) > 3,
                 sample={"history": ops[:12], "safe": safe, "refines": m["refines"]})
        ctx.traces += 2
        # K: the model (with the shapes read from the Rust text) reproduces the real objects, defects included
        d = first_diff(strip_hash(cr), cm)
        if d is not None:
            ctx.disagree("impl-model-vs-real", {"history": vops[: d + 1]}, strip_hash(cr)[d] if d < len(cr) else None,
                         cm[d] if d < len(cm) else None)
        # the Lean specification is the same statement of value semantics as the copying oracle
        # once an operation does not apply in the value world (the history was generated along the real run, where an
        # aliasing step can make more operations applicable) the remaining handle numbers mean different objects
        cut = next((i for i, (x, y) in enumerate(zip(cs, co)) if x == "err:badop" or y == "err:badop"), len(cs))
        d = first_diff(strip_hash(co)[:cut], cs[:cut])
        if d is not None:
            ctx.disagree("spec-vs-copying-oracle", {"history": vops[: d + 1]}, strip_hash(co)[d] if d < len(co) else None,
                         cs[d] if d < len(cs) else None)
        if safe and not m["refines"]:
            ctx.disagree("refinement-fails-on-safe-history", {"history": ops}, "Safe = true", "refinesB = false")
        # the property on the real code
        cr_h = canon_transcript(real, False, with_hash=True, ops=ops)
        co_h = canon_transcript(oracle, False, with_hash=True, ops=ops)
        d = first_diff(cr_h, co_h)
        if safe:
            n_safe += 1
            if d is not None:
                small = shrink(ops)
                ctx.witness("alias-free-history-diverges", "a history without any known aliasing step behaves differently from value semantics",
                            {"history": small}, {"real": cr_h[d], "value_semantics": co_h[d]})
        elif d is not None:
            n_unsafe_diff += 1
    ctx.extra["histories_alias_free"] = n_safe
    ctx.extra["histories_with_known_aliasing_step_that_diverge"] = n_unsafe_diff
    return models


def search(ctx: Ctx, budget_s: float):
    """failing-input search on the REAL code: histories whose every step is alias-free in the model must
    agree with the copying oracle; divergences are shrunk and classified by the aliasing step they need"""
    t0 = time.time()
    rng = ctx.rng
    found = 0
    n = 0
    while time.time() - t0 < budget_s and found < 3:
        batch = []
        for _ in range(20):
            ops, outs, flags = gen_history(rng, rng.randint(10, 40), rng.choice(["np", "par", "lm", "mixed"]))
            batch.append((ops, outs, flags))
        models = model_run(ctx, [b[0] for b in batch])
        for (ops, real, flags), m in zip(batch, models):
            n += 1
            found += report_flags(ctx, ops, flags, all(m["safe"]))
            d = real_vs_oracle(ops)
            if d is None:
                continue
            if all(m["safe"]):
                small = shrink(ops)
                a = canon_transcript(run_ops(small, False), False, True)
                b = canon_transcript(run_ops(small, True), False, True)
                dd = first_diff(a, b)
                ctx.witness("alias-free-history-diverges", "a history without any known aliasing step behaves differently from value semantics",
                            {"history": small}, {"real": a[dd] if dd is not None and dd < len(a) else None,
                                                 "value_semantics": b[dd] if dd is not None and dd < len(b) else None})
                found += 1
    ctx.evaluations += n
    ctx.search_budget_s += budget_s
    ctx.extra["search_histories"] = n


def run(ctx: Ctx, replay=None) -> int:
    ctx.rule = ("case = one operation history (construct / mutate / freeze / copy / + / bind / state / observe, 10-60 ops) run on "
                "the real objects, on the Lean implementation model (shapes from the Rust text), on the Lean specification and on the "
                "copying oracle; distinct = distinct histories; plus cache histories (operator mutation / lookup, Operator and label-iterable "
                "arguments, cached_groups) on both caches; plus LinearParameterMapping value histories (constructor / with_data_updated / combine / "
                "get_derivatives / mapper closures with caller-owned containers overwritten after each call), classical-bit (measure) histories, "
                "state-constructor branches and rejected calls (operands unchanged), each judged by a direct restatement. Alternative entry points "
                "(add_<Name>_gate, +=, add_parameter, bind_parameters_by_dict, tuple / numpy / int value sequences, tuple gate sequences) are run on "
                "the real objects and mapped to the model operation they must equal")
    ctx.trusted = TRUSTED
    ctx.assumptions = ["all circuits of one history have the same qubit count; angles, coefficients and bound values are small integers",
                       "== on parametric circuits ignores parameter identity (behaviour of the installed binary)",
                       "operator caches: the cached function is deterministic in the operator content"]
    info = gen(ctx)
    ok = ctx.prove([PROPS, "QuriVerif.Driver.C20"], [PROPS, GENMOD])
    if info["py_unknown"]:
        ctx.notes.append(f"Python wrapper text changed w.r.t. the modelled shape: {info['py_unknown']} (covered by the correspondence runs)")
    driver_ok = ok
    if not ok:
        driver_ok, _ = ctx.lake_build(["QuriVerif.Driver.C20"])
    if ok:
        names = [f"QV.Props.C20.{n}" for _, n, _ in ctx.count_obligations([PROPS])] + \
                [f"QV.Gen.C20.{n}" for _, n, _ in ctx.count_obligations([GENMOD])]
        ctx.audit(names, [PROPS])
    with ctx.timed("witness_replay"):
        seen = replay_witnesses(ctx)
        ctx.extra["known_defects_reproduced"] = seen
    escalate = (not ok) or bool(info["py_unknown"])
    if driver_ok:
        with ctx.timed("correspond"):
            correspond(ctx, ctx.n(360, 2500), ctx.n(36, 60))
            cache_correspond(ctx, ctx.n(150, 1500))
            cache_one_shot_iterable_probe(ctx)
            mapping_value_histories(ctx, ctx.n(600, 6000))
            measure_histories(ctx, ctx.n(300, 3000))
            state_ctor_checks(ctx)
            rejected_call_checks(ctx)
            state_derivation_histories(ctx, ctx.n(300, 4000))
            concurrent_parametric_checks(ctx, ctx.n(48, 400))
            if not ctx.quick():
                exhaustive(ctx, depth=4, limit=10 ** 6)  # complete: new + 3 operations + observation of every handle
                exhaustive(ctx, depth=5, limit=10 ** 6, families=("np",))  # the family with the findings: new + 4 operations
        escalate = escalate or bool(ctx.disagreements)
        with ctx.timed("search"):
            search(ctx, (6 if ctx.quick() else 60) * (6 if escalate else 1))
    else:
        ctx.notes.append("the model driver does not build with the current Generated shapes; correspondence skipped")
    keys: dict = {}
    for w in ctx.witnesses:
        keys[w["key"]] = keys.get(w["key"], 0) + 1
    ctx.extra["witness_keys"] = keys
    return ctx.finish()
