"""C20 — Frozen, bound and derived objects are unaffected by later mutation."""
from __future__ import annotations

import contextlib
import json
import os
import sys
import time

sys.path.insert(0, os.path.dirname(os.path.dirname(os.path.abspath(__file__))))

from common import VERIF, Ctx, InfraError, load_known_findings  # noqa: E402
from translate import c20gen  # noqa: E402

PROPS = "QuriVerif.Props.C20"
GENMOD = "QuriVerif.Generated.C20ShapesOk"
ENTRY = "DriverC20.lean"
LEAN_TARGETS = [PROPS, "QuriVerif.Driver.C20"]

TRUSTED = [
    "Lean 4.33 kernel; axioms audited ⊆ {propext, Classical.choice, Quot.sound}",
    "translator translate/c20gen.py: brace-matching extraction of Rust fn bodies + catalogue of normalised bodies "
    "(a body outside the catalogue is `unknown` and breaks the obligation rust_known_ok)",
    "the installed quri_parts.rust 0.27 binary stands in for the working-tree Rust (cannot be rebuilt): the correspondence "
    "runs of Rust-backed objects exercise that binary, the working-tree .rs files are tied by text only",
    "harness/c20.py interpreter of operation histories on real objects, canonicalisation of observations "
    "(parameter identities renamed by first appearance; bound parameter maps as dictionaries)",
    "oracle/valsem.py: copy-in/copy-out interpreter (value semantics by construction) built from the library's own "
    "constructors on fresh objects",
    "binary-only behaviour not in the working-tree Rust and therefore not modelled: __hash__ of immutable circuits "
    "(checked on the real objects only), the qubit-count check of `+` (histories use one qubit count)",
]

KEY_CTOR = "ImmutableQuantumCircuit-ctor-aliases-argument"
KEY_COPY = "get_mutable_copy-keeps-is_immutable-flag"
KEY_UNBOUND = "bound-circuit-keeps-live-reference-to-unbound-circuit"

# witness histories (also proved in Props/C20.lean: witness_*), replayed on the real code every run
WITNESSES = {
    KEY_CTOR: ["newC:2", "addGate:0:0.0.0.-:-", "immCtor:0", "freeze:0", "addGate:0:1.1.0.-:-", "obs:2"],
    KEY_COPY: ["newC:2", "addGate:0:0.0.0.-:-", "freeze:0", "mutCopy:1", "freeze:2", "addGate:2:1.1.0.-:-", "obs:3"],
    KEY_UNBOUND: ["newP:2", "addPar:0:3:0", "obs:0", "bind:0:2", "getUnbound:1", "addPar:0:4:1", "obs:2"],
}
WITNESS_TEXT = {
    KEY_CTOR: "ImmutableQuantumCircuit(c) returns c itself with is_immutable set, so a later c.freeze() is c: the 'frozen' circuit follows c.add_*",
    KEY_COPY: "ImmutableQuantumCircuit.get_mutable_copy()/+ clone the is_immutable flag: freeze() of the mutable copy returns the copy itself "
              "(also: state.with_gates_applied(...).circuit is a mutable QuantumCircuit)",
    KEY_UNBOUND: "bind_parameters stores the unfrozen source: bound.unbound_param_circuit is the mutable parametric circuit and follows its later mutation",
}

# ---------------------------------------------------------------------------------------------
# gate alphabet shared with the model: kind code -> (name, #controls, #targets, has angle)
# ---------------------------------------------------------------------------------------------
KINDS = {0: ("X", 0, 1, False), 1: ("H", 0, 1, False), 2: ("CNOT", 1, 1, False), 3: ("RX", 0, 1, True),
         4: ("RY", 0, 1, True), 5: ("RZ", 0, 1, True), 6: ("SWAP", 0, 2, False)}
KIND_OF_NAME = {v[0]: k for k, v in KINDS.items()}
PAR_KINDS = [3, 4, 5]


def enc_gate(g) -> str:
    k, qs, a, p = g
    return f"{k}.{','.join(map(str, qs))}.{a}.{'-' if p is None else p}"


def real_gate(g):
    from quri_parts.circuit import QuantumGate

    k, qs, a, p = g
    name, nc, nt, ang = KINDS[k]
    return QuantumGate(name=name, target_indices=tuple(qs[nc:]), control_indices=tuple(qs[:nc]),
                       params=(float(a),) if ang else ())


def gate_struct(g, param, pid):
    """real gate -> [k, qs, a, p]"""
    name = g.name
    if name.startswith("Parametric"):
        name = name[len("Parametric"):]
    k = KIND_OF_NAME[name]
    qs = list(g.control_indices) + list(g.target_indices)
    a = 0
    ps = getattr(g, "params", ())
    if ps:
        f = float(ps[0])
        if f != int(f):
            raise InfraError(f"non-integral angle {f} in an observed gate")
        a = int(f)
    return [k, qs, a, None if param is None else pid(param)]


ERR = {"AttributeError": "attr", "ValueError": "value", "IndexError": "index", "TypeError": "type", "KeyError": "key",
       "RuntimeError": "runtime", "PanicException": "panic"}


@contextlib.contextmanager
def quiet_stderr():
    """the Rust panic of `c.extend(c)` prints a backtrace on fd 2"""
    sys.stderr.flush()
    saved = os.dup(2)
    dn = os.open(os.devnull, os.O_WRONLY)
    try:
        os.dup2(dn, 2)
        yield
    finally:
        sys.stderr.flush()
        os.dup2(saved, 2)
        os.close(dn)
        os.close(saved)


# ---------------------------------------------------------------------------------------------
# interpreter of histories on real objects; copying=True is the value-semantics oracle
# ---------------------------------------------------------------------------------------------
class Interp:
    def __init__(self, copying: bool):
        from oracle import valsem

        self.vs = valsem
        self.copying = copying
        self.h: list = []
        self.pids: dict = {}  # Parameter -> raw id (first sight)
        self.keep: list = []
        self.hash0: dict[int, int] = {}

    # -- helpers --------------------------------------------------------------
    def pid(self, p):
        if p not in self.pids:
            self.pids[p] = len(self.pids)
            self.keep.append(p)
        return self.pids[p]

    def arg(self, i):
        o = self.h[i]
        return self.vs.clone(o) if self.copying else o

    def put(self, o, frozen=None):
        """copy-out; `frozen` = documented mutability of the result (only used by the oracle)"""
        if not self.copying:
            self.h.append(o)
        elif frozen is None or self.vs.kind_of(o) in ("gs", "ps"):
            self.h.append(self.vs.clone(o))
        else:
            self.h.append(self.vs.clone_circuit(o, frozen=frozen))

    def kind(self, i):
        return self.vs.kind_of(self.h[i])

    def src(self, s):
        if s[0] == "h":
            return self.arg(int(s[1:]))
        return [real_gate(g) for g in dec_lit(s)]

    # -- observation ----------------------------------------------------------
    def circ_struct(self, o):
        k = self.vs.kind_of(o)
        if k in ("qc", "iqc", "bqc"):
            d = {"k": "R", "cls": k, "n": o.qubit_count, "gs": [gate_struct(g, None, self.pid) for g in o.gates],
                 "pm": [], "ub": []}
            if k == "bqc":
                d["pm"] = [[self.pid(p), fl2int(v)] for p, v in o.parameter_map.items()]
            if k == "iqc":
                d["hash"] = hash(o)
            return d
        if k in ("pqc", "ipqc"):
            return {"k": "R", "cls": k, "n": o.qubit_count,
                    "gs": [gate_struct(g, p, self.pid) for g, p in o.gates_and_params], "pm": [], "ub": []}
        if k in ("lqc", "ilqc"):
            m = o.param_mapping
            fn = []
            for out in m.out_params:
                f = m.mapping[out]
                if hasattr(f, "items"):
                    fn.append(["l", [[None if is_const(p) else self.pid(p), fl2int(c)] for p, c in f.items()]])
                else:
                    fn.append(["p", self.pid(f)])
            return {"k": "L", "mu": k == "lqc", "ins": [self.pid(p) for p in m.in_params],
                    "outs": [self.pid(p) for p in m.out_params], "fn": fn, "pc": self.circ_struct(o._circuit)}
        raise InfraError(f"cannot observe object of kind {k}")

    def observe(self, i):
        o = self.h[i]
        k = self.vs.kind_of(o)
        if k == "gs":
            return {"t": "s", "v": self.circ_struct(o.circuit)}
        if k == "ps":
            return {"t": "s", "v": self.circ_struct(o.parametric_circuit)}
        return {"t": "c", "v": self.circ_struct(o)}

    # -- one operation --------------------------------------------------------
    def do(self, op: str):
        f = op.split(":")
        try:
            with quiet_stderr() if (f[0] == "extend") else contextlib.nullcontext():
                return self._do(f)
        except InfraError:
            raise
        except BaseException as e:  # noqa: BLE001 - the real code's behaviour is an output
            if isinstance(e, (KeyboardInterrupt, SystemExit, MemoryError)):
                raise
            return "err:" + ERR.get(type(e).__name__, "other-" + type(e).__name__)

    def _do(self, f):
        import quri_parts.circuit as qc
        from quri_parts.circuit.parameter import CONST
        from quri_parts.core.state import GeneralCircuitQuantumState, ParametricCircuitQuantumState

        name = f[0]
        if name == "newC":
            self.put(qc.QuantumCircuit(int(f[1])))
            return "ok"
        if name == "newP":
            self.put(qc.ParametricQuantumCircuit(int(f[1])))
            return "ok"
        if name == "newL":
            self.put(qc.LinearMappedParametricQuantumCircuit(int(f[1])))
            return "ok"
        h = int(f[1])
        if h >= len(self.h):
            return "err:badop"
        if name in ("addGate", "addPar", "addParL", "addParams", "extend"):
            o = self.arg(h)
            try:
                if name == "addGate":
                    g = dec_gate(f[2])
                    if f[3] == "-":
                        o.add_gate(real_gate(g))
                    else:
                        o.add_gate(real_gate(g), int(f[3]))
                elif name == "addPar":
                    qs = [int(x) for x in f[3].split(",")]
                    getattr(o, f"add_Parametric{KINDS[int(f[2])][0]}_gate")(*qs)
                elif name == "addParL":
                    qs = [int(x) for x in f[3].split(",")]
                    terms = []
                    for t in f[5].split(","):
                        r, c = t.split("*")
                        if r == "C":
                            terms.append((CONST, int(c)))
                        else:
                            hp, i = r.split(".")
                            terms.append((self.h[int(hp)].param_mapping.in_params[int(i)], int(c)))
                    angle = terms[0][0] if f[4] == "1" else dict(terms)
                    try:
                        getattr(o, f"add_Parametric{KINDS[int(f[2])][0]}_gate")(*qs, angle)
                    finally:
                        if isinstance(angle, dict) and not self.copying:
                            # the caller re-uses its scratch dict after the call: the circuit must have taken a snapshot
                            # (the copying oracle, i.e. value semantics, cannot see this at all)
                            for k_ in list(angle):
                                angle[k_] = 7.0
                            angle.clear()
                elif name == "addParams":
                    o.add_parameters(*[f"p{i}" for i in range(int(f[2]))])
                else:
                    s = f[2]
                    if s[0] == "h" and int(s[1:]) == h:
                        o.extend(o)  # Rust objects: borrow panic, also under value semantics
                    else:
                        o.extend(self.src(s))
            finally:
                if self.copying:
                    self.h[h] = o  # the private copy becomes the handle's value (also after a partial failure)
            return "ok"
        k = self.kind(h)
        is_state = k in ("gs", "ps")
        if name in ("freeze", "mutCopy", "immCtor", "primitive", "combine", "bind", "getUnbound", "mkState", "depth") and is_state:
            return "err:badop"
        if name in ("stCircuit", "stApply", "stBind", "stPrim") and not is_state:
            return "err:badop"
        if name == "freeze":
            self.put(self.arg(h).freeze(), frozen=True)
        elif name == "mutCopy":
            self.put(self.arg(h).get_mutable_copy(), frozen=False)
        elif name == "immCtor":
            ctor = {"qc": qc.ImmutableQuantumCircuit, "iqc": qc.ImmutableQuantumCircuit, "bqc": qc.ImmutableQuantumCircuit,
                    "pqc": qc.ImmutableParametricQuantumCircuit, "ipqc": qc.ImmutableParametricQuantumCircuit,
                    "lqc": qc.ImmutableLinearMappedParametricQuantumCircuit,
                    "ilqc": qc.ImmutableLinearMappedParametricQuantumCircuit}[k]
            self.put(ctor(self.arg(h)), frozen=True)
        elif name == "primitive":
            if k in ("qc", "iqc", "bqc"):
                return "err:badop"
            self.put(self.arg(h).primitive_circuit(), frozen=True)
        elif name == "combine":
            s = f[2]
            if s[0] == "h":
                j = int(s[1:])
                if j >= len(self.h) or self.kind(j) in ("gs", "ps"):
                    return "err:badop"
            self.put(self.arg(h) + self.src(s), frozen=False)
        elif name == "bind":
            if k in ("qc", "iqc", "bqc"):
                return "err:badop"
            self.put(self.arg(h).bind_parameters([float(x) for x in f[2].split(",")] if f[2] else []))
        elif name == "getUnbound":
            if k != "bqc":
                return "err:badop"
            u = self.arg(h).unbound_param_circuit
            self.put(u, frozen=True)  # value semantics: a frozen snapshot
        elif name == "mkState":
            o = self.arg(h)
            cls = GeneralCircuitQuantumState if k in ("qc", "iqc", "bqc") else ParametricCircuitQuantumState
            self.put(cls(o.qubit_count, o))
        elif name == "stCircuit":
            o = self.arg(h)
            self.put(o.circuit if k == "gs" else o.parametric_circuit)
        elif name == "stApply":
            self.put(self.arg(h).with_gates_applied([real_gate(g) for g in dec_lit(f[2])]))
        elif name == "stBind":
            if k != "ps":
                return "err:badop"
            self.put(self.arg(h).bind_parameters([float(x) for x in f[2].split(",")] if f[2] else []))
        elif name == "stPrim":
            if k != "ps":
                return "err:badop"
            self.put(self.arg(h).with_primitive_circuit())
        elif name == "obs":
            return self.observe(h)
        elif name == "depth":
            return self.arg(h).depth
        elif name == "eq":
            j = int(f[2])
            if j >= len(self.h):
                return "err:badop"
            ks = {k, self.kind(j)}
            if ks & {"gs", "ps", "lqc", "ilqc"}:
                return "err:badop"
            return bool(self.arg(h) == self.arg(j))
        else:
            raise InfraError(f"unknown op {f}")
        return "ok"


def is_const(p) -> bool:
    from quri_parts.circuit.parameter import CONST

    return p is CONST or p == CONST


def fl2int(v):
    f = float(v)
    if f != int(f):
        raise InfraError(f"non-integral number {v} in an observation")
    return int(f)


def dec_gate(s):
    k, qs, a, p = s.split(".")
    return (int(k), [int(x) for x in qs.split(",")] if qs else [], int(a), None if p == "-" else int(p))


def dec_lit(s):
    body = s[1:]
    return [dec_gate(x) for x in body.split("/")] if body else []


# ---------------------------------------------------------------------------------------------
# canonicalisation: parameter identities renamed by first appearance along the transcript
# ---------------------------------------------------------------------------------------------
class Canon:
    def __init__(self, with_hash=False):
        self.m: dict = {}
        self.with_hash = with_hash

    def p(self, x, must_know=False):
        if x is None:
            return None
        if x not in self.m:
            if must_know:
                raise InfraError("a bound parameter map mentions a parameter that was never observed before")
            self.m[x] = len(self.m)
        return self.m[x]

    def gates(self, gs):
        return [[g[0], list(g[1]), g[2], self.p(g[3])] for g in gs]

    def rval(self, d):
        out = {"cls": d["cls"], "n": d["n"], "gs": self.gates(d["gs"])}
        pm = {}
        for p, v in d["pm"]:
            pm[self.p(p, must_know=True)] = v  # later wins, as in a dict
        out["pm"] = sorted(pm.items())
        if self.with_hash and "hash" in d:
            out["hash"] = d["hash"]
        return out

    def cv(self, d):
        if d["k"] == "R":
            return self.rval(d)
        ins = [self.p(x) for x in d["ins"]]
        outs = [self.p(x) for x in d["outs"]]
        fns = []
        for f in d["fn"]:
            if f[0] == "p":
                fns.append(["p", self.p(f[1])])
            else:
                fns.append(["l", [[self.p(t[0]), t[1]] for t in f[1]]])
        return {"mu": d["mu"], "ins": ins, "outs": outs, "fn": fns, "pc": self.rval(d["pc"])}

    def out(self, o):
        if isinstance(o, dict):
            return {"t": o["t"], "v": self.cv(o["v"])}
        return o


def align_model_fn(v):
    """model L value: `fn` is an association list (first match wins); align it with `outs` like the real side"""
    if v["k"] != "L":
        return v
    al = []
    for o in v["outs"]:
        f = next((e[1] for e in v["fn"] if e[0] == o), None)
        if f is None:
            raise InfraError("model mapping has an output parameter without a function")
        al.append(f)
    v = dict(v)
    v["fn"] = al
    return v


def canon_transcript(outs, model: bool, with_hash=False, ops=None):
    """`ops` (optional): the history, used to merge the exception class of a rejected `+`
    (the installed binary raises ValueError where the working-tree Rust returns NotImplemented → TypeError)"""
    c = Canon(with_hash)
    res = []
    for i, o in enumerate(outs):
        if isinstance(o, dict):
            o = {"t": o["t"], "v": align_model_fn(o["v"]) if model else o["v"]}
        elif ops is not None and o in ("err:value", "err:type") and ops[i].split(":")[0] in ("combine", "stApply"):
            o = "err:rejected"
        res.append(c.out(o))
    return res


# ---------------------------------------------------------------------------------------------
# history generation (incremental, guided by the kinds of the real handles)
# ---------------------------------------------------------------------------------------------
CIRC = ("qc", "iqc", "bqc", "pqc", "ipqc", "lqc", "ilqc")
NP = ("qc", "iqc", "bqc")
PAR = ("pqc", "ipqc")
LM = ("lqc", "ilqc")
MUT = ("qc", "pqc", "lqc")


def rand_gate(rng, n, bad=0.04):
    k = rng.choice([0, 0, 1, 1, 2, 2, 3, 4, 5, 6] if n >= 2 else [0, 1, 3, 4, 5])
    _, nc, nt, ang = KINDS[k]
    qs = rng.sample(range(n), nc + nt)
    if k == 6:
        qs = sorted(qs)  # the installed binary compares SWAP gates up to the order of their targets
    if rng.random() < bad:
        qs[-1] = n + rng.randint(0, 1)
    return (k, qs, rng.randint(-3, 3) if ang else 0, None)


def rand_lit(rng, n, bad=0.03):
    return "L" + "/".join(enc_gate(rand_gate(rng, n, bad)) for _ in range(rng.randint(0, 3)))


def gen_history(rng, length: int, profile: str):
    """returns (ops, real transcript).  The real run guides the generation (which handles exist / their kinds)."""
    R = Interp(False)
    n = rng.choice([1, 2, 2, 3])
    ops: list[str] = []
    outs: list = []

    def emit(op):
        ops.append(op)
        outs.append(R.do(op))

    def pick(kinds):
        c = [i for i in range(len(R.h)) if R.kind(i) in kinds]
        if not c:
            return None
        # prefer recent handles and handles something was derived from
        return rng.choice(c[-6:]) if rng.random() < 0.6 else rng.choice(c)

    starts = {"np": ["newC"], "par": ["newP"], "lm": ["newL"], "mixed": ["newC", "newP", "newL"]}[profile]
    emit(f"{rng.choice(starts)}:{n}")
    while len(ops) < length:
        r = rng.random()
        nh = len(R.h)
        if r < 0.06 or nh == 0:
            emit(f"{rng.choice(starts)}:{n}")
            continue
        if r < 0.30:  # mutate
            h = pick(MUT) if rng.random() < 0.93 else pick(CIRC)
            if h is None:
                continue
            k = R.kind(h)
            x = rng.random()
            if k == "lqc" and x < 0.25:
                emit(f"addParams:{h}:{rng.randint(1, 2)}")
            elif k == "lqc" and x < 0.6:
                cnt = R.h[h].parameter_count
                hp, cp = h, cnt
                if rng.random() < 0.1:
                    o = pick(LM)
                    if o is not None and R.h[o].parameter_count:
                        hp, cp = o, R.h[o].parameter_count
                if cp == 0:
                    emit(f"addParams:{h}:1")
                    continue
                bare = rng.random() < 0.35
                idx = rng.sample(range(cp), 1 if bare else rng.randint(1, min(2, cp)))
                terms = [f"{hp}.{i}*{1 if bare else rng.randint(-2, 3)}" for i in idx]
                if not bare and rng.random() < 0.4:
                    terms.append(f"C*{rng.randint(-2, 2)}")
                q = rng.randrange(n) if rng.random() > 0.04 else n
                emit(f"addParL:{h}:{rng.choice(PAR_KINDS)}:{q}:{1 if bare else 0}:{','.join(terms)}")
            elif k == "pqc" and x < 0.5:
                q = rng.randrange(n) if rng.random() > 0.04 else n
                emit(f"addPar:{h}:{rng.choice(PAR_KINDS)}:{q}")
            elif x < 0.8:
                g = rand_gate(rng, n)
                idx = "-"
                if rng.random() < 0.2:
                    idx = str(rng.randint(0, 4))
                emit(f"addGate:{h}:{enc_gate(g)}:{idx}")
            else:
                if rng.random() < 0.5:
                    emit(f"extend:{h}:{rand_lit(rng, n)}")
                else:
                    j = pick(CIRC)
                    if j is not None and (j != h or rng.random() < 0.3):
                        emit(f"extend:{h}:h{j}")
            continue
        if r < 0.62:  # derive from a circuit
            h = pick(CIRC)
            if h is None:
                continue
            k = R.kind(h)
            x = rng.random()
            if x < 0.26:
                emit(f"freeze:{h}")
            elif x < 0.42:
                emit(f"mutCopy:{h}")
            elif x < 0.52:
                emit(f"immCtor:{h}")
            elif x < 0.6 and k in PAR + LM:
                emit(f"primitive:{h}")
            elif x < 0.74:
                if rng.random() < 0.45:
                    emit(f"combine:{h}:{rand_lit(rng, n)}")
                else:
                    j = pick(CIRC)
                    if j is not None:
                        emit(f"combine:{h}:h{j}")
            elif x < 0.86 and k in PAR + LM:
                cnt = R.h[h].parameter_count
                if rng.random() < 0.1:
                    cnt = max(0, cnt + rng.choice([-1, 1]))
                emit(f"obs:{h}")
                emit(f"bind:{h}:{','.join(str(rng.randint(-3, 3)) for _ in range(cnt))}")
            elif x < 0.9 and k == "bqc":
                emit(f"getUnbound:{h}")
            else:
                emit(f"mkState:{h}")
            continue
        if r < 0.72:  # states
            h = pick(("gs", "ps"))
            if h is None:
                continue
            k = R.kind(h)
            x = rng.random()
            if x < 0.35:
                emit(f"stCircuit:{h}")
            elif x < 0.7:
                emit(f"stApply:{h}:{rand_lit(rng, n)}")
            elif k == "ps" and x < 0.87:
                cnt = R.h[h].parametric_circuit.parameter_count
                emit(f"obs:{h}")
                emit(f"stBind:{h}:{','.join(str(rng.randint(-3, 3)) for _ in range(cnt))}")
            elif k == "ps":
                emit(f"stPrim:{h}")
            continue
        # observe
        h = rng.randrange(nh)
        x = rng.random()
        if x < 0.55:
            emit(f"obs:{h}")
        elif x < 0.8 and R.kind(h) in CIRC:
            emit(f"depth:{h}")
        else:
            j = rng.randrange(nh)
            if R.kind(h) in NP + PAR and R.kind(j) in NP + PAR:
                emit(f"eq:{h}:{j}")
    # final sweep: everything is observed, depth last (it fills the caches)
    for i in range(len(R.h)):
        emit(f"obs:{i}")
    for i in range(len(R.h)):
        if R.kind(i) in CIRC and rng.random() < 0.5:
            emit(f"depth:{i}")
    return ops, outs


def run_ops(ops, copying: bool):
    it = Interp(copying)
    return [it.do(op) for op in ops]


def model_run(ctx: Ctx, histories, cfg="gen"):
    reqs = [f"c20run {cfg} | " + ";".join(ops) for ops in histories]
    out = []
    for r in ctx.driver(reqs, entry=ENTRY):
        if r == "bad-request":
            raise InfraError("the C20 driver rejected a request")
        out.append(json.loads(r))
    return out


def model_out(o):
    """JSON output of the model -> the shape the interpreter produces"""
    if isinstance(o, str):
        return o
    if isinstance(o, dict):
        return o
    return o


def first_diff(a, b):
    for i, (x, y) in enumerate(zip(a, b)):
        if x != y:
            return i
    return None if len(a) == len(b) else min(len(a), len(b))


def strip_hash(o):
    if isinstance(o, dict):
        return {k: strip_hash(v) for k, v in o.items() if k != "hash"}
    if isinstance(o, list):
        return [strip_hash(x) for x in o]
    return o


# ---------------------------------------------------------------------------------------------
# shrinking of a history on which the real run differs from the value-semantics oracle
# ---------------------------------------------------------------------------------------------
PUSHERS = ("newC", "newP", "newL", "freeze", "mutCopy", "immCtor", "primitive", "combine", "bind", "getUnbound",
           "mkState", "stCircuit", "stApply", "stBind", "stPrim")


def real_vs_oracle(ops):
    """index of the first output on which the reference-sharing run and the copying run differ"""
    try:
        a = canon_transcript(run_ops(ops, False), False, with_hash=True, ops=ops)
        b = canon_transcript(run_ops(ops, True), False, with_hash=True, ops=ops)
    except InfraError:
        return None
    return first_diff(a, b)


def renumber(op: str, removed_handle: int | None):
    """handle indices > removed_handle shift down by one; None if the op uses the removed handle"""
    if removed_handle is None:
        return op
    f = op.split(":")

    def fix(x):
        v = int(x)
        if v == removed_handle:
            raise KeyError
        return str(v - 1 if v > removed_handle else v)

    try:
        if f[0] in ("newC", "newP", "newL"):
            return op
        f[1] = fix(f[1])
        if f[0] in ("extend", "combine") and f[2][0] == "h":
            f[2] = "h" + fix(f[2][1:])
        if f[0] == "eq":
            f[2] = fix(f[2])
        if f[0] == "addParL":
            ts = []
            for t in f[5].split(","):
                r, c = t.split("*")
                if r != "C":
                    hp, i = r.split(".")
                    r = fix(hp) + "." + i
                ts.append(r + "*" + c)
            f[5] = ",".join(ts)
        return ":".join(f)
    except KeyError:
        return None


def shrink(ops):
    ops = list(ops)
    d = real_vs_oracle(ops)
    if d is None:
        return ops
    ops = ops[: d + 1]
    changed = True
    while changed:
        changed = False
        for i in range(len(ops) - 1, -1, -1):
            # which handle (if any) did op i create?  replay the prefix on real objects
            it = Interp(False)
            for op in ops[:i]:
                it.do(op)
            before = len(it.h)
            it.do(ops[i])
            created = before if len(it.h) > before else None
            rest = [renumber(op, created) for op in ops[i + 1:]]
            if any(r is None for r in rest):
                continue
            cand = ops[:i] + rest
            if cand and real_vs_oracle(cand) is not None:
                ops = cand[: real_vs_oracle(cand) + 1]
                changed = True
                break
    return ops


# ---------------------------------------------------------------------------------------------
# caches
# ---------------------------------------------------------------------------------------------
LABELS = ["X0", "Z0", "Y1", "Z1", "X0 Y1", "Z0 Z1", "X1", ""]


def cache_correspond(ctx: Ctx, n_hist: int):
    import numpy as np

    from oracle import valsem
    from quri_parts.circuit import QuantumCircuit
    from quri_parts.core.measurement import CachedMeasurementFactory, bitwise_commuting_pauli_measurement
    from quri_parts.core.operator import PAULI_IDENTITY, Operator, pauli_label
    from quri_parts.core.state import GeneralCircuitQuantumState
    from quri_parts.qulacs.estimator import create_qulacs_vector_estimator
    import quri_parts.qulacs.operator as qop

    rng = ctx.rng
    labs = [pauli_label(s) if s else PAULI_IDENTITY for s in LABELS]
    est = create_qulacs_vector_estimator()
    hists, reals = [], []
    for _ in range(n_hist):
        calls = []

        def stub(op, calls=calls):
            snap = tuple(op.items())
            calls.append(snap)
            return snap

        fac = CachedMeasurementFactory(stub)
        real_fac = CachedMeasurementFactory(bitwise_commuting_pauli_measurement)
        qop._operator_cache.clear()
        ops: list = []
        objs: list = []
        real = []
        c = QuantumCircuit(2)
        for g in [rand_gate(rng, 2, 0) for _ in range(rng.randint(0, 4))]:
            c.add_gate(real_gate(g))
        state = GeneralCircuitQuantumState(2, c)
        gates = list(c.gates)
        c3 = QuantumCircuit(3)
        c3.extend(gates)
        state3 = GeneralCircuitQuantumState(3, c3)
        for _ in range(rng.randint(4, 14)):
            r = rng.random()
            if not objs or r < 0.12:
                ops.append("new")
                objs.append(Operator())
                real.append(None)
            elif r < 0.5:
                h = rng.randrange(len(objs))
                li = rng.randrange(len(labs))
                v = rng.choice([-2, -1, 1, 2, 3])
                present = [labs.index(p) for p in objs[h]]
                if present and rng.random() < 0.6:  # change the coefficient of a term that is already there
                    li = rng.choice(present)
                    v = rng.choice([x for x in (-2, -1, 1, 2, 3) if float(x) != complex(objs[h][labs[li]]).real])
                ops.append(f"set:{h}:{li}:{v}")
                objs[h][labs[li]] = float(v)
                real.append(None)
            elif r < 0.58:
                h = rng.randrange(len(objs))
                li = rng.randrange(len(labs))
                ops.append(f"del:{h}:{li}")
                objs[h].pop(labs[li], None)
                real.append(None)
            elif r < 0.66:
                h = rng.randrange(len(objs))
                ops.append(f"copy:{h}")
                objs.append(objs[h].copy())
                real.append(None)
            else:
                h = rng.randrange(len(objs))
                ops.append(f"get:{h}:0")
                before = len(calls)
                res = fac(objs[h])
                hit = len(calls) == before
                content = [[labs.index(p), fl2int(complex(v).real)] for p, v in res]
                real.append([content, hit])
                ctx.traces += 1
                if set(res) != set(objs[h].items()):
                    # the cache handed back the result of the underlying function for a different content
                    ctx.witness("cache:CachedMeasurementFactory",
                                "CachedMeasurementFactory returned the result computed for another operator content",
                                {"ops": ops[:]}, {"computed_on": sorted(map(str, res)), "current": sorted(map(str, objs[h].items()))})
                # (b) real grouping through the cache == grouping of a fresh copy (as label sets)
                if len(objs[h]) > 0:
                    got = real_fac(objs[h])
                    want = bitwise_commuting_pauli_measurement(objs[h].copy())
                    norm = lambda gs: sorted(sorted(str(p) for p in g.pauli_set) for g in gs)  # noqa: E731
                    ctx.traces += 1
                    if norm(got) != norm(want):
                        ctx.witness("cache:CachedMeasurementFactory", "cached grouping differs from the grouping of the current operator content",
                                    {"ops": ops[:]}, {"got": norm(got), "want": norm(want)})
                # (c) estimator through the qulacs operator cache vs numpy on the current content
                nq = rng.choice([2, 3])  # the qubit count is part of the cache key
                val = est(objs[h], state if nq == 2 else state3).value
                want = valsem.expectation(nq, gates, [(tuple(p), v) for p, v in objs[h].items()])
                ctx.traces += 1
                ctx.count("cache", "estimate")
                if abs(complex(val) - want) > 1e-9:
                    ctx.witness("cache:qulacs.convert_operator", "estimate through the operator cache differs from the expectation value of the current operator content",
                                {"ops": ops[:], "circuit": [gate_struct(g, None, None) for g in gates]},
                                {"got": str(val), "want": str(want)})
                # (d) the same cache reached by a bare Pauli label (identity included) and by convert_operator directly
                #     (no zero-operator shortcut in front of it): the returned operator must have the CURRENT content
                if rng.random() < 0.5:
                    lab = rng.choice(labs)
                    lv = est(lab, state if nq == 2 else state3).value
                    lw = valsem.expectation(nq, gates, [(tuple(lab), 1.0)])
                    ctx.traces += 1
                    if abs(complex(lv) - lw) > 1e-9:
                        ctx.witness("cache:qulacs.convert_operator", f"estimate of the bare label {lab!s} through the operator cache is wrong",
                                    {"ops": ops[:], "label": str(lab), "circuit": [gate_struct(g, None, None) for g in gates]},
                                    {"got": str(lv), "want": str(lw)})
                qo = qop.convert_operator(objs[h], nq)
                got_terms = sorted(
                    (tuple(sorted(zip(qo.get_term(i).get_index_list(), qo.get_term(i).get_pauli_id_list()))), complex(qo.get_term(i).get_coef()))
                    for i in range(qo.get_term_count()))
                want_terms = sorted((tuple(sorted((int(q), int(pp)) for q, pp in p)), complex(v)) for p, v in objs[h].items())
                ctx.traces += 1
                if got_terms != want_terms:
                    ctx.witness("cache:qulacs.convert_operator", "convert_operator returned an operator whose terms are not the current content of its argument",
                                {"ops": ops[:], "n_qubits": nq}, {"got": str(got_terms)[:300], "want": str(want_terms)[:300]})
        hists.append(ops)
        reals.append(real)
    resp = ctx.driver(["c20cache " + ";".join(o) for o in hists], entry=ENTRY)
    for ops, real, r in zip(hists, reals, resp):
        if r == "bad-request":
            raise InfraError("cache driver rejected a request")
        model = json.loads(r)
        ctx.case(("cache", tuple(ops)), nontrivial=any(x and x[1] for x in real), sample={"cache_ops": ops[:8]})
        ctx.traces += 1
        ctx.count("cache", "histories")
        if model != real:
            ctx.disagree("cache-model", {"ops": ops}, real, model)



# ---------------------------------------------------------------------------------------------
# exhaustive small scopes (thorough tier): every history of a given length over a small alphabet
# ---------------------------------------------------------------------------------------------
def small_alphabet(R: "Interp", family: str):
    """all applicable operations (from a small template set) in the current real state"""
    nh = len(R.h)
    kinds = [R.kind(i) for i in range(nh)]
    out = []
    if nh < 4:
        out.append({"np": "newC:2", "par": "newP:2", "lm": "newL:2"}[family])
    for h, k in enumerate(kinds):
        if k in MUT:
            out.append(f"addGate:{h}:0.0.0.-:-")
            if k == "pqc":
                out.append(f"addPar:{h}:3:1")
            if k == "lqc":
                out.append(f"addParams:{h}:1")
                if R.h[h].parameter_count:
                    out.append(f"addParL:{h}:4:0:1:{h}.0*1")
            for j, kj in enumerate(kinds):
                if kj in CIRC and j != h:
                    out.append(f"extend:{h}:h{j}")
        if k in CIRC and nh < 4:
            out += [f"freeze:{h}", f"mutCopy:{h}", f"immCtor:{h}", f"mkState:{h}", f"combine:{h}:L1.1.0.-"]
            if k in PAR + LM:
                out.append(f"primitive:{h}")
                cnt = R.h[h].parameter_count
                out.append(f"bind:{h}:{','.join(['2'] * cnt)}")
            if k == "bqc":
                out.append(f"getUnbound:{h}")
            for j, kj in enumerate(kinds):
                if kj in CIRC and j <= h:
                    out.append(f"combine:{h}:h{j}")
        if k in ("gs", "ps") and nh < 4:
            out += [f"stCircuit:{h}", f"stApply:{h}:L0.1.0.-"]
            if k == "ps":
                out.append(f"stPrim:{h}")
                out.append(f"stBind:{h}:{','.join(['1'] * R.h[h].parametric_circuit.parameter_count)}")
        if k in CIRC:
            out.append(f"depth:{h}")
    return out


def enumerate_histories(family: str, depth: int, limit: int):
    """depth-first enumeration; the real interpreter is re-run on every prefix (objects cannot be snapshotted)"""
    start = {"np": "newC:2", "par": "newP:2", "lm": "newL:2"}[family]
    out = []

    def rec(prefix):
        if len(out) >= limit:
            return
        R = Interp(False)
        for op in prefix:
            R.do(op)
        if len(prefix) == depth:
            out.append(prefix + [f"obs:{i}" for i in range(len(R.h))])
            return
        for op in small_alphabet(R, family):
            rec(prefix + [op])

    rec([start])
    return out


def exhaustive(ctx: Ctx, depth: int, limit: int, families=("np", "par", "lm")):
    total = ctx.extra.get("exhaustive_histories", 0)
    for family in families:
        hs = enumerate_histories(family, depth, limit)
        total += len(hs)
        ctx.count("exhaustive", f"{family}-depth{depth}", len(hs))
        for lo in range(0, len(hs), 3000):
            chunk = hs[lo: lo + 3000]
            models = model_run(ctx, chunk)
            for ops, m in zip(chunk, models):
                real = run_ops(ops, False)
                cr = canon_transcript(real, False, with_hash=True, ops=ops)
                cm = canon_transcript(m["impl"], True, ops=ops)
                ctx.traces += 1
                ctx.evaluations += 1
                d = first_diff(strip_hash(cr), cm)
                if d is not None:
                    ctx.disagree("impl-model-vs-real(exhaustive)", {"history": ops[: d + 1]}, strip_hash(cr)[d] if d < len(cr) else None,
                                 cm[d] if d < len(cm) else None)
                safe = all(m["safe"])
                if safe and not m["refines"]:
                    ctx.disagree("refinement-fails-on-safe-history", {"history": ops}, "Safe = true", "refinesB = false")
                if safe:
                    co = canon_transcript(run_ops(ops, True), False, with_hash=True, ops=ops)
                    d = first_diff(cr, co)
                    if d is not None:
                        ctx.witness("alias-free-history-diverges", "a history without any known aliasing step behaves differently from value semantics",
                                    {"history": shrink(ops)}, {"real": cr[d] if d < len(cr) else None, "value_semantics": co[d] if d < len(co) else None})
    ctx.extra["exhaustive_histories"] = total

# ---------------------------------------------------------------------------------------------
def gen(ctx: Ctx):
    with ctx.timed("translate"):
        try:
            txt, n, info = c20gen.emit()
        except Exception as e:  # noqa: BLE001 - a source the translator cannot read is an undischarged obligation, not an infra fault
            msg = f"{type(e).__name__}: {e}"[:200].replace('"', "'")
            txt = ("-- GENERATED by /verif/translate/c20gen.py: the translator could not read the sources\n"
                   "import QuriVerif.Model.C20\nnamespace QV.Gen.C20\nopen QV.C20\n"
                   "def cfg : Cfg := ⟨⟨.cloneUnlessImmutable, .cloneKeepFlag, .aliasSetFlag, true, false⟩, "
                   "⟨.cloneUnlessImmutable, .cloneResetFlag, .cloneFlagFalse, true, false⟩, .keepsSelf, true, true⟩\n"
                   f'def rustUnknown : List String := ["translator: {msg}"]\n'
                   "def pyUnknown : List String := []\ndef rustSem : List (String × Bool) := []\nend QV.Gen.C20\n")
            n = 0
            info = {"rust": {}, "python": {}, "unknown": ["translator: " + msg], "py_unknown": [],
                    "ok_text": ("import QuriVerif.Generated.C20Shapes\nnamespace QV.Gen.C20\n"
                                "theorem rust_known_ok : rustUnknown = [] := by decide\n"
                                "theorem rust_semantics_ok : rustSem.all (·.2) = true := by decide\nend QV.Gen.C20\n")}
        ctx.write_generated("C20Shapes", txt)
        ctx.write_generated("C20ShapesOk", info["ok_text"])
        ctx.generated_entries += n
        ctx.extra["rust_shapes"] = {k: v for k, v in info["rust"].items() if k in ("np", "par", "bind")}
        ctx.extra["rust_unknown"] = info["unknown"]
        ctx.extra["python_wrapper_shapes_changed"] = info["py_unknown"]
        ctx.extra["binary_is_not_built_from_repo"] = True
        ctx.extra["binary_vs_working_tree_rust_differences_seen"] = [
            "binary defines __hash__ on immutable circuits (not in circuit.rs)",
            "binary: `a + b` raises ValueError for different qubit counts and for a rejected gate (circuit.rs: NotImplemented → TypeError)",
            "binary: == on parametric circuits ignores parameter identity; SWAP gates compare up to target order",
        ]
        return info


def replay_witnesses(ctx: Ctx):
    """the three known aliasing defects, re-derived on the real objects"""
    seen = {}
    for key, ops in WITNESSES.items():
        d = real_vs_oracle(ops)
        ctx.traces += 1
        seen[key] = d is not None
        if d is not None:
            a = canon_transcript(run_ops(ops, False), False)
            b = canon_transcript(run_ops(ops, True), False)
            ctx.witness(key, WITNESS_TEXT[key], {"history": ops}, {"real": a[d], "value_semantics": b[d], "at": d})
    return seen


def correspond(ctx: Ctx, n_hist: int, length: int):
    rng = ctx.rng
    hists, reals = [], []
    corpus = os.path.join(VERIF, "corpus", "C20")
    if os.path.isdir(corpus):
        for fn in sorted(os.listdir(corpus)):
            if fn.endswith(".json"):
                ops = json.load(open(os.path.join(corpus, fn)))["history"]
                hists.append(ops)
                reals.append(run_ops(ops, False))
                ctx.count("source", "corpus")
    for ops in WITNESSES.values():
        hists.append(ops)
        reals.append(run_ops(ops, False))
    for i in range(n_hist):
        profile = ["np", "par", "lm", "mixed", "mixed"][i % 5]
        ops, outs = gen_history(rng, rng.randint(length // 2, length), profile)
        hists.append(ops)
        reals.append(outs)
        ctx.count("profile", profile)
    models = model_run(ctx, hists)
    n_safe = n_unsafe_diff = 0
    for ops, real, m in zip(hists, reals, models):
        oracle = run_ops(ops, True)
        cr = canon_transcript(real, False, ops=ops)
        cm = canon_transcript(m["impl"], True, ops=ops)
        cs = canon_transcript(m["spec"], True, ops=ops)
        co = canon_transcript(oracle, False, ops=ops)
        safe = all(m["safe"])
        key = tuple(ops)
        for op in ops:
            ctx.count("op", op.split(":")[0])
        for o in cr:
            if isinstance(o, str) and o.startswith("err:"):
                ctx.count("outcome", o)
        ctx.count("history", "alias-free" if safe else "has-aliasing-step")
        for op, ok_ in zip(ops, m["safe"]):
            if not ok_:
                ctx.count("aliasing_step", op.split(":")[0])
        ctx.case(key, nontrivial=len(ops) > 3,
                 sample={"history": ops[:12], "safe": safe, "refines": m["refines"]})
        ctx.traces += 2
        # K: the model (with the shapes read from the Rust text) reproduces the real objects, defects included
        d = first_diff(strip_hash(cr), cm)
        if d is not None:
            ctx.disagree("impl-model-vs-real", {"history": ops[: d + 1]}, strip_hash(cr)[d] if d < len(cr) else None,
                         cm[d] if d < len(cm) else None)
        # the Lean specification is the same statement of value semantics as the copying oracle
        # once an operation does not apply in the value world (the history was generated along the real run, where an
        # aliasing step can make more operations applicable) the remaining handle numbers mean different objects
        cut = next((i for i, (x, y) in enumerate(zip(cs, co)) if x == "err:badop" or y == "err:badop"), len(cs))
        d = first_diff(strip_hash(co)[:cut], cs[:cut])
        if d is not None:
            ctx.disagree("spec-vs-copying-oracle", {"history": ops[: d + 1]}, strip_hash(co)[d] if d < len(co) else None,
                         cs[d] if d < len(cs) else None)
        if safe and not m["refines"]:
            ctx.disagree("refinement-fails-on-safe-history", {"history": ops}, "Safe = true", "refinesB = false")
        # the property on the real code
        cr_h = canon_transcript(real, False, with_hash=True, ops=ops)
        co_h = canon_transcript(oracle, False, with_hash=True, ops=ops)
        d = first_diff(cr_h, co_h)
        if safe:
            n_safe += 1
            if d is not None:
                small = shrink(ops)
                ctx.witness("alias-free-history-diverges", "a history without any known aliasing step behaves differently from value semantics",
                            {"history": small}, {"real": cr_h[d], "value_semantics": co_h[d]})
        elif d is not None:
            n_unsafe_diff += 1
    ctx.extra["histories_alias_free"] = n_safe
    ctx.extra["histories_with_known_aliasing_step_that_diverge"] = n_unsafe_diff
    return models


def search(ctx: Ctx, budget_s: float):
    """failing-input search on the REAL code: histories whose every step is alias-free in the model must
    agree with the copying oracle; divergences are shrunk and classified by the aliasing step they need"""
    t0 = time.time()
    rng = ctx.rng
    found = 0
    n = 0
    while time.time() - t0 < budget_s and found < 3:
        batch = []
        for _ in range(20):
            ops, outs = gen_history(rng, rng.randint(10, 40), rng.choice(["np", "par", "lm", "mixed"]))
            batch.append((ops, outs))
        models = model_run(ctx, [b[0] for b in batch])
        for (ops, real), m in zip(batch, models):
            n += 1
            d = real_vs_oracle(ops)
            if d is None:
                continue
            if all(m["safe"]):
                small = shrink(ops)
                a = canon_transcript(run_ops(small, False), False, True)
                b = canon_transcript(run_ops(small, True), False, True)
                dd = first_diff(a, b)
                ctx.witness("alias-free-history-diverges", "a history without any known aliasing step behaves differently from value semantics",
                            {"history": small}, {"real": a[dd] if dd is not None and dd < len(a) else None,
                                                 "value_semantics": b[dd] if dd is not None and dd < len(b) else None})
                found += 1
    ctx.evaluations += n
    ctx.search_budget_s += budget_s
    ctx.extra["search_histories"] = n


def run(ctx: Ctx, replay=None) -> int:
    ctx.rule = ("case = one operation history (construct / mutate / freeze / copy / + / bind / state / observe, 10-60 ops) run on "
                "the real objects, on the Lean implementation model (shapes from the Rust text), on the Lean specification and on the "
                "copying oracle; distinct = distinct histories; plus cache histories (operator mutation / lookup) on both caches")
    ctx.trusted = TRUSTED
    ctx.assumptions = ["all circuits of one history have the same qubit count; angles, coefficients and bound values are small integers",
                       "== on parametric circuits ignores parameter identity (behaviour of the installed binary)",
                       "operator caches: the cached function is deterministic in the operator content"]
    info = gen(ctx)
    ok = ctx.prove([PROPS, "QuriVerif.Driver.C20"], [PROPS, GENMOD])
    if info["py_unknown"]:
        ctx.notes.append(f"Python wrapper text changed w.r.t. the modelled shape: {info['py_unknown']} (covered by the correspondence runs)")
    driver_ok = ok
    if not ok:
        driver_ok, _ = ctx.lake_build(["QuriVerif.Driver.C20"])
    if ok:
        names = [f"QV.Props.C20.{n}" for _, n, _ in ctx.count_obligations([PROPS])] + \
                [f"QV.Gen.C20.{n}" for _, n, _ in ctx.count_obligations([GENMOD])]
        ctx.audit(names, [PROPS])
    with ctx.timed("witness_replay"):
        seen = replay_witnesses(ctx)
        ctx.extra["known_defects_reproduced"] = seen
    escalate = (not ok) or bool(info["py_unknown"])
    if driver_ok:
        with ctx.timed("correspond"):
            correspond(ctx, ctx.n(120, 2500), ctx.n(36, 60))
            cache_correspond(ctx, ctx.n(60, 1500))
            if not ctx.quick():
                exhaustive(ctx, depth=4, limit=10 ** 6)  # complete: new + 3 operations + observation of every handle
                exhaustive(ctx, depth=5, limit=10 ** 6, families=("np",))  # the family with the findings: new + 4 operations
        escalate = escalate or bool(ctx.disagreements)
        with ctx.timed("search"):
            search(ctx, (4 if ctx.quick() else 60) * (6 if escalate else 1))
    else:
        ctx.notes.append("the model driver does not build with the current Generated shapes; correspondence skipped")
    return ctx.finish()
