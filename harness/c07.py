"""C07 — Pauli grouping and its measurement scheme are sound."""
from __future__ import annotations

import itertools
import os
import sys

sys.path.insert(0, os.path.dirname(os.path.dirname(os.path.abspath(__file__))))

import c01  # noqa: E402
from common import Ctx  # noqa: E402

LEAN_TARGETS = ["QuriVerif.Props.C07", "QuriVerif.Props.C07Lift", "QuriVerif.Driver.C07"]


def enc_label(pairs) -> str:
    return ",".join(f"{i}:{p}" for i, p in pairs) if pairs else "I"


def enc_labels(ls) -> str:
    return ";".join(enc_label(l) for l in ls)


def canon_groups_real(groups):
    return sorted(sorted(tuple(sorted((int(i), int(p)) for i, p in lab)) for lab in g) for g in groups)


def canon_groups_model(resp: str):
    if not resp:
        return []
    out = []
    for g in resp.split("|"):
        labs = set()
        for l in g.split(";"):
            labs.add(() if l == "I" else tuple(sorted(tuple(int(v) for v in t.split(":")) for t in l.split(","))))
        g = sorted(labs)
        if g not in out:  # the real result is a frozenset of frozensets
            out.append(g)
    return sorted(out)


def random_labels(rng, maxq, count):
    labs = []
    for _ in range(count):
        r = rng.random()
        if r < 0.08:
            labs.append([])
            continue
        k = rng.randint(1, min(maxq, 5))
        idx = rng.sample(range(maxq), k)
        if r < 0.3:
            p = rng.randint(1, 3)
            pairs = [(i, p) for i in idx]
        else:
            pairs = [(i, rng.randint(1, 3)) for i in idx]
        labs.append(pairs)
    if labs and rng.random() < 0.3:
        labs.append(list(rng.choice(labs)))  # duplicate
    return labs


# qubit indices around the 32/64/128-bit word boundaries (labels and outcome bits must be width independent)
BOUNDARY = [0, 1, 2, 7, 8, 15, 16, 30, 31, 32, 33, 47, 62, 63, 64, 65, 66, 95, 96, 126, 127, 128, 129]


def rich_labels(rng, count, pool=None, maxk=12):
    """labels with large supports / indices on the word boundaries (unsorted, descending, …: a label is a set)"""
    pool = pool or BOUNDARY
    labs = []
    for _ in range(count):
        r = rng.random()
        if r < 0.06:
            labs.append([])
            continue
        k = rng.randint(1, min(len(pool), maxk))
        idx = rng.sample(pool, k)
        if rng.random() < 0.3:
            idx.sort(reverse=True)
        if r < 0.35:
            p = rng.randint(1, 3)
            labs.append([(i, p) for i in idx])
        elif r < 0.55 and labs and labs[-1]:
            # a near copy of the previous label (same Paulis on the shared qubits: lands in the same group)
            prev = dict(labs[-1])
            labs.append([(i, prev.get(i, rng.randint(1, 3))) for i in idx])
        else:
            labs.append([(i, rng.randint(1, 3)) for i in idx])
    if labs and rng.random() < 0.3:
        labs.append(list(rng.choice(labs)))
    return labs


# numpy-integer Pauli ids are harmless anywhere (they only meet `==`); numpy-integer qubit INDICES make the symplectic masks
# fixed-width numpy integers, so they are used only in a section of their own where every index and outcome fits (NP_INDEX_FORMS)
LABEL_FORMS = ["int", "int", "enum", "str", "lists", "fromstr", "np-ids", "np-ids", "np-pairs", "np-interned"]
NP_INDEX_FORMS = ["np-index", "np-index-ids", "np-arrays"]
NP_ID_DTYPES = ["int64", "int32", "int8", "uint8", "intp", "int16"]


def mk_label(pairs, form, rng=None):
    """the documented ways of building a PauliLabel: ints, SinglePauli members, string, index/pauli lists, and the same with
    numpy integer scalars / arrays as Pauli ids (e.g. `from_index_and_pauli_list(idx, np.array(ids))`).  Labels are interned by
    their string form: while a numpy-built label is alive, building the same label from a string or from ints returns THAT object."""
    import numpy as np

    from quri_parts.core.operator import PauliLabel, SinglePauli

    pairs = list(pairs)
    dt = getattr(np, rng.choice(NP_ID_DTYPES) if rng is not None else "int64")
    text = " ".join(f"{'XYZ'[p - 1]}{i}" for i, p in pairs)
    try:
        if form == "enum":
            return PauliLabel((i, SinglePauli(p)) for i, p in pairs)
        if form in ("str", "fromstr") and pairs:
            if form == "fromstr":
                return PauliLabel.from_str(text)
            from quri_parts.core.operator import pauli_label

            return pauli_label(text)
        if form == "lists":
            return PauliLabel.from_index_and_pauli_list([i for i, _ in pairs], [SinglePauli(p) for _, p in pairs])
        if form == "np-ids":
            return PauliLabel.from_index_and_pauli_list([i for i, _ in pairs], np.array([p for _, p in pairs], dtype=dt))
        if form == "np-pairs":
            return PauliLabel((i, dt(p)) for i, p in pairs)
        if form == "np-interned" and pairs:
            from quri_parts.core.operator import pauli_label

            first = pauli_label(zip([i for i, _ in pairs], np.array([p for _, p in pairs], dtype=dt)))
            again = pauli_label(text)  # the interned numpy-built object comes back
            return again if again == first else first
        if form == "np-index":
            return PauliLabel((np.int64(i), p) for i, p in pairs)
        if form == "np-index-ids":
            return PauliLabel((np.intp(i), dt(p)) for i, p in pairs)
        if form == "np-arrays":
            return PauliLabel.from_index_and_pauli_list(np.array([i for i, _ in pairs], dtype=np.int64), np.array([p for _, p in pairs], dtype=dt))
    except (AttributeError, ImportError):
        pass
    return PauliLabel(pairs)


ITER_FORMS = ["list", "list", "tuple", "gen", "iter", "dictkeys", "set", "frozenset", "opkeys"]


def as_iterable(plabs, form):
    """(object handed to the real code, the order in which it yields the labels)"""
    from quri_parts.core.operator import Operator

    if form == "tuple":
        return tuple(plabs), list(plabs)
    if form == "gen":
        return (p for p in plabs), list(plabs)
    if form == "iter":
        return iter(list(plabs)), list(plabs)
    if form == "dictkeys":
        d = dict.fromkeys(plabs)
        return d.keys(), list(d)
    if form == "set":
        c = set(plabs)
        return c, list(c)
    if form == "frozenset":
        c = frozenset(plabs)
        return c, list(c)
    if form == "opkeys":
        o = Operator({p: 1.0 for p in plabs})
        return o.keys(), list(o.keys())
    return list(plabs), list(plabs)


def lab_pairs(pl):
    return [(int(i), int(p)) for i, p in pl]


def gate_text(g):
    """H3 / Sdag3 for a plain one-qubit gate, the full description otherwise (then it cannot match the model)"""
    try:
        t, c, prm = tuple(g.target_indices), tuple(g.control_indices), tuple(g.params)
        if len(t) == 1 and not c and not prm and not tuple(g.pauli_ids):
            return f"{g.name}{int(t[0])}"
        return f"{g.name}(t={t},c={c},p={prm})"
    except Exception as e:  # noqa: BLE001
        return f"bad-gate:{type(e).__name__}"


def outcome_bits(rng, label_pairs):
    """outcome bitstrings of every width: narrower and wider than the support, single bits on / off the support, all ones"""
    sup = [q for q, _ in label_pairs] or [0]
    r = rng.random()
    if r < 0.2:
        return rng.getrandbits(rng.choice([1, 3, 8, 31, 32, 33, 63, 64, 65, 71, 130]))
    if r < 0.35:
        return 1 << rng.choice(sup)
    if r < 0.45:
        return 1 << (rng.choice(sup) + rng.choice([1, 31, 32, 64]))
    if r < 0.6:
        return (1 << (max(sup) + rng.choice([0, 1, 2, 40]))) - 1
    if r < 0.8:
        b = 0
        for q in sup:
            if rng.random() < 0.6:
                b |= 1 << q
        return b | (rng.getrandbits(140) & ~sum(1 << q for q in sup) if rng.random() < 0.5 else 0)
    if r < 0.9:
        return 0
    return rng.getrandbits(max(sup) + 1)


def parity_spec(label_pairs, bits) -> int:
    """after the per-qubit basis change the Pauli is Z on its support: eigenvalue (-1)^{#support qubits measured 1}"""
    return -1 if sum((int(bits) >> q) & 1 for q, _ in label_pairs) % 2 else 1


def numpy_forms(rng, label_pairs, bits):
    """the same outcome as a numpy integer, only where label mask and outcome fit the dtype"""
    import numpy as np

    top = max([q for q, _ in label_pairs] or [0])
    out = []
    for dt, width in ((np.int64, 63), (np.uint64, 64), (np.int32, 31), (np.uint8, 8), (np.intp, 63)):
        if top < width and 0 <= bits < (1 << width):
            out.append((dt.__name__, dt(bits)))
    return out


def numpy_index_section(ctx: Ctx, add, safe):
    """labels whose qubit indices (and ids) are numpy integers, e.g. built from numpy arrays: grouping, measurement circuit and
    reconstructor judged as for any other label.  Everything fits 62 bits here (indices ≤ 30, outcomes < 2^62) and no label
    object outlives this function (labels are interned by string: a survivor would be handed to later sections)."""
    import gc

    from quri_parts.core.measurement import (
        bitwise_commuting_pauli_measurement,
        bitwise_commuting_pauli_measurement_circuit,
        bitwise_pauli_reconstructor_factory,
        individual_pauli_measurement,
    )
    from quri_parts.core.operator import Operator
    from quri_parts.core.operator.grouping import (
        bitwise_pauli_grouping,
        individual_pauli_grouping,
        sorted_injection_grouping,
    )

    rng = ctx.rng
    strategies = (("bitwise", bitwise_pauli_grouping), ("sorted", sorted_injection_grouping), ("individual", individual_pauli_grouping))
    gc.collect()
    for _ in range(ctx.n(60, 600)):
        pool = rng.choice([list(range(3)), list(range(5)), list(range(8)), [0, 1, 7, 8, 15, 16, 29, 30]])
        labs = rich_labels(rng, rng.choice([1, 2, 3, 5, 8, 15]), pool=pool, maxk=6)
        forms = [rng.choice(NP_INDEX_FORMS + ["np-ids", "int"]) for _ in labs]
        plabs = [mk_label(l, f, rng) for l, f in zip(labs, forms)]
        order = [lab_pairs(pl) for pl in plabs]
        desc = {"labels": order, "built": forms, "note": "qubit indices / Pauli ids are numpy integers where the form says np-*"}
        for f in forms:
            ctx.count("numpy_label_form", f)
        for strat, fn in strategies:
            use_op = rng.random() < 0.3
            if use_op:
                uniq = list(dict.fromkeys(plabs))
                arg = Operator({pl: float(len(uniq) - k) for k, pl in enumerate(uniq)})  # descending |c|: sorted order = key order
                model_order = [lab_pairs(pl) for pl in uniq]
            else:
                arg, model_order = plabs, order
            raw = safe(lambda: list(fn(arg)))
            if raw[0] == "ok":
                judge_groups(ctx, strat + "-numpy-label", raw[1], plabs, dict(desc, strategy=strat, operator_input=use_op))
                real = ("ok", canon_groups_real(raw[1]))
            else:
                ctx.witness("grouping-raises:" + strat + "-numpy-label", f"{raw[1]}", dict(desc, strategy=strat))
                real = raw
            add(f"c07group {strat} | {enc_labels(model_order)}", real, f"group:{strat}:np-index", model_order)
        for fac, fname in ((bitwise_commuting_pauli_measurement, "bitwise"), (individual_pauli_measurement, "individual")):
            try:
                meas = list(fac(plabs))
            except Exception as e:  # noqa: BLE001
                ctx.witness("measurement-raises", f"{type(e).__name__}: {e}", dict(desc, factory=fname))
                continue
            judge_groups(ctx, "meas-" + fname + "-numpy-label", [m.pauli_set for m in meas], plabs, dict(desc, factory=fname))
            for m in meas:
                judge_measurement_local(ctx, rng, m, dict(desc, factory=fname), n_bits=2, max_width=62)
        groups = safe(lambda: list(bitwise_pauli_grouping(plabs)))
        for g in (groups[1] if groups[0] == "ok" else [])[:3]:
            gl = [lab_pairs(pl) for pl in g]
            add(f"c07meas {enc_labels(gl)}", safe(lambda: [gate_text(x) for x in bitwise_commuting_pauli_measurement_circuit(g)]), "meas:np-index", gl)
            for pl in list(g)[:2]:
                l1 = lab_pairs(pl)
                bits = outcome_bits(rng, l1) & ((1 << 62) - 1)
                rv = safe(lambda: int(bitwise_pauli_reconstructor_factory(pl)(bits)))
                add(f"c07rec {enc_label(l1)} | {bits}", rv, "rec", (l1, bits))
                if rv != ("ok", parity_spec(l1, bits)):
                    ctx.witness("reconstructor", f"reconstructor of {l1} (numpy-integer indices) on outcome bits {bits} gives {rv[1]}, the eigenvalue is "
                                f"{parity_spec(l1, bits)}", {"label": l1, "bits": bits, "built": forms})
        del plabs, groups, raw, arg
        try:
            del meas, m, g, pl
        except NameError:
            pass
    gc.collect()


def correspond(ctx: Ctx):
    from quri_parts.core.measurement import (
        bitwise_commuting_pauli_measurement_circuit,
        bitwise_pauli_reconstructor_factory,
    )
    from quri_parts.core.operator import Operator
    from quri_parts.core.operator.grouping import (
        bitwise_pauli_grouping,
        individual_pauli_grouping,
        sorted_injection_grouping,
    )
    from quri_parts.core.operator.representation import bsv_bitwise_commute, pauli_label_to_bsv

    rng = ctx.rng
    reqs, checks = [], []

    def add(req, real, what, inp):
        reqs.append(req)
        checks.append((real, what, inp))

    def safe(f):
        try:
            return ("ok", f())
        except Exception as e:  # noqa: BLE001
            return ("err", type(e).__name__)

    strategies = (("bitwise", bitwise_pauli_grouping), ("sorted", sorted_injection_grouping), ("individual", individual_pauli_grouping))

    N = ctx.n(120, 1500)
    collections = []
    for _ in range(N):
        maxq = rng.choice([3, 4, 8, 70])
        collections.append(random_labels(rng, maxq, rng.choice([0, 1, 2, 3, 5, 8, 15, 40])))
    # large supports, indices on the 32/64/128-bit boundaries, near-copies
    for _ in range(ctx.n(60, 700)):
        pool = rng.choice([None, None, list(range(6)), list(range(28, 36)), list(range(60, 68)), list(range(0, 140, 7)),
                           [0, 5, 200, 255, 256, 511, 512, 1023, 1024, 4096]])
        collections.append(rich_labels(rng, rng.choice([1, 2, 3, 5, 8, 15, 30]), pool=pool))
    # all permutations of small collections: the properties must hold for every input order
    base = [[(0, 1), (1, 2)], [(0, 1), (2, 3)], [(0, 2), (2, 3)], [], [(1, 3)], [(0, 3), (1, 1)]]
    perms = list(itertools.permutations(base, 4 if ctx.quick() else 5))
    rng.shuffle(perms)
    for perm in perms[: ctx.n(60, 720)]:
        collections.append([list(x) for x in perm])
    for labs in collections:
        forms = [rng.choice(LABEL_FORMS) for _ in labs]
        plabs = [mk_label(l, f, rng) for l, f in zip(labs, forms)]
        for pl, l in zip(plabs, labs):
            ctx.count("label_len", str(min(len(l), 9)))
            if sorted(lab_pairs(pl)) != sorted(l):  # the constructors are not under test here, the model gets the real content
                ctx.count("label_form_differs")
        order = [lab_pairs(pl) for pl in plabs]
        for strat, fn in strategies:
            raw = safe(lambda: list(fn(plabs)))
            if raw[0] == "ok":  # the property itself on the real result (concrete input), besides the model comparison
                judge_groups(ctx, strat, raw[1], plabs, {"strategy": strat, "labels": order, "built": forms})
            real = ("ok", canon_groups_real(raw[1])) if raw[0] == "ok" else raw
            add(f"c07group {strat} | {enc_labels(order)}", real, "group:" + strat, order)
        # every kind of iterable of labels (one-shot generators, tuples, sets, key views), in its own iteration order
        form = rng.choice(ITER_FORMS)
        for strat, fn in strategies:
            obj, it_order = as_iterable(plabs, form)
            io = [lab_pairs(pl) for pl in it_order]
            real = safe(lambda: canon_groups_real(fn(obj)))
            ctx.count("iterable_form", form)
            add(f"c07group {strat} | {enc_labels(io)}", real, f"group:{strat}:{form}", io)
        # Operator input: the bitwise strategy follows the key order, sorted injection the descending |coefficient| order
        # (distinct magnitudes here; assignment ascending / descending / shuffled; int, float and complex coefficients)
        uniq = list(dict.fromkeys(plabs))
        mags = list(range(1, len(uniq) + 1))
        mode = rng.choice(["asc", "desc", "shuffle", "shuffle"])
        if mode == "desc":
            mags.reverse()
        elif mode == "shuffle":
            rng.shuffle(mags)
        ctx.count("coef_order", mode)
        op = Operator()
        ctype = rng.choice(["int", "float", "complex", "mixed"])
        for pl, m in zip(uniq, mags):
            t = ctype if ctype != "mixed" else rng.choice(["int", "float", "complex"])
            if t == "int":
                op[pl] = m * rng.choice([1, -1])
            elif t == "float":
                op[pl] = (m + 0.5) * rng.choice([1.0, -1.0])
            else:
                op[pl] = m * rng.choice([1, -1, 1j, -1j]) * (2.0 if rng.random() < 0.5 else 1)
        if ctype == "complex" or ctype == "mixed":
            # the factor 2 above may create ties: make the magnitudes distinct again
            seen_m = {}
            for pl in list(op.keys()):
                while abs(op[pl]) in seen_m:
                    op[pl] = op[pl] * 3
                seen_m[abs(op[pl])] = pl
        keys = list(op.keys())
        korder = [lab_pairs(pl) for pl in keys]
        add(f"c07group bitwise | {enc_labels(korder)}", safe(lambda: canon_groups_real(bitwise_pauli_grouping(op))), "group:bitwise-op", korder)
        add(f"c07group individual | {enc_labels(korder)}", safe(lambda: canon_groups_real(individual_pauli_grouping(op))), "group:individual-op", korder)
        sorder = [lab_pairs(pl) for pl in sorted(keys, key=lambda k: -abs(op[k]))]
        add(f"c07group sorted | {enc_labels(sorder)}", safe(lambda: canon_groups_real(sorted_injection_grouping(op))), "group:sorted-op", sorder)
        # measurement circuits and reconstructors of the real groups
        try:
            groups = list(rng.choice([bitwise_pauli_grouping, sorted_injection_grouping])(plabs))
        except Exception:  # noqa: BLE001
            groups = []
        rng.shuffle(groups)
        for g in groups[:4]:
            gl = [lab_pairs(pl) for pl in g]  # real iteration order
            real = safe(lambda: [gate_text(x) for x in bitwise_commuting_pauli_measurement_circuit(g)])
            add(f"c07meas {enc_labels(gl)}", real, "meas", gl)
            # the same group as another kind of collection (list / tuple / set / key view), any member order, repeats
            members = list(g)
            rng.shuffle(members)
            if rng.random() < 0.3:
                members.append(rng.choice(members))
            cform = rng.choice(["list", "tuple", "set", "dictkeys"])
            cobj, corder = as_iterable(members, cform)
            cl = [lab_pairs(pl) for pl in corder]
            real = safe(lambda: [gate_text(x) for x in bitwise_commuting_pauli_measurement_circuit(cobj)])
            ctx.count("meas_collection", cform)
            add(f"c07meas {enc_labels(cl)}", real, "meas:" + cform, cl)
            # reconstructors: all factories of the group first, then the evaluations interleaved (no state shared between closures)
            mem = list(g)
            rng.shuffle(mem)
            mem = mem[:3]
            recs = [(lab_pairs(pl), safe(lambda: bitwise_pauli_reconstructor_factory(pl))) for pl in mem]
            evals = [(k, outcome_bits(rng, recs[k][0])) for k in range(len(recs)) for _ in range(3)]
            rng.shuffle(evals)
            for k, bits in evals:
                l1, (st, rec) = recs[k]
                rv = safe(lambda: int(rec(bits))) if st == "ok" else ("err", rec)
                add(f"c07rec {enc_label(l1)} | {bits}", rv, "rec", (l1, bits))
                # the property on the real code alone (any register width)
                spec = parity_spec(l1, bits)
                if rv != ("ok", spec):
                    ctx.witness("reconstructor", f"reconstructor of {l1} on outcome bits {bits} gives {rv[1]}, the eigenvalue is {spec}",
                                {"label": l1, "bits": bits})
                if st == "ok" and rng.random() < 0.3:
                    for tname, nb in numpy_forms(rng, l1, bits):
                        nv = safe(lambda: int(rec(nb)))
                        ctx.case(("rec-np", tname, repr(l1), bits), nontrivial=True)
                        ctx.count("what", "rec-numpy")
                        if nv != ("ok", spec):
                            ctx.witness("reconstructor", f"reconstructor of {l1} on outcome {tname}({bits}) gives {nv[1]}, the eigenvalue is {spec}",
                                        {"label": l1, "bits": bits, "bits_type": "numpy." + tname})
        # arbitrary (possibly non-commuting) sets for the circuit generator
        if labs:
            sub = rng.sample(plabs, min(len(plabs), rng.randint(1, 3)))
            fs = frozenset(sub)
            gl = [lab_pairs(pl) for pl in fs]
            real = safe(lambda: [gate_text(x) for x in bitwise_commuting_pauli_measurement_circuit(fs)])
            add(f"c07meas {enc_labels(gl)}", real, "meas-any", gl)
            gl = [lab_pairs(pl) for pl in sub]
            real = safe(lambda: [gate_text(x) for x in bitwise_commuting_pauli_measurement_circuit(sub)])
            add(f"c07meas {enc_labels(gl)}", real, "meas-any:list", gl)
        for _ in range(3):
            if len(plabs) >= 2:
                a, b = rng.sample(range(len(plabs)), 2)
                va, vb = pauli_label_to_bsv(plabs[a]), pauli_label_to_bsv(plabs[b])
                add(f"c07commute {enc_label(order[a])} | {enc_label(order[b])}", ("ok", "true" if bsv_bitwise_commute(va, vb) else "false"), "commute", (order[a], order[b]))
                add(f"c07bsv {enc_label(order[a])}", ("ok", f"{va.x} {va.z}"), "bsv", order[a])
    numpy_index_section(ctx, add, safe)
    for empty in (frozenset(), [], (), set()):
        add("c07meas ", safe(lambda: bitwise_commuting_pauli_measurement_circuit(empty)), "meas-empty", type(empty).__name__)
    resp = ctx.driver(reqs, entry="DriverC07.lean")
    for (real, what, inp), r in zip(checks, resp):
        ctx.case((what.split(":")[0] if what.startswith("group") else what, repr(inp)), nontrivial=bool(inp),
                 sample={"what": what, "input": str(inp)[:200], "model": r[:200]})
        ctx.traces += 1
        ctx.count("what", what)
        if what.startswith("group"):
            ok = real[0] == "ok" and real[1] == canon_groups_model(r)
        elif what.startswith("meas"):
            if real[0] == "err":
                ok = r == real[1]
                ctx.count("meas_outcome", real[1])
            else:
                ok = r == ("ok " + ",".join(real[1])).strip() or (not real[1] and r == "ok ")
                ctx.count("meas_outcome", "ok")
        elif what == "rec":
            ok = real[0] == "ok" and str(real[1]) == r
        else:
            ok = real[0] == "ok" and real[1] == r
        if not ok:
            ctx.disagree(what, inp, str(real)[:500], r[:500])


def _qwc(a, b):
    da, db = dict(a), dict(b)
    return all(da[i] == db[i] for i in da if i in db)


def judge_groups(ctx, tag, groups, content, desc):
    """the grouping half of the property: every non-identity term of `content` in exactly one group, nothing else, qubit-wise commuting"""
    ok = True
    content_set = set(content)
    for pl in content_set:
        cnt = sum(1 for g in groups if pl in g)
        if len(pl) and cnt != 1:
            ctx.witness("partition:" + tag, f"term {pl} appears in {cnt} groups", desc)
            ok = False
    extra = set().union(*groups) - content_set if groups else set()
    if extra:
        ctx.witness("partition:" + tag, f"groups contain terms not in the input: {extra}", desc)
        ok = False
    for g in groups:
        for a, b in itertools.combinations(list(g), 2):
            if not _qwc(a, b):
                ctx.witness("qwc:" + tag, f"{a} and {b} share a group but do not commute qubit-wise", desc)
                ok = False
    return ok


def judge_measurement_local(ctx, rng, m, desc, n_bits=3, max_width=None):
    """the measurement half of the property for any register width, qubit by qubit: V is a product of one-qubit gates, so
    V P V† = ⊗_q V_q P_q V_q†; it must be Z on every support qubit of every member (gates elsewhere are harmless), and then
    <b|V P V†|b> = (-1)^{#support qubits of P set in b}, which the member's reconstructor has to return for every b"""
    import numpy as np

    from oracle import dense

    per = {}
    try:
        for g in m.measurement_circuit:
            if len(g.target_indices) != 1 or len(g.control_indices):
                ctx.witness("meas-local", f"measurement circuit contains the multi-qubit gate {g}", desc)
                return False
            q = int(g.target_indices[0])
            per[q] = dense.local_matrix(g.name, tuple(g.params), tuple(g.pauli_ids), None) @ per.get(q, dense.I2)
    except KeyError as e:
        ctx.witness("meas-local", f"measurement circuit contains an unexpected gate {e}", desc)
        return False
    ok = True
    for pl in m.pauli_set:
        pairs = lab_pairs(pl)
        for q, p in pairs:
            v = per.get(q, dense.I2)
            if np.max(np.abs(v @ dense.PAULI[p] @ v.conj().T - dense.PZ)) > 1e-9:
                ctx.witness("meas-local", f"on qubit {q} the circuit does not rotate {'IXYZ'[p]} of {pl} to Z", desc)
                ok = False
        try:
            rec = m.pauli_reconstructor_factory(pl)
            for _ in range(n_bits):
                bits = outcome_bits(rng, pairs)
                if max_width:
                    bits &= (1 << max_width) - 1
                got = rec(bits)
                if got != parity_spec(pairs, bits):
                    ctx.witness("reconstructor", f"reconstructor of {pairs} on outcome bits {bits} gives {got}, the eigenvalue is {parity_spec(pairs, bits)}",
                                {"label": pairs, "bits": bits})
                    ok = False
        except Exception as e:  # noqa: BLE001
            ctx.witness("reconstructor", f"reconstructor of {pairs} raises {type(e).__name__}: {e}", desc)
            ok = False
    return ok


def cache_histories(ctx: Ctx, n_hist: int) -> int:
    """call sequences on ONE CachedMeasurementFactory: the same Operator object again, the object mutated in place (term added /
    removed / coefficient changed), another object with the same content, plain iterables of labels (line 79), a second factory
    instance in between; after EVERY call the returned measurements are judged against the content handed in at that call"""
    from quri_parts.core.measurement import (
        CachedMeasurementFactory,
        CommutablePauliSetMeasurementTuple,
        bitwise_commuting_pauli_measurement,
        bitwise_commuting_pauli_measurement_circuit,
        bitwise_pauli_reconstructor_factory,
        individual_pauli_measurement,
    )
    from quri_parts.core.operator import Operator, PauliLabel
    from quri_parts.core.operator.grouping import sorted_injection_grouping

    def sorted_injection_measurement(paulis):
        return tuple(
            CommutablePauliSetMeasurementTuple(pauli_set=s, measurement_circuit=bitwise_commuting_pauli_measurement_circuit(s),
                                               pauli_reconstructor_factory=bitwise_pauli_reconstructor_factory)
            for s in sorted_injection_grouping(paulis))

    factories = {"bitwise": bitwise_commuting_pauli_measurement, "individual": individual_pauli_measurement,
                 "sorted": sorted_injection_measurement}
    rng = ctx.rng
    n_eval = 0

    def sets_of(meas):
        return sorted(sorted(tuple(sorted(lab_pairs(pl))) for pl in m.pauli_set) for m in meas)

    for _ in range(n_hist):
        name = rng.choice(list(factories))
        other = rng.choice([k for k in factories if k != name])
        cf, cf_other = CachedMeasurementFactory(factories[name]), CachedMeasurementFactory(factories[other])
        pool_idx = rng.choice([list(range(3)), list(range(4)), list(range(6)), None, list(range(62, 66))])
        pool = list(dict.fromkeys(mk_label(l, rng.choice(LABEL_FORMS), rng) for l in rich_labels(rng, 12, pool=pool_idx, maxk=4)))

        def coef():
            # mostly pairwise distinct magnitudes (the order sorted injection uses is then determined), sometimes ties / ints
            if rng.random() < 0.75:
                return round(rng.uniform(0.1, 9.0), 6) * rng.choice([1, -1, 1j, -1j])
            return rng.choice([1, 2.5, -3, 1j, 0.5 - 0.5j, 7])

        op = Operator()
        for pl in rng.sample(pool, min(len(pool), rng.randint(2, 6))):
            op[pl] = coef()
        history = []
        seen_keys = set()
        for _step in range(rng.randint(3, 9)):
            action = rng.choice(["same", "same", "add", "add", "del", "coef", "coef", "replace", "copy", "iterable", "unit-op", "other", "fresh"])
            arg = op
            if action == "add":
                op[rng.choice(pool)] = coef()
            elif action == "del" and len(op) > 1:
                del op[rng.choice(list(op.keys()))]
            elif action == "coef" and len(op):
                # same terms, other coefficients: one rescaled, or the coefficients handed round (largest <-> smallest, …)
                if rng.random() < 0.4:
                    k = rng.choice(list(op.keys()))
                    op[k] = op[k] * rng.choice([2, -1, 1j, 10, 0.01]) + rng.choice([0, 0, 1])
                else:
                    ks, vs = list(op.keys()), list(op.values())
                    vs = vs[::-1] if rng.random() < 0.5 else rng.sample(vs, len(vs))
                    for k, v in zip(ks, vs):
                        op[k] = v
            elif action == "replace" and len(op):
                k = rng.choice(list(op.keys()))
                c = op.pop(k)
                op[rng.choice(pool)] = c  # same number of terms, same coefficient
            elif action == "copy":
                items = list(op.items())
                rng.shuffle(items)
                arg = Operator(dict(items))  # equal content, other object, other key order
            elif action == "iterable":
                labs = rng.sample(pool, min(len(pool), rng.randint(1, 5)))
                if rng.random() < 0.3:
                    labs.append(labs[0])
                arg, it_order = as_iterable(labs, rng.choice(ITER_FORMS))
                content = list(dict.fromkeys(it_order))  # the order in which the wrapper sees the labels
            elif action == "unit-op":
                labs = rng.sample(pool, min(len(pool), rng.randint(1, 5)))
                arg = Operator({p: 1 + 0j for p in labs})  # the key a plain iterable of the same labels gets
            elif action == "other":
                try:
                    cf_other(op)
                    cf_other(list(op.keys()))
                except Exception:  # noqa: BLE001
                    pass
            elif action == "fresh":
                op = Operator({pl: coef() for pl in rng.sample(pool, min(len(pool), rng.randint(1, 6)))})
                arg = op
            if isinstance(arg, Operator):
                content = list(arg.keys())
                key = frozenset(arg.items())
                magnitudes = [abs(v) for v in arg.values()]
                shown = {str(k): str(v) for k, v in arg.items()}
            elif action == "iterable":
                key = frozenset((p, 1 + 0j) for p in content)
                magnitudes = [1.0] * len(content)
                shown = [str(p) for p in content]
            history.append({"action": action, "arg": type(arg).__name__, "content": shown})
            desc = {"wrapped": name, "history": list(history)}
            n_eval += 1
            ctx.count("cache_action", action)
            ctx.case(("cache", name, action, repr(shown)), nontrivial=True)
            try:
                meas = list(cf(arg))
            except Exception as e:  # noqa: BLE001
                ctx.witness("measurement-raises", f"CachedMeasurementFactory({name}) raises {type(e).__name__}: {e}", desc)
                break
            groups = [m.pauli_set for m in meas]
            good = judge_groups(ctx, "cached-" + name, groups, content, desc)
            if not good:
                ctx.witness("cache-stale", "CachedMeasurementFactory returned groups that do not partition the terms handed in at this call", desc)
            for m in meas:
                judge_measurement_local(ctx, rng, m, desc, n_bits=2)
            # "runs the same grouping algorithm": where the wrapped strategy's result is determined by the content (individual;
            # sorted injection with distinct |coefficients|; bitwise on the first call with this content) it must be that result
            first = key not in seen_keys
            seen_keys.add(key)
            determined = name == "individual" or (name == "sorted" and len(set(magnitudes)) == len(magnitudes)) or (name == "bitwise" and first)
            if determined and good:
                try:
                    ref = factories[name](Operator(dict(arg.items())) if isinstance(arg, Operator) else list(content))
                    if sets_of(meas) != sets_of(ref):
                        ctx.disagree("cached-wrapper-vs-wrapped:" + name, desc, str(sets_of(meas))[:400], str(sets_of(ref))[:400])
                except Exception:  # noqa: BLE001
                    pass
            # every entry the cache holds is a sound grouping of the terms in its key (it is what a later call with that content gets)
            if rng.random() < 0.5:
                try:
                    snapshot = cf.cached_groups
                    for k, v in list(snapshot.items()):
                        if not all(isinstance(e, tuple) and len(e) == 2 and isinstance(e[0], PauliLabel) for e in k):
                            ctx.disagree("cached_groups", desc, f"key {str(k)[:200]}", "key = frozenset of (PauliLabel, coefficient)")
                            break
                        kl = [pl for pl, _ in k]
                        if not judge_groups(ctx, "cache-entry", [m.pauli_set for m in v], kl, desc):
                            break
                    ctx.count("cached_groups_entries", str(min(len(snapshot), 9)))
                    if key not in snapshot:
                        ctx.count("cached_groups_key_missing")
                    snapshot.clear()  # the caller's copy: emptying it never makes a later result wrong
                except Exception as e:  # noqa: BLE001
                    ctx.disagree("cached_groups", desc, f"{type(e).__name__}: {e}"[:300], "dict: content key -> measurements")
    return n_eval


def validate(ctx: Ctx, budget_s: float):
    """the property on the real code: partition, qubit-wise commutation, measurement soundness (dense for n ≤ 5, qubit-local for any width)"""
    import time

    import numpy as np

    from oracle import dense
    from quri_parts.core.measurement import (
        CachedMeasurementFactory,
        bitwise_commuting_pauli_measurement,
        individual_pauli_measurement,
    )
    from quri_parts.core.operator import Operator, PauliLabel
    from quri_parts.core.operator.grouping import (
        bitwise_pauli_grouping,
        individual_pauli_grouping,
        sorted_injection_grouping,
    )

    rng = ctx.rng
    t0 = time.time()
    n_eval = 0

    def pmat(n, pairs):
        m = np.eye(1 << n, dtype=complex)
        for i, p in pairs:
            m = dense.embed(n, [i], dense.PAULI[p]) @ m
        return m

    def coefficients(k):
        """coefficient orderings incl. ties (equal |c|: the sort order is then unspecified, the property is not), zeros, ints"""
        mode = rng.choice(["random", "random", "ties", "all-equal", "ints", "zeros", "asc", "desc"])
        ctx.count("validate_coefs", mode)
        if mode == "ties":
            return [rng.choice([1.0, -1.0, 1j, 2.0, -2j]) for _ in range(k)]
        if mode == "all-equal":
            return [1.0] * k
        if mode == "ints":
            return [rng.randint(-3, 3) or 1 for _ in range(k)]
        if mode == "zeros":
            return [rng.choice([0.0, 0.0, 1.0, -0.5]) for _ in range(k)]
        if mode == "asc":
            return [float(i + 1) for i in range(k)]
        if mode == "desc":
            return [float(k - i) for i in range(k)]
        return [complex(rng.uniform(-1, 1), rng.uniform(-1, 1)) for _ in range(k)]

    # fixed-count parts first (reproducible per seed; the timed search below consumes the generator at a machine-dependent rate)
    # cache is keyed by content
    cf = CachedMeasurementFactory(bitwise_commuting_pauli_measurement)
    op = Operator({PauliLabel([(0, 1)]): 1.0, PauliLabel([(0, 3), (1, 3)]): 2.0})
    r1 = cf(op)
    op[PauliLabel([(1, 2)])] = 0.5
    r2 = cf(op)
    want = {pl for m in bitwise_commuting_pauli_measurement(op) for pl in m.pauli_set}
    got = {pl for m in r2 for pl in m.pauli_set}
    n_eval += 1
    if want != got:
        ctx.witness("cache-stale", "CachedMeasurementFactory returned the groups of the content before mutation", {"after_mutation": str(op)})
    with ctx.timed("cache_histories"):
        n_hist = ctx.n(150, 3000) * (1 if budget_s <= 120 else 3)
        n_cache = cache_histories(ctx, n_hist)
    t0 = time.time()
    fns = {"bitwise": bitwise_pauli_grouping, "sorted": sorted_injection_grouping, "individual": individual_pauli_grouping}
    wide_every = 3
    while time.time() - t0 < budget_s:
        wide = n_eval % wide_every == wide_every - 1  # any-width instances judged qubit-locally
        if wide:
            n = None
            labs = rich_labels(rng, rng.choice([1, 2, 3, 6, 12, 25]), pool=rng.choice([None, list(range(28, 36)), list(range(60, 68))]))
        else:
            n = rng.randint(1, 5)
            labs = random_labels(rng, n, rng.choice([1, 2, 3, 6, 12]))
        forms = [rng.choice(LABEL_FORMS) for _ in labs]
        plabs = [mk_label(l, f, rng) for l, f in zip(labs, forms)]
        uniq = list(dict.fromkeys(plabs))
        op = Operator(dict(zip(uniq, coefficients(len(uniq)))))
        base = rng.choice(["bitwise", "sorted", "individual"])
        form = rng.choice(["op", "op"] + ITER_FORMS)
        strat = f"{base}-op" if form == "op" else base
        n_eval += 1
        desc = {"strategy": strat, "labels": labs, "built": forms, "input_form": form}
        if form == "op":
            arg, content = op, list(op.keys())
            desc["coefficients"] = [str(v) for v in op.values()]
        else:
            arg, content = as_iterable(plabs, form)
        ctx.count("validate_form", form)
        try:
            groups = list(fns[base](arg))
        except Exception as e:  # noqa: BLE001
            ctx.witness("grouping-raises:" + strat, f"{type(e).__name__}: {e}", desc)
            continue
        judge_groups(ctx, strat, groups, content, desc)
        # measurement scheme, Operator and plain-iterable entry points, cached wrapper included (second call = cached path)
        facname = rng.choice(["bitwise", "individual", "cached-bitwise", "cached-individual"])
        fac = {"bitwise": bitwise_commuting_pauli_measurement, "individual": individual_pauli_measurement,
               "cached-bitwise": CachedMeasurementFactory(bitwise_commuting_pauli_measurement),
               "cached-individual": CachedMeasurementFactory(individual_pauli_measurement)}[facname]
        mform = rng.choice(["op", "op"] + ITER_FORMS)
        desc = {"factory": facname, "labels": labs, "built": forms, "input_form": mform}
        ctx.count("validate_meas_form", mform)
        try:
            marg = op if mform == "op" else as_iterable(plabs, mform)[0]
            meas = list(fac(marg))
            if rng.random() < 0.4 and facname.startswith("cached"):
                marg = op if mform == "op" else as_iterable(plabs, mform)[0]
                meas = list(fac(marg))  # cached path
        except Exception as e:  # noqa: BLE001
            ctx.witness("measurement-raises", f"{type(e).__name__}: {e}", desc)
            continue
        judge_groups(ctx, "meas-" + facname, [m.pauli_set for m in meas], uniq, desc)
        covered = set()
        for m in meas:
            covered |= set(m.pauli_set)
            judge_measurement_local(ctx, rng, m, desc)
            if wide:
                continue
            v = dense.circuit_unitary(n, list(m.measurement_circuit))
            for pl in m.pauli_set:
                rec = m.pauli_reconstructor_factory(pl)
                mat = v @ pmat(n, lab_pairs(pl)) @ v.conj().T
                diag = np.diag(mat)
                if np.max(np.abs(mat - np.diag(diag))) > 1e-9:
                    ctx.witness("meas-not-diagonal", f"V P V† is not diagonal for {pl}", desc)
                    break
                for b in range(1 << n):
                    if abs(diag[b] - rec(b)) > 1e-9:
                        ctx.witness("reconstructor", f"<{b}|V P V†|{b}> = {diag[b]} but the reconstructor gives {rec(b)} for {pl}", desc)
                        break
        missing = {pl for pl in plabs if len(pl)} - covered
        if missing:
            ctx.witness("measurement-missing-term", f"terms without a measurement: {missing}", desc)
    ctx.extra["oracle_validation"] = {"evaluations": n_eval, "cache_history_calls": n_cache}
    ctx.evaluations += n_eval
    ctx.search_budget_s = budget_s


def run(ctx: Ctx, replay=None) -> int:
    ctx.rule = ("cases = (function, input in the real iteration order): grouping strategies on label collections (incl. all permutations of small "
                "collections, duplicates, identity, supports up to 12 qubits, indices on the 32/64/128-bit boundaries; labels built from ints, "
                "SinglePauli members, strings, index/pauli lists; lists, tuples, one-shot generators, sets, key views and Operators with int / float / "
                "complex coefficients in ascending, descending and shuffled |c| order), bsv / bitwise-commute, measurement circuit (frozenset / list / "
                "tuple / set / key view, repeated members), reconstructor (outcomes of any width, Python and numpy integers, interleaved closures); "
                "real vs Lean model exactly (groups as sets of sets); CachedMeasurementFactory call histories (same object, in-place mutation, equal "
                "content in another object, plain iterables, second instance) judged after every call; distinct = distinct (function, input)")
    ctx.trusted = c01.TRUSTED[:1] + [
        "bsv model uses bitwise OR where the code adds 1<<i (equal on valid labels; compared bit-exactly each run)",
        "measurement soundness on the full register is PROVED (Proof/MeasSound, Props/C07Lift: group_sound, bitwise_grouping_measurable, "
        "sorted_injection_measurable - for every register size, V·P = Z_supp·V and the reconstructor is the eigenvalue of Z_supp); the per-instance "
        "dense (n ≤ 5) and qubit-local checks of the REAL circuits remain as correspondence of the real factories with the model's measCircuit/reconstructor",
        "Found/Gate.lean matrices for H, Sdag, Pauli (cross-checked in C01)",
    ]
    ctx.assumptions = ["labels are valid (one Pauli per index)"]
    ok = ctx.prove(["QuriVerif.Props.C07", "QuriVerif.Props.C07Lift", "QuriVerif.Driver.C07"], ["QuriVerif.Props.C07", "QuriVerif.Props.C07Lift"])
    if ok:
        names = [f"QV.Props.C07.{n}" for _, n, _ in ctx.count_obligations(["QuriVerif.Props.C07"])]
        names += [f"QV.Props.C07Lift.{n}" for _, n, _ in ctx.count_obligations(["QuriVerif.Props.C07Lift"]) if n != "ex_circ"]
        ctx.audit(names, ["QuriVerif.Props.C07", "QuriVerif.Props.C07Lift"])
        with ctx.timed("correspond"):
            correspond(ctx)
    with ctx.timed("oracle_validation"):
        budget = (10 if ctx.quick() else 120) * (1 if ok and not ctx.disagreements else 3)
        validate(ctx, budget)
    return ctx.finish()
