"""C07 — Pauli grouping and its measurement scheme are sound."""
from __future__ import annotations

import itertools
import os
import sys

sys.path.insert(0, os.path.dirname(os.path.dirname(os.path.abspath(__file__))))

import c01  # noqa: E402
from common import Ctx  # noqa: E402


def enc_label(pairs) -> str:
    return ",".join(f"{i}:{p}" for i, p in pairs) if pairs else "I"


def enc_labels(ls) -> str:
    return ";".join(enc_label(l) for l in ls)


def canon_groups_real(groups):
    return sorted(sorted(tuple(sorted((int(i), int(p)) for i, p in lab)) for lab in g) for g in groups)


def canon_groups_model(resp: str):
    if not resp:
        return []
    out = []
    for g in resp.split("|"):
        labs = set()
        for l in g.split(";"):
            labs.add(() if l == "I" else tuple(sorted(tuple(int(v) for v in t.split(":")) for t in l.split(","))))
        g = sorted(labs)
        if g not in out:  # the real result is a frozenset of frozensets
            out.append(g)
    return sorted(out)


def random_labels(rng, maxq, count):
    labs = []
    for _ in range(count):
        r = rng.random()
        if r < 0.08:
            labs.append([])
            continue
        k = rng.randint(1, min(maxq, 5))
        idx = rng.sample(range(maxq), k)
        if r < 0.3:
            p = rng.randint(1, 3)
            pairs = [(i, p) for i in idx]
        else:
            pairs = [(i, rng.randint(1, 3)) for i in idx]
        labs.append(pairs)
    if labs and rng.random() < 0.3:
        labs.append(list(rng.choice(labs)))  # duplicate
    return labs


def correspond(ctx: Ctx):
    from quri_parts.core.measurement import (
        bitwise_commuting_pauli_measurement_circuit,
        bitwise_pauli_reconstructor_factory,
    )
    from quri_parts.core.operator import Operator, PauliLabel
    from quri_parts.core.operator.grouping import (
        bitwise_pauli_grouping,
        individual_pauli_grouping,
        sorted_injection_grouping,
    )
    from quri_parts.core.operator.representation import bsv_bitwise_commute, pauli_label_to_bsv

    rng = ctx.rng
    reqs, checks = [], []

    def add(req, real, what, inp):
        reqs.append(req)
        checks.append((real, what, inp))

    def safe(f):
        try:
            return ("ok", f())
        except Exception as e:  # noqa: BLE001
            return ("err", type(e).__name__)

    N = ctx.n(120, 1500)
    collections = []
    for _ in range(N):
        maxq = rng.choice([3, 4, 8, 70])
        collections.append(random_labels(rng, maxq, rng.choice([0, 1, 2, 3, 5, 8, 15, 40])))
    # all permutations of small collections: the properties must hold for every input order
    base = [[(0, 1), (1, 2)], [(0, 1), (2, 3)], [(0, 2), (2, 3)], [], [(1, 3)], [(0, 3), (1, 1)]]
    perms = list(itertools.permutations(base, 4 if ctx.quick() else 5))
    rng.shuffle(perms)
    for perm in perms[: ctx.n(60, 720)]:
        collections.append([list(x) for x in perm])
    for labs in collections:
        plabs = [PauliLabel(l) for l in labs]
        order = [[(int(i), int(p)) for i, p in pl] for pl in plabs]
        for strat, fn in (("bitwise", bitwise_pauli_grouping), ("sorted", sorted_injection_grouping), ("individual", individual_pauli_grouping)):
            real = safe(lambda: canon_groups_real(fn(plabs)))
            add(f"c07group {strat} | {enc_labels(order)}", real, "group:" + strat, order)
        # Operator input (dict order; sorted injection sorts by |coef| descending – distinct magnitudes)
        op = Operator()
        seen = set()
        for pl in plabs:
            if pl not in seen:
                seen.add(pl)
                op[pl] = (len(seen) + 0.5) * rng.choice([1, -1, 1j])
        keys = list(op.keys())
        korder = [[(int(i), int(p)) for i, p in pl] for pl in keys]
        add(f"c07group bitwise | {enc_labels(korder)}", safe(lambda: canon_groups_real(bitwise_pauli_grouping(op))), "group:bitwise-op", korder)
        sorder = list(reversed(korder))  # |coef| grows with insertion index
        add(f"c07group sorted | {enc_labels(sorder)}", safe(lambda: canon_groups_real(sorted_injection_grouping(op))), "group:sorted-op", sorder)
        # measurement circuits and reconstructors of the real groups
        try:
            groups = list(bitwise_pauli_grouping(plabs))
        except Exception:  # noqa: BLE001
            groups = []
        for g in groups[:4]:
            gl = [[(int(i), int(p)) for i, p in pl] for pl in g]  # real iteration order
            real = safe(lambda: [f"{x.name}{x.target_indices[0]}" for x in bitwise_commuting_pauli_measurement_circuit(g)])
            add(f"c07meas {enc_labels(gl)}", real, "meas", gl)
            for pl in list(g)[:3]:
                bits = rng.getrandbits(rng.choice([3, 8, 71]))
                l1 = [(int(i), int(p)) for i, p in pl]
                rv = safe(lambda: int(bitwise_pauli_reconstructor_factory(pl)(bits)))
                add(f"c07rec {enc_label(l1)} | {bits}", rv, "rec", (l1, bits))
                # the property on the real code alone (any register width): after the per-qubit basis change the Pauli is
                # Z on its support, so its eigenvalue on outcome b is (-1)^{number of support qubits measured as 1}
                spec = -1 if sum((bits >> q) & 1 for q, _ in l1) % 2 else 1
                if rv != ("ok", spec):
                    ctx.witness("reconstructor", f"reconstructor of {l1} on outcome bits {bits} gives {rv[1]}, the eigenvalue is {spec}",
                                {"label": l1, "bits": bits})
        # arbitrary (possibly non-commuting) sets for the circuit generator
        if labs:
            sub = rng.sample(plabs, min(len(plabs), rng.randint(1, 3)))
            fs = frozenset(sub)
            gl = [[(int(i), int(p)) for i, p in pl] for pl in fs]
            real = safe(lambda: [f"{x.name}{x.target_indices[0]}" for x in bitwise_commuting_pauli_measurement_circuit(fs)])
            add(f"c07meas {enc_labels(gl)}", real, "meas-any", gl)
        for _ in range(3):
            if len(plabs) >= 2:
                a, b = rng.sample(range(len(plabs)), 2)
                va, vb = pauli_label_to_bsv(plabs[a]), pauli_label_to_bsv(plabs[b])
                add(f"c07commute {enc_label(order[a])} | {enc_label(order[b])}", ("ok", "true" if bsv_bitwise_commute(va, vb) else "false"), "commute", (order[a], order[b]))
                add(f"c07bsv {enc_label(order[a])}", ("ok", f"{va.x} {va.z}"), "bsv", order[a])
    add("c07meas ", safe(lambda: bitwise_commuting_pauli_measurement_circuit(frozenset())), "meas-empty", [])
    resp = ctx.driver(reqs)
    for (real, what, inp), r in zip(checks, resp):
        ctx.case((what, repr(inp)), nontrivial=bool(inp), sample={"what": what, "input": str(inp)[:200], "model": r[:200]})
        ctx.traces += 1
        ctx.count("what", what)
        if what.startswith("group"):
            ok = real[0] == "ok" and real[1] == canon_groups_model(r)
        elif what.startswith("meas"):
            if real[0] == "err":
                ok = r == real[1]
                ctx.count("meas_outcome", real[1])
            else:
                ok = r == ("ok " + ",".join(real[1])).strip() or (not real[1] and r == "ok ")
                ctx.count("meas_outcome", "ok")
        elif what == "rec":
            ok = real[0] == "ok" and str(real[1]) == r
        else:
            ok = real[0] == "ok" and real[1] == r
        if not ok:
            ctx.disagree(what, inp, str(real)[:500], r[:500])


def validate(ctx: Ctx, budget_s: float):
    """the property on the real code: partition, qubit-wise commutation, measurement soundness (dense, n ≤ 5)"""
    import time

    import numpy as np

    from oracle import dense
    from quri_parts.core.measurement import (
        CachedMeasurementFactory,
        bitwise_commuting_pauli_measurement,
        individual_pauli_measurement,
    )
    from quri_parts.core.operator import Operator, PauliLabel
    from quri_parts.core.operator.grouping import (
        bitwise_pauli_grouping,
        individual_pauli_grouping,
        sorted_injection_grouping,
    )

    rng = ctx.rng
    t0 = time.time()
    n_eval = 0

    def qwc(a, b):
        da, db = dict(a), dict(b)
        return all(da[i] == db[i] for i in da if i in db)

    def pmat(n, pairs):
        m = np.eye(1 << n, dtype=complex)
        for i, p in pairs:
            m = dense.embed(n, [i], dense.PAULI[p]) @ m
        return m

    while time.time() - t0 < budget_s:
        n = rng.randint(1, 5)
        labs = random_labels(rng, n, rng.choice([1, 2, 3, 6, 12]))
        plabs = [PauliLabel(l) for l in labs]
        op = Operator({pl: complex(rng.uniform(-1, 1), rng.uniform(-1, 1)) for pl in plabs})
        strat = rng.choice(["bitwise", "sorted", "individual", "bitwise-op", "sorted-op"])
        fn = {"bitwise": bitwise_pauli_grouping, "sorted": sorted_injection_grouping, "individual": individual_pauli_grouping,
              "bitwise-op": bitwise_pauli_grouping, "sorted-op": sorted_injection_grouping}[strat]
        n_eval += 1
        desc = {"strategy": strat, "labels": labs}
        try:
            groups = list(fn(op if strat.endswith("-op") else plabs))
        except Exception as e:  # noqa: BLE001
            ctx.witness("grouping-raises:" + strat, f"{type(e).__name__}: {e}", desc)
            continue
        for pl in set(plabs):
            cnt = sum(1 for g in groups if pl in g)
            if len(pl) and cnt != 1:
                ctx.witness("partition:" + strat, f"term {pl} appears in {cnt} groups", desc)
        extra = set().union(*groups) - set(plabs) if groups else set()
        if extra:
            ctx.witness("partition:" + strat, f"groups contain terms not in the input: {extra}", desc)
        for g in groups:
            for a, b in itertools.combinations(list(g), 2):
                if not qwc(a, b):
                    ctx.witness("qwc:" + strat, f"{a} and {b} share a group but do not commute qubit-wise", desc)
        # measurement scheme
        fac = rng.choice([bitwise_commuting_pauli_measurement, individual_pauli_measurement, CachedMeasurementFactory(bitwise_commuting_pauli_measurement)])
        try:
            meas = list(fac(op))
            if rng.random() < 0.3 and isinstance(fac, CachedMeasurementFactory):
                meas = list(fac(op))  # cached path
        except Exception as e:  # noqa: BLE001
            ctx.witness("measurement-raises", f"{type(e).__name__}: {e}", desc)
            continue
        covered = set()
        for m in meas:
            v = dense.circuit_unitary(n, list(m.measurement_circuit))
            for pl in m.pauli_set:
                covered.add(pl)
                rec = m.pauli_reconstructor_factory(pl)
                mat = v @ pmat(n, [(int(i), int(p)) for i, p in pl]) @ v.conj().T
                diag = np.diag(mat)
                if np.max(np.abs(mat - np.diag(diag))) > 1e-9:
                    ctx.witness("meas-not-diagonal", f"V P V† is not diagonal for {pl}", desc)
                    break
                for b in range(1 << n):
                    if abs(diag[b] - rec(b)) > 1e-9:
                        ctx.witness("reconstructor", f"<{b}|V P V†|{b}> = {diag[b]} but the reconstructor gives {rec(b)} for {pl}", desc)
                        break
        missing = {pl for pl in plabs if len(pl)} - covered
        if missing:
            ctx.witness("measurement-missing-term", f"terms without a measurement: {missing}", desc)
    # cache is keyed by content
    cf = CachedMeasurementFactory(bitwise_commuting_pauli_measurement)
    op = Operator({PauliLabel([(0, 1)]): 1.0, PauliLabel([(0, 3), (1, 3)]): 2.0})
    r1 = cf(op)
    op[PauliLabel([(1, 2)])] = 0.5
    r2 = cf(op)
    want = {pl for m in bitwise_commuting_pauli_measurement(op) for pl in m.pauli_set}
    got = {pl for m in r2 for pl in m.pauli_set}
    n_eval += 1
    if want != got:
        ctx.witness("cache-stale", "CachedMeasurementFactory returned the groups of the content before mutation", {"after_mutation": str(op)})
    ctx.evaluations += n_eval
    ctx.extra["oracle_validation"] = {"evaluations": n_eval}
    ctx.search_budget_s = budget_s


def run(ctx: Ctx, replay=None) -> int:
    ctx.rule = ("cases = (function, input in the real iteration order): grouping strategies on label collections (incl. all permutations of small "
                "collections, duplicates, identity, indices up to 70), bsv / bitwise-commute, measurement circuit, reconstructor; real vs Lean model "
                "exactly (groups as sets of sets); distinct = distinct (function, input)")
    ctx.trusted = c01.TRUSTED[:1] + [
        "bsv model uses bitwise OR where the code adds 1<<i (equal on valid labels; compared bit-exactly each run)",
        "measurement soundness on the full register (tensor lifting of the per-qubit kernel facts) validated per instance with dense matrices for n ≤ 5",
        "Found/Gate.lean matrices for H, Sdag, Pauli (cross-checked in C01)",
    ]
    ctx.assumptions = ["labels are valid (one Pauli per index)"]
    ok = ctx.prove(["QuriVerif.Props.C07", "QuriVerif.Driver.All"], ["QuriVerif.Props.C07"])
    if ok:
        names = [f"QV.Props.C07.{n}" for _, n, _ in ctx.count_obligations(["QuriVerif.Props.C07"])]
        ctx.audit(names, ["QuriVerif.Props.C07"])
        with ctx.timed("correspond"):
            correspond(ctx)
    with ctx.timed("oracle_validation"):
        budget = (10 if ctx.quick() else 120) * (1 if ok and not ctx.disagreements else 3)
        validate(ctx, budget)
    return ctx.finish()
