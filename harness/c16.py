"""C16 — Computational-basis state calculus matches the state vector."""
from __future__ import annotations

import cmath
import hashlib
import itertools
import json
import math
import os
import sys
import time

sys.path.insert(0, os.path.dirname(os.path.dirname(os.path.abspath(__file__))))

import qp  # noqa: E402
from common import Ctx, InfraError  # noqa: E402

ENTRY = "DriverC16.lean"
LEAN_TARGETS = ["QuriVerif.Props.C16", "QuriVerif.Props.C16Lift", "QuriVerif.Driver.C16"]
LEAN_TARGETS_THOROUGH = ["QuriVerif.Props.C16Deep"]
FINDING_BIT64 = "superposition-lowest-bit-64"
UNIT = math.pi / 64.0  # grid angle unit
GRID_TOL = 1e-6  # a real angle is "on the grid" if it is this close to k·π/64 (grid spacing 0.049; round-off ≤ 1e-11)
TWO_PI = 128  # grid units; angles are compared modulo 2π (RZ(α+2π) = −RZ(α): a global phase), phase counters modulo 4
NUM_TOL = 1e-9  # state-vector comparisons (entries are O(1), round-off ≤ 1e-13)

TRUSTED = [
    "Lean 4.33 kernel incl. `decide +kernel` evaluation; axioms audited ⊆ {propext, Classical.choice, Quot.sound}",
    "Model/C16.lean is a hand transcription of comp_basis.py / bit.py / state.py / state_vector.py, tied to the working tree "
    "by the correspondence runs of this harness (real objects vs DriverC16.lean, exact strings / integers / affine angle forms)",
    "exact-ring reflection (Found/Poly.lean): a Poly identity in u=ζ16, x0=e^{iθ/2}, x1=e^{iφ/2} holds for all real θ, φ; "
    "soundness w.r.t. ℂ is proved (Proof/PolySound eval_add / eval_mul; Props/Reflect instantiates ζ = exp(iπ/8), xⱼ = exp(iφⱼ/2); obligations of C01)",
    "the rewriting semantics `stepS` of X / all-X PauliRotation / RZ is a definition; it is kernel-checked against the dense "
    "embedding semantics of Found/Gate.lean on ≤ 3 qubits and validated every run against numpy (oracle/c16_state.py) on ≤ 6 qubits",
    "the Pauli matrices of `pauliMat` are the documented ones (kernel-checked equal to Found/Gate.lean's localMat)",
    "QuantumGate / QuantumCircuit (`+`, freeze, add_*_gate, range checks) are the installed quri_parts.rust 0.27 binary, "
    "not built from /repo",
    "float angles: the real code's angles are compared as integers on the π/64 grid after recovering the affine form in "
    "(θ, φ) from four probes; round-off of the float expressions themselves is not modelled",
]

PAULI_KINDS = ("X", "Y", "Z", "Pauli")
ONE_Q = ["H", "S", "Sdag", "T", "Tdag", "SqrtX", "SqrtXdag", "SqrtY", "SqrtYdag", "Identity"]


# ---------------------------------------------------------------------------
# gate specs, payload registry, encodings
# ---------------------------------------------------------------------------
class Registry:
    """payload (param units, matrix hash) <-> tag (natural number) for input gates"""

    def __init__(self):
        self.by_payload = {}
        self.by_tag = {0: ""}

    def tag(self, payload: str) -> int:
        if payload == "":
            return 0
        if payload not in self.by_payload:
            t = len(self.by_payload) + 1
            self.by_payload[payload] = t
            self.by_tag[t] = payload
        return self.by_payload[payload]


def um_hash(um) -> str:
    if not um:
        return ""
    r = repr(tuple(tuple(complex(z) for z in row) for row in um))
    return hashlib.sha1(r.encode()).hexdigest()[:10]


def spec(kind, t=(), c=(), p=(), units=(), um=None):
    return {"kind": kind, "t": list(t), "c": list(c), "p": list(p), "units": list(units), "um": um}


def payload_of_spec(g) -> str:
    s = ""
    if g["units"]:
        s += "u" + ",".join(str(u % TWO_PI) for u in g["units"])
    if g["um"]:
        s += "#" + um_hash(g["um"])
    return s


def grid_units(x: float):
    r = x / UNIT
    k = round(r)
    if abs(r - k) > GRID_TOL:
        return None
    return int(k)


def payload_of_real(g) -> str:
    s = ""
    if len(g.params):
        us = []
        for x in g.params:
            k = grid_units(float(x))
            us.append(str(k % TWO_PI) if k is not None else f"offgrid({float(x)!r})")
        s += "u" + ",".join(us)
    if len(g.unitary_matrix):
        s += "#" + um_hash(g.unitary_matrix)
    return s


def j(xs) -> str:
    return ",".join(str(int(x)) for x in xs)


def enc_spec(g, reg: Registry) -> str:
    return f"{g['kind']}/{j(g['t'])}/{j(g['c'])}/{j(g['p'])}/{reg.tag(payload_of_spec(g))}"


def canon_spec(g) -> str:
    return f"{g['kind']}/{j(g['t'])}/{j(g['c'])}/{j(g['p'])}/{payload_of_spec(g)}"


def canon_real_gate(g) -> str:
    return f"{g.name}/{j(g.target_indices)}/{j(g.control_indices)}/{j(g.pauli_ids)}/{payload_of_real(g)}"


def canon_real_gates(gs) -> str:
    return "+".join(canon_real_gate(g) for g in gs)


def parse_affine(s: str):
    a, b, k = s.split(":")
    return int(a), int(b), int(k)


def canon_model_gates(s: str, reg: Registry, grid=None, affine=False) -> str:
    """model gate list `Kind/t/c/p/tag/params+…` -> canonical string.
    emitted gates carry affine params: evaluated at `grid` = (tθ, tφ) units, or kept symbolic when affine=True"""
    s = s.strip()
    if not s:
        return ""
    out = []
    for part in s.split("+"):
        k, t, c, p, tag, params = part.split("/")
        if params:
            forms = [parse_affine(x) for x in params.split(",")]
            if affine:
                pl = "a" + ",".join(f"{a}:{b}:{(16 * kk) % TWO_PI}" for a, b, kk in forms)
            else:
                pl = "u" + ",".join(str((a * grid[0] + b * grid[1] + 16 * kk) % TWO_PI) for a, b, kk in forms)
        else:
            pl = reg.by_tag[int(tag)]
        out.append(f"{k}/{t}/{c}/{p}/{pl}")
    return "+".join(out)


def real_gate(g):
    from quri_parts.circuit import QuantumGate

    return QuantumGate(name=g["kind"], target_indices=tuple(g["t"]), control_indices=tuple(g["c"]),
                       params=tuple(float(u) * UNIT for u in g["units"]), pauli_ids=tuple(g["p"]),
                       unitary_matrix=tuple(tuple(r) for r in g["um"]) if g["um"] else ())


def real_factory_gate(g):
    """well-formed Pauli-kind gates through the public factories (glue coverage)"""
    from quri_parts.circuit import Pauli, X, Y, Z

    if g["kind"] == "Pauli":
        return Pauli(g["t"], g["p"])
    return {"X": X, "Y": Y, "Z": Z}[g["kind"]](g["t"][0])


def real_seq(form: str, gates):
    """form: L list | T tuple | C<m> QuantumCircuit(m) | F<m> frozen circuit"""
    from quri_parts.circuit import QuantumCircuit

    rg = []
    for g in gates:
        wf = g["kind"] in ("X", "Y", "Z") and len(g["t"]) == 1 or (
            g["kind"] == "Pauli" and len(g["t"]) == len(g["p"]) >= 1 and all(1 <= x <= 3 for x in g["p"])
            and len(set(g["t"])) == len(g["t"]))
        rg.append(real_factory_gate(g) if wf and not g.get("raw") else real_gate(g))
    if form == "L":
        return rg
    if form == "T":
        return tuple(rg)
    m = int(form[1:])
    qc = QuantumCircuit(m)
    for x in rg:
        qc.add_gate(x)
    return qc.freeze() if form[0] == "F" else qc


def canon_model_cb(r: str) -> str:
    """`cb n bits phase` -> phase counter modulo 4 (the property speaks about i^phase)"""
    p = r.split(" ")
    if p and p[0] == "cb" and len(p) >= 4:
        p[3] = str(int(p[3]) % 4)
    return " ".join(p)


def model_form(form: str) -> str:
    return "L" if form in ("L", "T") else "C" + form[1:]


def exc_name(e: BaseException) -> str:
    return f"err {type(e).__name__}"


# ---------------------------------------------------------------------------
# generators
# ---------------------------------------------------------------------------
def rand_n(rng):
    return rng.choice([0, 1, 1, 2, 2, 3, 3, 4, 5, 6, 8, 17, 33, 63, 64, 65, 66, 70])


def rand_bits(rng, n):
    if n == 0:
        return 0
    r = rng.random()
    if r < 0.1:
        return 0
    if r < 0.2:
        return (1 << n) - 1
    return rng.getrandbits(n)


def rand_pauli_gate(rng, n, malformed=False):
    hi = max(n, 1)
    if malformed:
        m = rng.choice(["range", "range-multi", "id0", "id4", "short-ids", "dup", "empty-x", "two-targets"])
        if m == "range":
            return dict(spec(rng.choice(["X", "Y", "Z"]), [n + rng.randint(0, 2)]), raw=True), m
        if m == "range-multi":
            ts = [rng.randrange(hi), n + rng.randint(0, 1)]
            rng.shuffle(ts)
            return dict(spec("Pauli", ts, p=[rng.randint(1, 3), rng.randint(1, 3)]), raw=True), m
        if m in ("id0", "id4"):
            k = rng.randint(1, 3)
            ids = [rng.randint(1, 3) for _ in range(k)]
            ids[rng.randrange(k)] = 0 if m == "id0" else rng.choice([4, 5])
            return dict(spec("Pauli", [rng.randrange(hi) for _ in range(k)], p=ids), raw=True), m
        if m == "short-ids":
            return dict(spec("Pauli", [rng.randrange(hi) for _ in range(3)], p=[rng.randint(1, 3)]), raw=True), m
        if m == "dup":
            q = rng.randrange(hi)
            return dict(spec("Pauli", [q, q], p=[rng.randint(1, 3), rng.randint(1, 3)]), raw=True), m
        if m == "empty-x":
            return dict(spec(rng.choice(["X", "Y", "Z"]), []), raw=True), m
        return dict(spec(rng.choice(["X", "Y", "Z"]), [rng.randrange(hi), rng.randrange(hi)]), raw=True), m
    if n == 0:
        return dict(spec("X", [0]), raw=True), "range"
    if rng.random() < 0.55:
        return spec(rng.choice(["X", "Y", "Z"]), [rng.randrange(n)]), "single"
    k = rng.randint(1, min(n, 4))
    return spec("Pauli", rng.sample(range(n), k), p=[rng.randint(1, 3) for _ in range(k)]), "multi"


def rand_other_gate(rng, n, allow_range_error=True):
    from oracle import dense

    hi = max(n, 1)
    q = list(range(hi))
    k = rng.choice(["one", "one", "rot", "rot", "U2", "U3", "CNOT", "CZ", "SWAP", "TOFFOLI", "PauliRotation", "UM"])
    if k == "one":
        g = spec(rng.choice(ONE_Q), [rng.choice(q)])
    elif k == "rot":
        g = spec(rng.choice(["RX", "RY", "RZ", "U1"]), [rng.choice(q)], units=[rng.randint(-200, 200)])
    elif k == "U2":
        g = spec("U2", [rng.choice(q)], units=[rng.randint(-200, 200) for _ in range(2)])
    elif k == "U3":
        g = spec("U3", [rng.choice(q)], units=[rng.randint(-200, 200) for _ in range(3)])
    elif k in ("CNOT", "CZ") and len(q) >= 2:
        a, b = rng.sample(q, 2)
        g = spec(k, [b], c=[a])
    elif k == "SWAP" and len(q) >= 2:
        g = spec(k, rng.sample(q, 2))
    elif k == "TOFFOLI" and len(q) >= 3:
        a, b, c = rng.sample(q, 3)
        g = spec(k, [c], c=[a, b])
    elif k == "PauliRotation":
        m = rng.randint(1, min(3, len(q)))
        g = spec(k, rng.sample(q, m), p=[rng.randint(1, 3) for _ in range(m)], units=[rng.randint(-200, 200)])
    elif k == "UM":
        u = dense.random_unitary(rng, 2)
        g = spec("UnitaryMatrix", [rng.choice(q)], um=[[complex(z) for z in row] for row in u.tolist()])
    else:
        g = spec("H", [rng.choice(q)])
    if n == 0 or (allow_range_error and rng.random() < 0.06):
        g["t"][0] = n + rng.randint(0, 1)
    return dict(g, raw=True)


def rand_gate_list(rng, n, mode):
    """mode: pauli | mixed | malformed"""
    L = rng.choice([0, 1, 1, 2, 3, 4, 6, 9, 14])
    out, tags = [], []
    for _ in range(L):
        if mode == "pauli" or (mode != "pauli" and rng.random() < 0.6):
            g, t = rand_pauli_gate(rng, n)
        elif mode == "mixed":
            g, t = rand_other_gate(rng, n), "other"
        else:
            g, t = rand_pauli_gate(rng, n, malformed=True)
        out.append(g)
        tags.append(t)
    if mode == "mixed" and out and all(g["kind"] in PAULI_KINDS for g in out):
        out[rng.randrange(len(out))] = rand_other_gate(rng, n, allow_range_error=False)
    if mode == "malformed" and out and rng.random() < 0.8:
        out[rng.randrange(len(out))] = rand_pauli_gate(rng, n, malformed=True)[0]
    return out


def rand_form(rng, n, gates):
    r = rng.random()
    if r < 0.5:
        return "L"
    if r < 0.6:
        return "T"
    need = max([n] + [i + 1 for g in gates for i in g["t"] + g["c"]])
    m = n if rng.random() < 0.7 else rng.choice([need, need + 1, max(need, n + 1)])
    m = max(m, need)
    return rng.choice("CF") + str(m)


# ---------------------------------------------------------------------------
# real evaluation
# ---------------------------------------------------------------------------
def real_cb(n, bits, phase):
    from quri_parts.core.state import ComputationalBasisState

    if phase == 0:
        return ComputationalBasisState(n, bits=bits)
    if hasattr(ComputationalBasisState, "_from_tuple"):
        return ComputationalBasisState._from_tuple((n, bits, phase))
    s = ComputationalBasisState(n, bits=bits)  # private constructor renamed/removed: set the counter directly
    s._phase = phase
    return s


def canon_state(s) -> str:
    """canonical reading of a real state object (reads .circuit only for non-basis states)"""
    try:
        return _canon_state(s)
    except Exception as e:  # noqa: BLE001 – the real object cannot even be read: that is an output
        return f"unreadable {type(e).__name__}"


def _canon_state(s) -> str:
    from quri_parts.core.state import ComputationalBasisState

    if isinstance(s, ComputationalBasisState):
        n, b, p = s._as_tuple()
        if (s.qubit_count, s.bits) != (n, b) or grid_units(s.phase) != 32 * p:
            return f"cb-inconsistent {s!r}"
        return f"cb {n} {b} {p % 4}"
    return f"gen {s.qubit_count} | {canon_real_gates(s.circuit.gates)}"


def real_track(n, bits, phase, form, gates):
    try:
        seq = real_seq(form, gates)
    except Exception as e:  # noqa: BLE001 – cannot even build the argument: not a case
        return None, f"unbuildable {type(e).__name__}"
    try:
        s = real_cb(n, bits, phase)
        out = s.with_gates_applied(seq)
    except Exception as e:  # noqa: BLE001
        return None, exc_name(e)
    return out, canon_state(out)


# ---------------------------------------------------------------------------
# K1: with_gates_applied / with_pauli_gate_applied on basis states
# ---------------------------------------------------------------------------
def small_pauli_gates(n):
    out = []
    for q in range(n + 1):  # n itself: out of range
        for k in "XYZ":
            out.append(dict(spec(k, [q]), raw=q >= n))
    for q in range(n):
        for r in range(n):
            if q != r:
                for p, p2 in itertools.product((1, 2, 3), repeat=2):
                    out.append(spec("Pauli", [q, r], p=[p, p2]))
    return out


def k_track(ctx: Ctx, reg: Registry):
    rng = ctx.rng
    cases = []
    # exhaustive small scope: every basis state × every single Pauli-kind gate (incl. index n), phases 0..3
    for n in range(0, ctx.n(3, 4) + 1):
        for bits in range(1 << n):
            for g in small_pauli_gates(n):
                cases.append((n, bits, (bits + len(g["t"])) % 4, "L", [g], "exhaustive"))
    for c in corpus_cases("track"):
        cases.append((c["n"], c["bits"], c["phase"], c["form"], c["gates"], "corpus"))
    for _ in range(ctx.n(500, 30000)):
        n = rand_n(rng)
        mode = rng.choices(["pauli", "mixed", "malformed"], [55, 30, 15])[0]
        gates = rand_gate_list(rng, n, mode)
        cases.append((n, rand_bits(rng, n), rng.choice([0, 0, 1, 2, 3, -1, -7, 5, 1001, -4000]), rand_form(rng, n, gates), gates, mode))
    reqs = [f"c16track {n} {b} {p} | {model_form(f)} | " + "+".join(enc_spec(g, reg) for g in gs) for n, b, p, f, gs, _ in cases]
    resp = ctx.driver(reqs, entry=ENTRY)
    for (n, bits, phase, form, gates, mode), req, r in zip(cases, reqs, resp):
        if r == "bad-request":
            raise InfraError(f"driver rejected {req[:200]}")
        out, real = real_track(n, bits, phase, form, gates)
        if real.startswith("unbuildable"):
            ctx.count("track.skipped", real)
            continue
        model = canon_model_cb(r)
        if r.startswith("gen "):
            head, gs = r.split("|", 1)
            model = head.strip() + " | " + canon_model_gates(gs, reg)
        ctx.traces += 1
        ctx.count("track.mode", mode)
        ctx.count("track.form", form[0])
        ctx.count("track.n", "0" if n == 0 else "1-6" if n <= 6 else "7-64" if n <= 64 else ">64")
        ctx.count("track.outcome", model.split(" ")[0] + (" " + model.split(" ")[1] if model.startswith("err") else ""))
        canon = ("track", n, bits, phase, form, tuple(canon_spec(g) for g in gates))
        ctx.case(canon, nontrivial=bool(gates), sample={"kind": "track", "req": req[:200], "real": real[:160]} if mode != "exhaustive" else None)
        if model != real:
            ctx.disagree("with_gates_applied", {"kind": "track", "n": n, "bits": bits, "phase": phase, "form": form,
                                                "gates": strip_raw(gates)}, real[:400], model[:400])
        # with_pauli_gate_applied: the same single gate through the other entry point
        if len(gates) == 1 and form == "L" and gates[0]["kind"] in PAULI_KINDS:
            try:
                o2 = canon_state(real_cb(n, bits, phase).with_pauli_gate_applied(real_seq("L", gates)[0]))
            except Exception as e:  # noqa: BLE001
                o2 = exc_name(e)
            if o2 != real:
                ctx.disagree("with_pauli_gate_applied-vs-with_gates_applied", {"n": n, "bits": bits, "phase": phase, "gates": strip_raw(gates)}, o2, real)


def strip_raw(gates):
    return [{k: v for k, v in g.items() if k != "raw"} for g in gates]


def k_pauli_entry(ctx: Ctx, reg: Registry):
    """with_pauli_gate_applied incl. non-Pauli and malformed gates"""
    rng = ctx.rng
    cases = []
    for _ in range(ctx.n(120, 2500)):
        n = rand_n(rng)
        r = rng.random()
        g = rand_pauli_gate(rng, n)[0] if r < 0.5 else rand_pauli_gate(rng, n, malformed=True)[0] if r < 0.8 else rand_other_gate(rng, n)
        cases.append((n, rand_bits(rng, n), rng.randint(-5, 5), g))
    reqs = [f"c16pauli {n} {b} {p} | {enc_spec(g, reg)}" for n, b, p, g in cases]
    resp = ctx.driver(reqs, entry=ENTRY)
    for (n, bits, phase, g), r in zip(cases, resp):
        try:
            real = canon_state(real_cb(n, bits, phase).with_pauli_gate_applied(real_seq("L", [g])[0]))
        except Exception as e:  # noqa: BLE001
            real = exc_name(e)
        ctx.traces += 1
        ctx.count("pauli_entry.outcome", " ".join(r.split(" ")[:2]) if r.startswith("err") else "cb")
        ctx.case(("pauli", n, bits, phase, canon_spec(g)), nontrivial=True)
        r = canon_model_cb(r)
        if r != real:
            ctx.disagree("with_pauli_gate_applied", {"n": n, "bits": bits, "phase": phase, "gate": strip_raw([g])[0]}, real, r)


# ---------------------------------------------------------------------------
# K2: comp_basis_superposition, gate for gate, angles as affine forms in (θ, φ)
# ---------------------------------------------------------------------------
def real_sup_affine(sa, sb, extra_probe):
    """-> canonical string: `ok n | gates` with every angle as `a<cθ>:<cφ>:<c0 units>` (recovered from probes at
    (0,0), (1,0), (0,1) grid units and confirmed at `extra_probe`), or `err Class`"""
    from quri_parts.core.state import comp_basis_superposition

    probes = [(0, 0), (1, 0), (0, 1), extra_probe]
    outs = []
    for tt, tp in probes:
        try:
            st = comp_basis_superposition(real_cb(*sa), real_cb(*sb), tt * UNIT, tp * UNIT)
            outs.append((st.qubit_count, st.circuit.qubit_count, list(st.circuit.gates)))
        except Exception as e:  # noqa: BLE001
            outs.append(exc_name(e))
    if any(isinstance(o, str) for o in outs):
        if all(o == outs[0] for o in outs):
            return outs[0]
        return f"angle-dependent-exception {outs}"
    n0, cn0, g0 = outs[0]
    if n0 != cn0:
        return f"qubit-count-mismatch {n0} {cn0}"
    parts = []
    for i, g in enumerate(g0):
        cols = []
        for (n_, cn_, gs) in outs:
            if (n_, cn_) != (n0, cn0) or len(gs) != len(g0):
                return "angle-dependent-structure"
            h = gs[i]
            if (h.name, tuple(h.target_indices), tuple(h.control_indices), tuple(h.pauli_ids)) != (
                    g.name, tuple(g.target_indices), tuple(g.control_indices), tuple(g.pauli_ids)) or len(h.params) != len(g.params):
                return "angle-dependent-structure"
            cols.append([grid_units(float(x)) for x in h.params])
        if any(u is None for col in cols for u in col):
            return f"offgrid-angle gate {i}: {[tuple(h.params) for h in [o[2][i] for o in outs]]}"
        forms = []
        for k in range(len(g.params)):
            c0 = cols[0][k]
            a = cols[1][k] - c0
            b = cols[2][k] - c0
            if cols[3][k] != a * extra_probe[0] + b * extra_probe[1] + c0:
                return f"non-affine-angle gate {i}"
            forms.append(f"{a}:{b}:{c0 % TWO_PI}")
        pl = ("a" + ",".join(forms)) if forms else ""
        parts.append(f"{g.name}/{j(g.target_indices)}/{j(g.control_indices)}/{j(g.pauli_ids)}/{pl}")
    return f"ok {n0} | " + "+".join(parts)


def rand_sup_pair(rng):
    n = rand_n(rng)
    a = rand_bits(rng, n)
    kind = rng.choices(["random", "equal", "one-bit", "high-only", "low-and-high", "other-n"], [40, 8, 20, 12, 12, 8])[0]
    nb = n
    if kind == "random":
        b = rand_bits(rng, n)
    elif kind == "equal" or n == 0:
        b = a
    elif kind == "one-bit":
        b = a ^ (1 << rng.randrange(n))
    elif kind == "high-only":
        b = a ^ ((rng.getrandbits(n - 64) or 1) << 64) if n > 64 else a ^ (1 << (n - 1))
    elif kind == "low-and-high":
        b = a ^ (1 << (n - 1)) ^ (1 << rng.randrange(n))
    else:
        nb = rng.choice([x for x in (n - 1, n + 1, n + 3) if x >= 0])
        b = rand_bits(rng, nb)
    pa = rng.choice([0, 0, 1, 2, 3, -1, -2, 5, 9, 130, -77])
    pb = rng.choice([0, 0, 1, 2, 3, -1, -3, 6, 8, 131, -78])
    return (n, a, pa), (nb, b, pb), kind


def k_sup(ctx: Ctx, reg: Registry):
    rng = ctx.rng
    cases = []
    for n in range(0, ctx.n(3, 4) + 1):
        for a in range(1 << n):
            for b in range(1 << n):
                for pa, pb in ([(0, 0), (1, 0), (0, 1), (2, 3), (-1, 2)] if ctx.quick() or n == 4 else
                               list(itertools.product(range(-1, 4), repeat=2))):
                    cases.append(((n, a, pa), (n, b, pb), "exhaustive"))
    for c in corpus_cases("sup"):
        cases.append((tuple(c["a"]), tuple(c["b"]), "corpus"))
    for _ in range(ctx.n(400, 20000)):
        cases.append(rand_sup_pair(rng))
    reqs = [f"c16sup {sa[0]} {sa[1]} {sa[2]} | {sb[0]} {sb[1]} {sb[2]}" for sa, sb, _ in cases]
    resp = ctx.driver(reqs, entry=ENTRY)
    for (sa, sb, kind), req, r in zip(cases, reqs, resp):
        if r == "bad-request":
            raise InfraError(f"driver rejected {req}")
        model = r
        if r.startswith("ok "):
            head, gs = r.split("|", 1)
            model = head.strip() + " | " + canon_model_gates(gs, reg, affine=True)
        real = real_sup_affine(sa, sb, (rng.randint(-90, 90), rng.randint(-90, 90)))
        ctx.traces += 1
        ctx.count("sup.kind", kind)
        ctx.count("sup.outcome", model.split("|")[0].split(" ")[0] + ("" if model.startswith("ok") else " " + model.split(" ")[1]))
        ctx.count("sup.n", "0" if sa[0] == 0 else "1-6" if sa[0] <= 6 else "7-64" if sa[0] <= 64 else ">64")
        ctx.case(("sup", sa, sb), nontrivial=sa[1] != sb[1],
                 sample={"kind": "sup", "a": sa, "b": sb, "real": real[:200]} if kind != "exhaustive" else None)
        if model != real:
            ctx.disagree("comp_basis_superposition", {"kind": "sup", "a": list(sa), "b": list(sb)}, real[:500], model[:500])


# ---------------------------------------------------------------------------
# K3: lowest_bit_index / different_bit_index
# ---------------------------------------------------------------------------
def k_low(ctx: Ctx):
    from quri_parts.core.utils import bit as B

    rng = ctx.rng
    xs = [0, 1, 2, 3, 1 << 63, 1 << 64, (1 << 64) + (1 << 63), 1 << 65, (1 << 70) - (1 << 64), 1 << 200]
    for _ in range(ctx.n(150, 3000)):
        sh = rng.choice([0, 0, 1, 5, 31, 62, 63, 64, 65, 69])
        xs.append(rng.getrandbits(rng.choice([1, 4, 16, 64, 70])) << sh)
    resp = ctx.driver([f"c16low {x}" for x in xs], entry=ENTRY)
    for x, r in zip(xs, resp):
        try:
            real = f"ok {B.lowest_bit_index(x)}"
        except Exception as e:  # noqa: BLE001
            real = exc_name(e)
        ctx.traces += 1
        ctx.count("low.outcome", r.split(" ")[0] + ("" if r.startswith("ok") else " " + r.split(" ")[1]))
        ctx.case(("low", x), nontrivial=x != 0)
        if r != real:
            ctx.disagree("lowest_bit_index", {"x": x}, real, r)
        y = rng.getrandbits(70)
        try:
            d1 = f"ok {B.different_bit_index(x ^ y, y)}"
        except Exception as e:  # noqa: BLE001
            d1 = exc_name(e)
        if d1 != real:
            ctx.disagree("different_bit_index", {"x": x ^ y, "y": y}, d1, real)
        for i in (0, 1, 63, 64, 69):
            try:
                gb = B.get_bit(x, i)
            except Exception as e:  # noqa: BLE001
                gb = exc_name(e)
            if gb != bool((x >> i) & 1) or not isinstance(gb, bool):
                ctx.disagree("get_bit", {"x": x, "i": i}, str(gb), str(bool((x >> i) & 1)))


# ---------------------------------------------------------------------------
# K4: derivation histories on real objects
# ---------------------------------------------------------------------------
class RealStore:
    def __init__(self, grid):
        self.objs = []
        self.vecs = {}
        self.seen = set()
        self.grid = grid
        self.snap = []  # canonical reading of every object at creation (purity check on the real code)
        self.hashes = []  # hash of every object when first observed

    def observe(self):
        """side-effect-free observers between the steps (hash, repr, ==) on every object -> indices whose hash changed"""
        changed = []
        for i, o in enumerate(self.objs):
            try:
                h = hash(o)
                repr(o)
                o == o  # noqa: B015
            except Exception as e:  # noqa: BLE001
                h = f"unobservable {type(e).__name__}"
            if i < len(self.hashes):
                if self.hashes[i] != h:
                    changed.append((i, self.hashes[i], h))
                    self.hashes[i] = h
            else:
                self.hashes.append(h)
        return changed

    def read(self, o, force_circuit=False) -> str:
        try:
            return self._read(o, force_circuit)
        except Exception as e:  # noqa: BLE001
            return f"unreadable {type(e).__name__}"

    def _read(self, o, force_circuit=False) -> str:
        from quri_parts.core.state import ComputationalBasisState, QuantumStateVector

        if isinstance(o, ComputationalBasisState):
            cached = "circuit" in o.__dict__
            gs = canon_real_gates(o.circuit.gates) if (cached or force_circuit) else "?"
            return f"{canon_state(o)} {1 if cached else 0} {gs}"
        if isinstance(o, QuantumStateVector):
            import numpy as np

            vid = [k for k, v in self.vecs.items() if np.array_equal(o.vector, v)]
            return f"vec {o.qubit_count} {vid[0] if len(vid) == 1 else 'unknown'} {canon_real_gates(o.circuit.gates)}"
        return f"gen {o.qubit_count} {canon_real_gates(o.circuit.gates)}"

    def apply(self, op):
        import numpy as np

        from quri_parts.core.state import ComputationalBasisState, QuantumStateVector, comp_basis_superposition

        k = op[0]
        try:
            if k == "mk":
                new = ComputationalBasisState(op[1], bits=op[2])
            elif k == "vec":
                v = np.zeros(1 << op[1], dtype=np.complex128)
                v[op[2] % (1 << op[1])] = 1.0
                v[0] += 0.5 * (op[2] + 1)
                self.vecs[op[2]] = v.copy()
                new = QuantumStateVector(op[1], v)
            elif k == "derive":
                new = self.objs[op[1]].with_gates_applied(real_seq(op[2], op[3]))
            elif k == "pauli":
                new = self.objs[op[1]].with_pauli_gate_applied(real_seq("L", [op[2]])[0])
            elif k == "touch":
                self.objs[op[1]].circuit  # noqa: B018
                new = None
            else:
                new = comp_basis_superposition(self.objs[op[1]], self.objs[op[2]], self.grid[0] * UNIT, self.grid[1] * UNIT)
        except Exception as e:  # noqa: BLE001
            return exc_name(e)
        if new is not None:
            self.objs.append(new)
        return "ok"


def enc_op(op, reg: Registry) -> str:
    k = op[0]
    if k == "mk":
        return f"mk {op[1]} {op[2]}"
    if k == "vec":
        return f"vec {op[1]} {op[2]}"
    if k == "derive":
        gs = "+".join(enc_spec(g, reg) for g in op[3])
        return f"derive {op[1]} {model_form(op[2])}" + (f" {gs}" if gs else "")
    if k == "pauli":
        return f"pauli {op[1]} {enc_spec(op[2], reg)}"
    if k == "touch":
        return f"touch {op[1]}"
    return f"sup {op[1]} {op[2]}"


def rand_history(rng):
    """operations are drawn while a scratch copy of the real store is advanced, so that most sources exist"""
    n = rng.choice([1, 2, 3, 3, 4, 5, 66])
    dry = RealStore((3, 5))
    ops = []

    def push(op):
        ops.append(op)
        dry.apply(op)

    push(("mk", n, rand_bits(rng, n)))
    if rng.random() < 0.5:
        push(("mk", n if rng.random() < 0.85 else n + 1, rand_bits(rng, n)))
    if n <= 5 and rng.random() < 0.4:
        push(("vec", n, rng.randrange(1 << n)))
    for _ in range(rng.randint(2, 10)):
        r = rng.random()
        count = len(dry.objs)
        src = rng.randrange(count) if rng.random() > 0.04 else count + rng.randint(0, 1)
        if r < 0.45:
            mode = rng.choices(["pauli", "mixed", "malformed"], [55, 35, 10])[0]
            gates = rand_gate_list(rng, n, mode)[:5]
            form = rand_form(rng, n, gates)
            try:
                real_seq(form, gates)
            except Exception:  # noqa: BLE001 – argument cannot be built (e.g. circuit rejects the gate): use a list
                form = "L"
            push(("derive", src, form, gates))
        elif r < 0.6:
            g = rand_pauli_gate(rng, n, malformed=rng.random() < 0.15)[0] if rng.random() < 0.85 else rand_other_gate(rng, n)
            push(("pauli", src, g))
        elif r < 0.75:
            push(("touch", src))
        elif r < 0.93:
            push(("sup", src, rng.randrange(count) if rng.random() > 0.03 else count))
        else:
            push(("mk", n, rng.choice([-1, 1 << n, rand_bits(rng, n)])))
    return n, ops


def k_hist(ctx: Ctx, reg: Registry):
    rng = ctx.rng
    hists = []
    for c in corpus_cases("hist"):
        hists.append((tuple(c["grid"]), [tuple(o) for o in c["ops"]]))
    for _ in range(ctx.n(150, 6000)):
        n, ops = rand_history(rng)
        hists.append(((rng.randint(-64, 64), rng.randint(-64, 64)), ops))
    # the model needs valid object indices only as naturals; an out-of-range source is IndexError on both sides
    reqs = ["c16hist " + ";".join(enc_op(op, reg) for op in ops) for _, ops in hists]
    resp = ctx.driver(reqs, entry=ENTRY)
    for (grid, ops), req, r in zip(hists, reqs, resp):
        if r == "bad-request":
            raise InfraError(f"driver rejected {req[:300]}")
        steps = r.split(" # ")
        store = RealStore(grid)
        ctx.traces += 1
        ctx.case(("hist", grid, req), nontrivial=True, sample={"kind": "hist", "ops": req[:240]})
        bad = None
        for si, (op, step) in enumerate(zip(ops, steps)):
            status, _, obs = step.partition(" | ")
            real_status = store.apply(op)
            ctx.count("hist.op", op[0] + ":" + real_status.replace("err ", ""))
            for oi, h0, h1 in store.observe():
                ctx.witness("derive-mutates-original", "hash() of an existing state object changed after a later operation",
                            {"ops": req, "grid": list(grid), "step": si, "object": oi}, {"before": str(h0), "after": str(h1)})
            if real_status != status.strip():
                bad = (si, "status", real_status, status)
                break
            mobjs = [o.strip() for o in obs.split(" ~ ")] if obs.strip() else []
            if len(mobjs) != len(store.objs):
                bad = (si, "object-count", len(store.objs), len(mobjs))
                break
            last = si == len(ops) - 1
            for oi, (mo, ro) in enumerate(zip(mobjs, store.objs)):
                real_read = store.read(ro, force_circuit=last)
                rparts = real_read.split(" ")
                # purity on the real code alone: an existing object reads as it did when it was created
                head, gates_now = split_read(real_read)
                if oi < len(store.snap):
                    h0, g0 = store.snap[oi]
                    if h0 != head or (g0 != "?" and gates_now != "?" and g0 != gates_now):
                        ctx.witness("derive-mutates-original", "an existing state object reads differently after a later operation",
                                    {"ops": req, "grid": list(grid), "step": si, "object": oi},
                                    {"before": f"{h0} {g0}"[:300], "after": f"{head} {gates_now}"[:300]})
                        store.snap[oi] = (head, gates_now)
                    elif g0 == "?":
                        store.snap[oi] = (head, gates_now)
                else:
                    store.snap.append((head, gates_now))
                if rparts[0] == "cb" and gates_now != "?" and (oi, gates_now) not in store.seen:
                    # the property on the real object alone: a basis state's circuit prepares |bits> (independent simulation)
                    store.seen.add((oi, gates_now))
                    from oracle import c16_state as orc

                    try:
                        w = orc.sparse_run(ro.circuit.gates, None)
                        dfc = orc.sparse_phase_defect(w, orc.sparse_basis(ro.bits, 0)) if w is not None else 9.0
                    except Exception:  # noqa: BLE001
                        dfc = 9.0
                    if dfc > NUM_TOL:
                        ctx.witness("basis-circuit", "ComputationalBasisState.circuit does not prepare the tracked basis state",
                                    {"ops": req, "grid": list(grid), "step": si, "object": oi}, {"read": real_read[:300]})
                mparts = mo.split(" ")
                if mparts[0] != rparts[0]:
                    bad = (si, f"object {oi}", real_read, mo)
                    break
                if mparts[0] == "cb":
                    mparts[3] = str(int(mparts[3]) % 4)
                    gs = canon_model_gates(mparts[5] if len(mparts) > 5 else "", reg, grid)
                    cached = mparts[4] if not last else rparts[4]
                    model_read = " ".join(mparts[:4]) + f" {cached} " + (gs if (mparts[4] == "1" or last) else "?")
                elif mparts[0] == "gen":
                    model_read = f"gen {mparts[1]} " + canon_model_gates(mparts[2] if len(mparts) > 2 else "", reg, grid)
                else:
                    model_read = f"vec {mparts[1]} {mparts[2]} " + canon_model_gates(mparts[3] if len(mparts) > 3 else "", reg, grid)
                if model_read != real_read:
                    bad = (si, f"object {oi}", real_read, model_read)
                    break
            if bad:
                break
        if bad:
            ctx.disagree("history", {"kind": "hist", "grid": list(grid), "ops": [list(strip_op(o)) for o in ops], "request": req},
                         f"step {bad[0]} {bad[1]}: {str(bad[2])[:300]}", str(bad[3])[:300])


def split_read(read: str):
    """(identity part, circuit gates or '?') of a canonical reading"""
    p = read.split(" ")
    if p[0] == "cb":
        return " ".join(p[:4]), " ".join(p[5:])
    if p[0] == "vec":
        return " ".join(p[:3]), " ".join(p[3:])
    return " ".join(p[:2]), " ".join(p[2:])


def strip_op(op):
    if op[0] == "derive":
        return (op[0], op[1], op[2], strip_raw(op[3]))
    if op[0] == "pauli":
        return (op[0], op[1], strip_raw([op[2]])[0])
    return op


# ---------------------------------------------------------------------------
# validation of the rewriting semantics against numpy (on the circuits the REAL code emits)
# ---------------------------------------------------------------------------
def k_sem(ctx: Ctx):
    import numpy as np

    from quri_parts.core.state import comp_basis_superposition

    from oracle import c16_state as orc

    rng = ctx.rng
    cases = []
    for _ in range(ctx.n(60, 800)):
        n = rng.randint(1, 6)
        a, b = rand_bits(rng, n), rand_bits(rng, n)
        pa, pb = rng.randint(-4, 9), rng.randint(-4, 9)
        real = real_sup_affine((n, a, pa), (n, b, pb), (7, -5))
        if not real.startswith("ok"):
            continue
        gs = real.split("|", 1)[1].strip()
        enc = []
        for part in gs.split("+") if gs else []:
            k, t, c, p, pl = part.split("/")
            aff = ""
            if pl:
                ca, cb_, c0 = pl[1:].split(":")
                if int(c0) % 16:
                    aff = None
                    break
                aff = f"{ca}:{cb_}:{int(c0) // 16}"
            enc.append(f"{k}/{t}/{p}/{aff}")
        else:
            cases.append((n, a, pa, b, pb, "+".join(enc)))
    resp = ctx.driver([f"c16run {c[5]}" for c in cases], entry=ENTRY)
    worst = 0.0
    for (n, a, pa, b, pb, enc), r in zip(cases, resp):
        if r in ("bad-request", "unsupported"):
            ctx.disagree("sparse-semantics-unsupported", {"n": n, "a": a, "b": b, "gates": enc}, "real code emitted it", r)
            continue
        theta, phi = rng.uniform(-7, 7), rng.uniform(-7, 7)
        k, _, terms = r.partition(" | ")
        v = np.zeros(1 << n, dtype=complex)
        for t in terms.split(" "):
            if t:
                idx, _, poly = t.partition("=")
                v[int(idx)] += qp.eval_poly(poly, [theta, phi])
        v /= 2 ** int(k)
        try:
            st = comp_basis_superposition(real_cb(n, a, pa), real_cb(n, b, pb), theta, phi)
            w = orc.run_circuit(n, st.circuit.gates)
        except Exception as e:  # noqa: BLE001
            ctx.disagree("sparse-semantics-vs-numpy", {"n": n, "a": a, "pa": pa, "b": b, "pb": pb, "theta": theta, "phi": phi}, exc_name(e), r[:300])
            continue
        d = orc.phase_defect(v, w)  # angles were reduced modulo 2π: equality up to a global sign
        worst = max(worst, d)
        ctx.traces += 1
        ctx.case(("sem", n, a, pa, b, pb), nontrivial=a != b)
        if d > NUM_TOL:
            ctx.disagree("sparse-semantics-vs-numpy", {"n": n, "a": a, "pa": pa, "b": b, "pb": pb, "theta": theta, "phi": phi}, f"numpy state differs by {d:.3g}", r[:300])
    ctx.extra["sparse_semantics_validation"] = {"cases": len(cases), "worst_abs_diff": worst}


# ---------------------------------------------------------------------------
# the property itself on the REAL code against the independent oracle
# ---------------------------------------------------------------------------
def describe_gates(gates):
    return strip_raw(gates)


QUARTER = math.pi / 4


def rand_angle(rng):
    """a real angle for the real-code oracle: a generic float, or exactly / almost on the special grids where
    trigonometric shortcuts and isclose-style thresholds switch (multiples of π/4 over several turns, the π/64 grid,
    a grid point ± a tiny offset on either side of the usual 1e-8 tolerances)"""
    r = rng.random()
    if r < 0.4:
        return rng.uniform(-7, 7)
    if r < 0.8:
        return rng.randint(-16, 16) * QUARTER
    if r < 0.9:
        return rng.randint(-128, 128) * UNIT
    return rng.randint(-8, 8) * QUARTER + rng.choice([-1, 1]) * rng.choice([1e-12, 1e-9, 1e-7, 1e-5])


def counter_history(bits, q, p):
    """Pauli specs that leave `bits` unchanged and advance the phase counter by p quarter turns: (X·Y on qubit q)^k,
    X·Y|0> = i|0>, X·Y|1> = −i|1>"""
    k = p % 4 if not (bits >> q) & 1 else (-p) % 4
    return [spec("Y", [q]), spec("X", [q])] * k


def k_sup_grid(ctx: Ctx):
    """comp_basis_superposition on the REAL code against the dense oracle, exhaustively on the special values: every
    pair a ≠ b on 1–2 (thorough: 3) qubits × every pair of phase counters mod 4 × θ, φ on the π/4 grid (so that the
    total relative phase φ + (pb − pa)π/2 takes every multiple of π/4, from every decomposition) and just off it"""
    from quri_parts.core.state import ComputationalBasisState, comp_basis_superposition

    from oracle import c16_state as orc

    rng = ctx.rng
    thetas = [QUARTER, 0.7] if ctx.quick() else [QUARTER, 0.7, -QUARTER, 3 * QUARTER, math.pi / 8, 5 * QUARTER]
    ks = range(-4, 5) if ctx.quick() else range(-8, 9)
    phis = [k * QUARTER for k in ks] + [k * QUARTER + e for k in (-2, 0, 2, 6) for e in (1e-9, -1e-7)]
    n_eval = 0
    for n in range(1, ctx.n(2, 3) + 1):
        pairs = [(a, b) for a in range(1 << n) for b in range(1 << n) if a != b]
        if n == 3:
            pairs = rng.sample(pairs, 16)
        for a, b in pairs:
            for pa, pb in itertools.product(range(4), repeat=2):
                ha = counter_history(a, rng.randrange(n), pa)
                hb = counter_history(b, rng.randrange(n), pb)
                ta = rand_bits_type(rng, n, p=0.6)
                tb = rand_bits_type(rng, n, partner=ta, p=0.6)
                ok, ss = attempt(lambda: (ComputationalBasisState(n, bits=as_bits(ta, a)).with_gates_applied(real_seq("L", ha)),
                                          ComputationalBasisState(n, bits=as_bits(tb, b)).with_gates_applied(real_seq("L", hb))))
                if not ok:
                    ctx.witness("pauli-track-rejects", f"a valid Pauli gate list is rejected: {ss}", {"n": n, "a": a, "b": b, "bits_types": [ta, tb], "gates_a": describe_gates(ha), "gates_b": describe_gates(hb)})
                    continue
                sa, sb = ss
                copies = []
                okc, cc = attempt(lambda: (rand_copy(rng, sa, copies, "state a") if rng.random() < 0.3 else sa,
                                           rand_copy(rng, sb, copies, "state b") if rng.random() < 0.3 else sb))
                if not okc:
                    ctx.witness("copy-rejects", f"copying a state handle failed: {cc}", {"n": n, "a": [a, pa], "b": [b, pb], "bits_types": [ta, tb],
                                                                                         "gates_a": describe_gates(ha), "gates_b": describe_gates(hb)})
                    continue
                if read_descr(ss[0]) == (n, a, pa) and read_descr(ss[1]) == (n, b, pb) and (read_descr(cc[0]), read_descr(cc[1])) != ((n, a, pa), (n, b, pb)):
                    ctx.witness("copy-changes-state", f"the originals read {(n, a, pa)} and {(n, b, pb)}, after copying ({copies}) the handles read {read_descr(cc[0])} and {read_descr(cc[1])}",
                                {"n": n, "bits_types": [ta, tb], "gates_a": describe_gates(ha), "gates_b": describe_gates(hb), "copies": copies})
                    continue
                sa, sb = cc
                if read_descr(sa) != (n, a, pa) or read_descr(sb) != (n, b, pb):
                    ctx.witness("pauli-track", f"(X·Y)^k histories: expected {(n, a, pa)} and {(n, b, pb)}, got {read_descr(sa)} and {read_descr(sb)}",
                                {"n": n, "bits_types": [ta, tb], "gates_a": describe_gates(ha), "gates_b": describe_gates(hb), "copies": copies})
                    continue
                for theta in thetas:
                    for phi in phis:
                        inp = {"n": n, "a": [a, pa], "b": [b, pb], "bits_types": [ta, tb], "copies": copies, "theta": theta, "phi": phi,
                               "total_relative_phase_quarter_turns": phi / (2 * QUARTER) + pb - pa}
                        ok, st = attempt(lambda: comp_basis_superposition(sa, sb, theta, phi))
                        n_eval += 1
                        if not ok:
                            ctx.witness("superposition-rejects", f"comp_basis_superposition raised {st} on same-size states", inp)
                            continue
                        okv, d = attempt(lambda: orc.phase_defect(orc.run_circuit(n, st.circuit.gates), orc.superposition_target(n, a, pa, b, pb, theta, phi)))
                        if not okv or d > NUM_TOL or st.qubit_count != n:
                            ctx.witness("superposition-state",
                                        "the circuit does not prepare cosθ·i^pa|a> + e^(iφ)sinθ·i^pb|b> up to a global phase (defect "
                                        + (f"{d:.3g}" if okv else str(d)) + ")",
                                        dict(inp, circuit=canon_real_gates(st.circuit.gates)[:400]))
    ctx.count("sup_grid.evaluations", None, n_eval)
    ctx.evaluations += n_eval


def build_phase_history(rng, n, bits, want_len):
    """a list of well-formed Pauli-kind gates (public factories) to reach interesting phase counters"""
    return [rand_pauli_gate(rng, n)[0] for _ in range(want_len)] if n > 0 else []


def oracle_repeated_targets(ctx: Ctx):
    """always-run, seed-independent: a multi-qubit Pauli gate whose target list REPEATS a qubit (accepted by the public
    factory `Pauli`) is read as the product of its single-qubit factors in list order, first factor applied first - the
    reading under which the unchanged bookkeeping is exact.  Every such gate with 2 or 3 factors on n ≤ 3 qubits, every id
    combination, every start pattern.  A code that REFUSES such a gate is not judged (counted only)."""
    from quri_parts.core.state import ComputationalBasisState

    from oracle import c16_state as orc

    for n in (1, 2, 3):
        for k in (2, 3):
            for targets in itertools.product(range(n), repeat=k):
                if len(set(targets)) == k:
                    continue
                for ids in itertools.product((1, 2, 3), repeat=k):
                    g = spec("Pauli", list(targets), p=list(ids))
                    for bits in range(1 << n):
                        try:
                            s = ComputationalBasisState(n, bits=bits).with_gates_applied(real_seq("L", [g]))
                            n1, b1, p1 = s._as_tuple()
                        except Exception as e:  # noqa: BLE001
                            ctx.count("oracle.repeated_target", "refused:" + type(e).__name__)
                            continue
                        ctx.evaluations += 1
                        v = orc.basis(n, bits, 0)
                        for q, pid in zip(targets, ids):
                            v = orc.apply_single_pauli(v, n, pid, q)
                        want = orc.basis(n, int(b1), p1) if 0 <= int(b1) < (1 << n) and n1 == n else None
                        d = 1.0 if want is None else float(abs(v - want).max())
                        ctx.count("oracle.repeated_target", "ok" if d <= NUM_TOL else "MISMATCH")
                        if d > NUM_TOL:
                            ctx.witness("pauli-track-repeated-target",
                                        f"(bits, phase) = ({int(b1)}, {p1}) is not the product of the gate's single-qubit factors applied in list "
                                        f"order to |{bits:0{n}b}> (max diff {d:.3g})",
                                        {"n": n, "bits": bits, "gates": describe_gates([g])}, {"got_bits": int(b1), "got_phase": p1})
                            break


def oracle_search(ctx: Ctx, budget_s: float, min_iter: int):
    """the property on the REAL code: dense numpy vectors for n ≤ 6, a dict-based sparse simulation above"""
    import numpy as np

    from quri_parts.core.state import ComputationalBasisState, comp_basis_superposition

    from oracle import c16_state as orc

    rng = ctx.rng
    t0 = time.time()
    it = n_eval = 0
    worst = {"pauli": 0.0, "sup": 0.0, "general": 0.0}

    def vec_of(n, gates, start_bits=None, start_phase=0):
        """state after `gates` (from |0…0> or from i^phase|bits>) as a dict index -> amplitude"""
        if n <= 6:
            v = orc.run_circuit(n, gates, None if start_bits is None else orc.basis(n, start_bits, start_phase))
            return {i: complex(z) for i, z in enumerate(v) if abs(z) > 1e-14}
        return orc.sparse_run(gates, None if start_bits is None else orc.sparse_basis(start_bits, start_phase))

    def one_iteration():
        nonlocal n_eval
        mode = rng.choice(["pauli", "sup", "sup", "general", "reject"])
        n = rng.randint(1, 6) if (mode == "general" or rng.random() < 0.7) else rng.choice([9, 20, 63, 64, 65, 70])
        bits = rand_bits(rng, n)
        hist = build_phase_history(rng, n, bits, rng.randint(0, 8))
        bt = rand_bits_type(rng, n)
        if mode == "reject":
            # exactly the lists with an index ≥ n have no meaning on an n-qubit register: they must be refused
            bad_gate = rand_pauli_gate(rng, n, malformed=True)
            while bad_gate[1] not in ("range", "range-multi"):
                bad_gate = rand_pauli_gate(rng, n, malformed=True)
            gl = list(hist)
            gl.insert(rng.randint(0, len(gl)), bad_gate[0])
            try:
                out = ComputationalBasisState(n, bits=as_bits(bt, bits)).with_gates_applied(real_seq("L", gl))
                ctx.count("oracle.reject", "ACCEPTED")
                ctx.witness("accepts-out-of-range-gate", f"a Pauli gate on a qubit index ≥ qubit_count={n} was accepted: result {out!r}"[:300],
                            {"n": n, "bits": bits, "bits_type": bt, "gates": describe_gates(gl)})
            except Exception as e:  # noqa: BLE001
                ctx.count("oracle.reject", type(e).__name__)
            n_eval += 1
            return
        copies = []
        try:
            # a derivation chain: the list is applied in random chunks, each parent possibly inspected (.circuit) first
            s = ComputationalBasisState(n, bits=as_bits(bt, bits))
            chain = rng.random() < 0.5
            k0 = 0
            while True:
                k1 = rng.randint(k0 + 1, len(hist)) if (chain and k0 < len(hist)) else len(hist)
                if chain and rng.random() < 0.5:
                    s.circuit  # noqa: B018
                chunk = hist[k0:k1]
                if chain and len(chunk) == 1 and rng.random() < 0.5:
                    s = s.with_pauli_gate_applied(real_seq("L", chunk)[0])
                else:
                    s = s.with_gates_applied(real_seq(rng.choice("LT"), chunk))
                k0 = k1
                if rng.random() < 0.2:
                    s = rand_copy(rng, s, copies, f"after {k0} gates")
                if k0 >= len(hist):
                    break
        except Exception as e:  # noqa: BLE001
            ctx.witness(reject_key(exc_name(e)), f"a valid Pauli gate list (handles copied as listed) is rejected: {exc_name(e)} {e if isinstance(e, CopyFailed) else ''}",
                        {"n": n, "bits": bits, "bits_type": bt, "gates": describe_gates(hist), "copies": copies})
            return
        n_eval += 1
        # (1) bookkeeping = actual action of the Pauli gates on |bits>
        if not isinstance(s, ComputationalBasisState):
            ctx.witness("pauli-track", "a Pauli-only gate list did not yield a ComputationalBasisState", {"n": n, "bits": bits, "bits_type": bt, "gates": describe_gates(hist), "copies": copies})
            return
        v = vec_of(n, real_seq("L", hist), bits, 0)
        n1, b1, p1 = s._as_tuple()
        b1 = int(b1)
        want = orc.sparse_basis(b1, p1) if 0 <= b1 else {}
        d = max([abs(v.get(k, 0) - want.get(k, 0)) for k in set(v) | set(want)] + [0.0 if n1 == n else 1.0])
        worst["pauli"] = max(worst["pauli"], d)
        ctx.count("oracle.pauli", ("dense " if n <= 6 else "sparse ") + ("ok" if d <= NUM_TOL else "MISMATCH"))
        if d > NUM_TOL:
            ctx.witness("pauli-track", f"(bits, phase) = ({b1}, {p1}) does not describe the vector obtained by applying the gates (max diff {d:.3g})",
                        {"n": n, "bits": bits, "bits_type": bt, "gates": describe_gates(hist), "copies": copies}, {"got_bits": b1, "got_phase": p1})
            return
        # the state's own circuit prepares |bits'>
        w = vec_of(n, s.circuit.gates)
        if w is None or orc.sparse_phase_defect(w, v) > NUM_TOL:
            ctx.witness("basis-circuit", "ComputationalBasisState.circuit does not prepare the tracked basis state",
                        {"n": n, "bits": bits, "bits_type": bt, "gates": describe_gates(hist), "copies": copies}, {"circuit": canon_real_gates(s.circuit.gates)[:300]})
        if mode == "sup":
            bits2 = rng.choice([rand_bits(rng, n), b1 ^ (1 << rng.randrange(n)), b1 ^ (1 << (n - 1)), b1])
            hist2 = build_phase_history(rng, n, bits2, rng.randint(0, 6))
            bt2 = rand_bits_type(rng, n, partner=bt)
            try:
                s2 = ComputationalBasisState(n, bits=as_bits(bt2, bits2)).with_gates_applied(real_seq("L", hist2))
                if rng.random() < 0.3:
                    s2 = rand_copy(rng, s2, copies, "state b")
            except Exception as e:  # noqa: BLE001
                ctx.witness(reject_key(exc_name(e)), f"a valid Pauli gate list (handles copied as listed) is rejected: {exc_name(e)} {e if isinstance(e, CopyFailed) else ''}", {"n": n, "bits": bits2, "bits_type": bt2, "gates": describe_gates(hist2)})
                return
            if not isinstance(s2, ComputationalBasisState):
                ctx.witness("pauli-track", "a Pauli-only gate list did not yield a ComputationalBasisState", {"n": n, "bits": bits2, "bits_type": bt2, "gates": describe_gates(hist2)})
                return
            _, b2, p2 = s2._as_tuple()
            b2 = int(b2)
            theta, phi = rand_angle(rng), rand_angle(rng)
            tgt = orc.sparse_target(b1, p1, b2, p2, theta, phi)
            nt = orc.sparse_norm(tgt)
            if nt < 1e-3:
                ctx.count("oracle.sup", "zero-target-skipped")
                return
            tgt = {k: z / nt for k, z in tgt.items()}
            inp = {"n": n, "a": [b1, p1], "b": [b2, p2], "bits_types": [bt, bt2], "theta": theta, "phi": phi,
                   "start_a": bits, "gates_a": describe_gates(hist), "start_b": bits2, "gates_b": describe_gates(hist2), "copies": copies}
            try:
                st = comp_basis_superposition(s, s2, theta, phi)
            except Exception as e:  # noqa: BLE001
                x = b1 ^ b2
                if x != 0 and x % (1 << 64) == 0 and isinstance(e, ValueError):
                    # the defect replayed by replay_known_witness (registered there, once): only counted here
                    ctx.count("oracle.sup", "known: lowest differing bit ≥ 64")
                else:
                    ctx.witness("superposition-rejects", f"comp_basis_superposition raised {exc_name(e)} on same-size states", inp)
                return
            w = vec_of(n, st.circuit.gates)
            d = orc.sparse_phase_defect(w, tgt) if w is not None else 9.0
            worst["sup"] = max(worst["sup"], d)
            n_eval += 1
            ctx.count("oracle.sup", ("dense " if n <= 6 else "sparse ") + ("equal-bits " if b1 == b2 else "") + ("ok" if d <= NUM_TOL else "MISMATCH"))
            if d > NUM_TOL or st.qubit_count != n:
                ctx.witness("superposition-state",
                            f"the circuit does not prepare cosθ·i^pa|a> + e^(iφ)sinθ·i^pb|b> up to a global phase (defect {d:.3g})",
                            dict(inp, circuit=canon_real_gates(st.circuit.gates)[:400]))
        elif mode == "general":
            extra = [rand_other_gate(rng, n, allow_range_error=False) for _ in range(rng.randint(1, 4))]
            mixed = [rand_pauli_gate(rng, n)[0] for _ in range(rng.randint(0, 2))] + extra
            rng.shuffle(mixed)
            try:
                g = s.with_gates_applied(real_seq("L", mixed))
            except Exception as e:  # noqa: BLE001
                ctx.witness("derive-general-rejects", f"with_gates_applied raised {exc_name(e)} on in-range gates",
                            {"n": n, "state": [b1, p1], "gates": describe_gates(mixed)})
                return
            w = orc.run_circuit(n, g.circuit.gates)
            u = orc.run_circuit(n, real_seq("L", mixed), orc.basis(n, b1, p1))
            d = orc.phase_defect(w, u)
            worst["general"] = max(worst["general"], d)
            n_eval += 1
            ctx.count("oracle.general", "ok" if d <= NUM_TOL else "MISMATCH")
            if d > NUM_TOL:
                ctx.witness("derive-general", f"the derived general state is not gates·(i^phase|bits>) up to a global phase (defect {d:.3g})",
                            {"n": n, "state": [b1, p1], "gates": describe_gates(mixed)})
            if s._as_tuple() != (n, b1, p1):
                ctx.witness("derive-mutates-original", "with_gates_applied changed the source tuple", {"n": n, "state": [b1, p1]})
            # a second derivation, from the general state; the first one must read as before afterwards
            more = [rand_other_gate(rng, n, allow_range_error=False) if rng.random() < 0.6 else rand_pauli_gate(rng, n)[0]
                    for _ in range(rng.randint(1, 3))]
            before = canon_real_gates(g.circuit.gates)
            try:
                g2 = g.with_gates_applied(real_seq(rng.choice("LT"), more))
            except Exception as e:  # noqa: BLE001
                ctx.witness("derive-general-rejects", f"GeneralCircuitQuantumState.with_gates_applied raised {exc_name(e)} on in-range gates",
                            {"n": n, "state": [b1, p1], "gates": describe_gates(mixed), "more": describe_gates(more)})
                return
            w2 = orc.run_circuit(n, g2.circuit.gates)
            u2 = orc.run_circuit(n, real_seq("L", more), u)
            d2 = orc.phase_defect(w2, u2)
            ctx.count("oracle.general2", "ok" if d2 <= NUM_TOL and g2.qubit_count == n else "MISMATCH")
            if d2 > NUM_TOL or g2.qubit_count != n:
                ctx.witness("derive-general", f"deriving from a general state does not append the gates (defect {d2:.3g})",
                            {"n": n, "state": [b1, p1], "gates": describe_gates(mixed), "more": describe_gates(more)})
            if canon_real_gates(g.circuit.gates) != before:
                ctx.witness("derive-mutates-original", "deriving from a general state changed the source's circuit",
                            {"n": n, "state": [b1, p1], "gates": describe_gates(mixed), "more": describe_gates(more)})
    while it < min_iter or time.time() - t0 < budget_s:
        it += 1
        if it > min_iter * 40:
            break
        try:
            one_iteration()
        except Exception as e:  # noqa: BLE001 – the real code failed where a valid input must be handled
            import traceback

            ctx.witness("unexpected-exception", f"the real code raised {exc_name(e)} on a valid input during the oracle run",
                        {"traceback": traceback.format_exc()[-1200:]})
    ctx.extra["oracle_validation"] = {"evaluations": n_eval, "worst_defect_ok": worst}
    ctx.evaluations += n_eval
    ctx.search_budget_s += budget_s


# ---------------------------------------------------------------------------
# K5: object protocol (== / hash / repr), constructors and their error branches, alternative public entry points
# (quantum_state / apply_circuit), argument forms (θ, φ as ints / numpy scalars / keywords; vectors as list / tuple /
# arrays of several dtypes), caller-reused argument objects.  Real code against independent restatements:
#   witness  = the real code falsifies the property statement on the printed input
#   disagree = the real code differs from the documented behaviour restated here (format, read-only flag, …)
# ---------------------------------------------------------------------------
FINDING_APPLY = "apply-circuit-drops-phase"


class CopyFailed(Exception):
    """copy.copy / copy.deepcopy / pickle of a library state object raised (the unchanged tree copies all of them)"""


def attempt(f):
    """(True, value) or (False, 'err Class'): exceptions of the real code are outputs"""
    try:
        return True, f()
    except CopyFailed as e:
        return False, f"err CopyFailed: {e}"
    except Exception as e:  # noqa: BLE001
        return False, exc_name(e)


def _copy_ops():
    import copy
    import pickle

    return {
        "copy.copy": copy.copy,
        "copy.deepcopy": copy.deepcopy,
        "pickle": lambda o: pickle.loads(pickle.dumps(o)),
        "pickle-protocol-0": lambda o: pickle.loads(pickle.dumps(o, 0)),
        "pickle-protocol-2": lambda o: pickle.loads(pickle.dumps(o, 2)),
        "deepcopy-inside-list-and-dict": lambda o: copy.deepcopy([o, {"k": o}])[1]["k"],
        "pickle-inside-tuple-and-list": lambda o: pickle.loads(pickle.dumps((o, [o])))[1][0],
    }


COPY_OPS = _copy_ops()


def rand_copy(rng, o, trace=None, where=""):
    """a state handle replaced by a copy of itself (value objects: the copy must keep denoting the same vector)"""
    name = rng.choice(sorted(COPY_OPS))
    try:
        c = COPY_OPS[name](o)
    except Exception as e:  # noqa: BLE001
        raise CopyFailed(f"{name} of a {type(o).__name__} raised {type(e).__name__} ({where})") from e
    if trace is not None:
        trace.append(f"{where}: {name}")
    return c


def reject_key(msg) -> str:
    return "copy-rejects" if "CopyFailed" in str(msg) else "pauli-track-rejects"


def indep_descr(n, bits, real_gates):
    """(n, bits', phase' mod 4) of gates·|bits> by the sparse simulator (independent of the bookkeeping under test)"""
    from oracle import c16_state as orc

    w = orc.sparse_run(real_gates, orc.sparse_basis(bits, 0))
    (b, amp), = w.items()
    return n, b, min(range(4), key=lambda k: abs(amp - 1j ** k))


def read_descr(s):
    """what a real basis-state object claims through its PUBLIC attributes: (n, bits, phase mod 4) or a string"""
    try:
        u = grid_units(float(s.phase))
        if u is None or u % 32:
            return f"phase-not-a-quarter-turn {s.phase!r}"
        return int(s.qubit_count), int(s.bits), (u // 32) % 4
    except Exception as e:  # noqa: BLE001
        return f"unreadable {type(e).__name__}"


BITS_TYPES = [("uint8", 8), ("uint16", 16), ("uint32", 32), ("uint64", 64), ("int8", 7), ("int16", 15), ("int32", 31), ("int64", 63)]


def rand_bits_type(rng, n, partner=None, p=0.4):
    """the integer type in which a caller hands over an n-qubit bit pattern: 'int', or (probability p) a signed /
    UNSIGNED numpy scalar type whose non-negative range holds every n-bit pattern – then every mask 1 << i (i < n) the
    library forms is representable and numpy raises nothing by its own rules; the unchanged library treats such values
    exactly like ints.  `partner` = type of the other state of a superposition: numpy itself refuses uint64 ^ signed."""
    if rng.random() >= p:
        return "int"
    ok = [t for t, cap in BITS_TYPES if n <= cap]
    if partner == "uint64":
        ok = [t for t in ok if t.startswith("u")]
    elif partner is not None and partner.startswith("int") and partner != "int":
        ok = [t for t in ok if t != "uint64"]
    return rng.choice(ok) if ok else "int"


def as_bits(btype, bits):
    if btype == "int":
        return int(bits)
    import numpy as np

    return getattr(np, btype)(int(bits))


def chain_derive(rng, n, bits, hist, btype="int", copies=None):
    """ComputationalBasisState(n, bits) with the Pauli specs `hist` applied in random chunks / forms / entry points;
    `copies` (a list, filled with what was done): at random points the handle is replaced by copy.copy / copy.deepcopy /
    a pickle round trip of itself (also inside containers) and the chain continues on the copy"""
    from quri_parts.core.state import ComputationalBasisState

    s = ComputationalBasisState(n, bits=as_bits(btype, bits))
    k0 = 0
    while k0 < len(hist):
        k1 = rng.randint(k0 + 1, len(hist))
        if rng.random() < 0.4:
            s.circuit  # noqa: B018 – fills the cached_property slot of the parent
        if copies is not None and k0 and rng.random() < 0.25:
            s = rand_copy(rng, s, copies, f"after {k0} gates")
        chunk = hist[k0:k1]
        if len(chunk) == 1 and rng.random() < 0.5:
            s = s.with_pauli_gate_applied(real_seq("L", chunk)[0])
        else:
            s = s.with_gates_applied(real_seq(rng.choice(["L", "T", f"C{n}", f"F{n}"]), chunk))
        k0 = k1
    if rng.random() < 0.2:
        s = s.with_gates_applied(rng.choice([[], ()]))
    if copies is not None and rng.random() < 0.3:
        s = rand_copy(rng, s, copies, f"after all {len(hist)} gates")
    return s


def small_vec(rng, n):
    import numpy as np

    dim = 1 << n
    v = np.array([complex(rng.randint(-3, 3), rng.randint(-3, 3)) for _ in range(dim)], dtype=np.complex128)
    if not np.any(v):
        v[rng.randrange(dim)] = 1.0
    return v


def full_vec(st, n):
    """the vector a real state object describes (dense, n ≤ 6), read through public attributes only"""
    import numpy as np

    from quri_parts.core.state import ComputationalBasisState, QuantumStateVector

    from oracle import c16_state as orc

    if isinstance(st, ComputationalBasisState):
        d = read_descr(st)
        if isinstance(d, str) or d[0] != n:
            raise ValueError(f"basis state not readable: {d}")
        return orc.basis(n, d[1], d[2])
    if st.circuit.qubit_count != n or st.qubit_count != n:
        raise ValueError("qubit count mismatch")
    if isinstance(st, QuantumStateVector):
        return orc.run_circuit(n, st.circuit.gates, np.array(st.vector, dtype=complex))
    return orc.run_circuit(n, st.circuit.gates)


def mixed_specs(rng, n, lo=1, hi=4, pauli_only=False):
    out = []
    for _ in range(rng.randint(lo, hi)):
        if pauli_only or rng.random() < 0.4:
            out.append(rand_pauli_gate(rng, n)[0])
        else:
            out.append(rand_other_gate(rng, n, allow_range_error=False))
    return out


def obj_eq_hash(ctx: Ctx, rng):
    from quri_parts.core.state import ComputationalBasisState, GeneralCircuitQuantumState

    n = rng.choice([1, 1, 2, 3, 4, 6, 17, 63, 64, 65, 70])
    bits = rand_bits(rng, n)
    hist = [rand_pauli_gate(rng, n)[0] for _ in range(rng.randint(0, 7))]
    kind = rng.choice(["same", "same", "same", "sign", "full-turn", "bitflip", "other-n", "other-bits", "random"])
    n2, bits2, hist2 = n, bits, list(hist)
    q = rng.randrange(n)
    zxzx = [spec("Z", [q]), spec("X", [q]), spec("Z", [q]), spec("X", [q])]  # = −1 on every vector
    if kind == "sign":
        hist2 = hist + zxzx
    elif kind == "full-turn":
        hist2 = hist + zxzx + zxzx  # = +1: same vector, counter advanced by 4 (either answer of == is fine)
    elif kind == "bitflip":
        hist2 = hist + [spec("X", [q])]
    elif kind == "other-n":
        n2 = n + 1
    elif kind == "other-bits":
        bits2 = bits ^ (1 << q)
    elif kind == "random":
        bits2 = rand_bits(rng, n)
        hist2 = [rand_pauli_gate(rng, n)[0] for _ in range(rng.randint(0, 7))]
    inp = {"a": {"n": n, "bits": bits, "gates": describe_gates(hist)}, "b": {"n": n2, "bits": bits2, "gates": describe_gates(hist2)}}
    t1, t2 = rand_bits_type(rng, n), rand_bits_type(rng, n2)
    inp["a"]["bits_type"], inp["b"]["bits_type"] = t1, t2
    inp["a"]["copies"], inp["b"]["copies"] = [], []
    ok1, s1 = attempt(lambda: chain_derive(rng, n, bits, hist, t1, inp["a"]["copies"]))
    ok2, s2 = attempt(lambda: chain_derive(rng, n2, bits2, hist2, t2, inp["b"]["copies"]))
    if not (ok1 and ok2):
        bad = s1 if not ok1 else s2
        ctx.witness(reject_key(bad), f"a valid Pauli gate list (handles copied as listed) is rejected: {bad}", inp)
        return
    ctx.case(("eq", n, bits, tuple(canon_spec(g) for g in hist), n2, bits2, tuple(canon_spec(g) for g in hist2)), nontrivial=True)
    ctx.count("obj.eq.kind", kind)
    d1 = indep_descr(n, bits, real_seq("L", hist))
    d2 = indep_descr(n2, bits2, real_seq("L", hist2))
    for s, d, which in ((s1, d1, "a"), (s2, d2, "b")):
        if not isinstance(s, ComputationalBasisState) or read_descr(s) != d:
            ctx.witness("pauli-track", f"state {which}: public (qubit_count, bits, phase) = {read_descr(s) if isinstance(s, ComputationalBasisState) else type(s).__name__} "
                                       f"but the gates give {d}", inp)
            return
    okh, hs = attempt(lambda: (hash(s1), hash(s2)))
    oke, e = attempt(lambda: (s1 == s2, s2 == s1, s1 != s2, s1 == s1, s2 != s2))
    if not (okh and oke):
        ctx.witness("eq-hash-contract", f"== / hash of two basis states raised {hs if not okh else e}", inp)
        return
    if not all(isinstance(x, bool) for x in e) or e[0] != e[1] or e[2] == e[0] or not e[3] or e[4]:
        ctx.witness("eq-hash-contract", f"(a==b, b==a, a!=b, a==a, b!=b) = {e}: not a symmetric reflexive equality", inp)
        return
    ctx.count("obj.eq.outcome", f"{kind}: {'equal' if e[0] else 'unequal'}")
    if e[0] and d1 != d2:
        ctx.witness("eq-unsound", f"a == b although a describes (n, bits, i^p) = {d1} and b describes {d2}", inp)
    if e[0] and hs[0] != hs[1]:
        ctx.witness("eq-hash-contract", "a == b but hash(a) != hash(b)", inp)
    same_tuple = attempt(lambda: s1._as_tuple() == s2._as_tuple())
    if kind == "same" or same_tuple == (True, True):
        # identical (qubit count, bits, counter): the library's equality is the equality of this triple
        if not e[0] or hs[0] != hs[1]:
            ctx.witness("eq-hash-contract", f"two states with the identical derivation are unequal / hash differently (== {e[0]}, hashes equal {hs[0] == hs[1]})", inp)
        okd, got = attempt(lambda: {s1: "hit"}.get(s2, "miss"))
        if not okd or got != "hit":
            ctx.witness("eq-hash-contract", f"a state with the identical derivation is not found as a dict key ({got})", inp)
    # foreign objects: never equal, never an exception
    okg, gen = attempt(lambda: GeneralCircuitQuantumState(n, s1.circuit))
    foreign = [None, bits, (n, d1[1], 0), "x"] + ([gen] if okg else [])
    okf, ef = attempt(lambda: [(s1 == o, s1 != o) for o in foreign])
    if not okf:
        ctx.witness("eq-hash-contract", f"comparing a basis state with None / int / tuple / str / GeneralCircuitQuantumState raised {ef}", inp)
    elif any(a is not False or b is not True for a, b in ef):
        ctx.disagree("eq-foreign", inp, str(ef)[:200], "== False and != True against None / int / tuple / str / GeneralCircuitQuantumState")
    # observers and later derivations never change an object: hash, ==, repr, public triple
    okr, r = attempt(lambda: repr(s1))
    import re

    m = re.fullmatch(r"ComputationalBasisState\(qubit_count=(\d+), bits=(0b[01]+), phase=(-?\d+)π/2\)", r) if okr and isinstance(r, str) else None
    if not m or (int(m.group(1)), int(m.group(2), 2), int(m.group(3)) % 4) != d1:
        ctx.disagree("repr", inp, str(r)[:200], f"ComputationalBasisState(qubit_count={d1[0]}, bits={bin(d1[1])}, phase=<p ≡ {d1[2]} mod 4>π/2)")
    extra = mixed_specs(rng, n, 1, 3)
    attempt(lambda: s1.circuit)
    attempt(lambda: s1.with_gates_applied(real_seq(rng.choice(["L", "T", f"C{n}"]), extra)))
    attempt(lambda: s1.with_pauli_gate_applied(real_seq("L", [rand_pauli_gate(rng, n)[0]])[0]))
    attempt(lambda: repr(s1))
    okh2, h2 = attempt(lambda: hash(s1))
    if not okh2 or h2 != hs[0] or read_descr(s1) != d1 or attempt(lambda: s1 == s2) != (True, e[0]):
        ctx.witness("derive-mutates-original", "hash / public triple / equality of a basis state changed after reading .circuit, repr and deriving from it",
                    dict(inp, later=describe_gates(extra)), {"hash_before": hs[0], "hash_after": h2, "triple_after": str(read_descr(s1))})


def obj_constructors(ctx: Ctx, rng):
    """GeneralCircuitQuantumState / QuantumStateVector constructors, their error branches, QuantumStateVector derivation"""
    import numpy as np

    from quri_parts.core.state import GeneralCircuitQuantumState, QuantumStateVector

    from oracle import c16_state as orc

    n = rng.choice([0, 1, 2, 2, 3, 3, 4, 5])
    m = rng.choice([n, n, n, n + 1, n + 2, max(n - 1, 0)])
    w = min(n, m)
    specs = mixed_specs(rng, w, 0, 4) if w >= 1 else []
    form = rng.choice("CF") + str(m)
    okc, qc = attempt(lambda: real_seq(form, specs))
    if not okc:
        return
    want = canon_real_gates(qc.gates)
    inp = {"n_qubits": n, "circuit_qubit_count": m, "form": form[0], "gates": describe_gates(specs)}
    ctx.case(("ctor", n, form, want), nontrivial=True)
    # --- GeneralCircuitQuantumState(n, circuit)
    cls = rng.choice(["general", "vector"])
    vec_form = rng.choice(["none", "list", "tuple", "c128", "f64", "i64", "short", "long", "empty"])
    dim = 1 << n
    v0 = small_vec(rng, n)
    if vec_form in ("f64", "i64"):
        v0 = np.array(v0.real, dtype=np.complex128)
        if not np.any(v0):
            v0[0] = 1.0
    arg = {"none": None, "list": [complex(z) for z in v0], "tuple": tuple(complex(z) for z in v0), "c128": v0.copy(),
           "f64": np.array(v0.real, dtype=np.float64), "i64": np.array(v0.real, dtype=np.int64),
           "short": list(v0[:dim - 1]), "long": list(v0) + [0.0] * rng.choice([1, dim]), "empty": []}[vec_form]
    vec_ok = vec_form not in ("short", "long", "empty") or len(arg) == dim
    expect_vec = orc.basis(n, 0) if vec_form == "none" else v0
    use_circ = rng.random() < 0.8
    if cls == "general":
        ok, st = attempt(lambda: GeneralCircuitQuantumState(n, qc) if use_circ else GeneralCircuitQuantumState(n))
        good = (m == n) or not use_circ
    else:
        inp = dict(inp, vector_form=vec_form, vector=[str(complex(z)) for z in (arg if arg is not None else [])][:40])
        ok, st = attempt(lambda: QuantumStateVector(n, arg, qc) if use_circ else (QuantumStateVector(n, vector=arg) if rng.random() < 0.5 else QuantumStateVector(n, arg)))
        good = ((m == n) or not use_circ) and vec_ok
    inp["class"] = cls
    inp["circuit_given"] = use_circ
    ctx.count("obj.ctor", f"{cls} {'ok' if good else 'inconsistent'}: {'accepted' if ok else st}")
    if not good:
        if ok:
            ctx.witness("constructor-accepts-inconsistent", "a state whose qubit count disagrees with its circuit's qubit count / its vector's dimension "
                                                            "was constructed instead of being rejected", inp, {"repr": repr(st)[:200]})
        elif st != "err ValueError":
            ctx.disagree("constructor-error-class", inp, st, "err ValueError")
        return
    if not ok:
        ctx.witness("constructor-rejects", f"a consistent {cls} state is rejected: {st}", inp)
        return
    gates_want = want if use_circ else ""
    okr, got = attempt(lambda: (st.qubit_count, st.circuit.qubit_count, canon_real_gates(st.circuit.gates)))
    if not okr or got != (n, n, gates_want):
        ctx.witness("constructor-state", f"the constructed state reads (qubit_count, circuit.qubit_count, gates) = {str(got)[:200]}, given {(n, n, gates_want)[:2]} and the gates of the input", inp)
        return
    if cls == "vector":
        okv, vv = attempt(lambda: np.array(st.vector, dtype=complex))
        if not okv or vv.shape != (dim,) or np.max(np.abs(vv - expect_vec)) > 0:
            ctx.witness("state-vector-value", "QuantumStateVector.vector is not the given vector (default: |0…0>)", inp, {"vector": str(vv)[:200]})
            return
        okw, wr = attempt(lambda: st.vector.__setitem__(0, 7.0))
        if okw or attempt(lambda: bool(st.vector.flags.writeable)) != (True, False):
            ctx.disagree("vector-readonly", inp, "assignment through .vector accepted" if okw else "writeable flag set", "read-only view")
    okp, rp = attempt(lambda: repr(st))
    okq, rq = attempt(lambda: (f"GeneralCircuitQuantumState(n_qubits={n}, circuit={st.circuit})" if cls == "general" else
                               f"QuantumStateVector(n_qubits={n}, vector={st.vector}, circuit={st.circuit})"))
    if not okp or (okq and rp != rq):
        ctx.disagree("repr", inp, str(rp)[:200], str(rq)[:200])
    if use_circ and form[0] == "C":
        # the caller keeps building on its mutable circuit: the state must not follow
        attempt(lambda: qc.add_H_gate(0) if n else None)
        if attempt(lambda: canon_real_gates(st.circuit.gates)) != (True, gates_want):
            ctx.witness("state-aliases-argument", "the state's circuit changed when the caller extended the circuit it had passed in", inp)
            return
    # --- derivation from it: gates are appended, the vector is kept, the source is untouched
    more = mixed_specs(rng, n, 0, 3) if n >= 1 else []
    mform = rng.choice(["L", "T", f"C{n}", f"F{n}"])
    before = (gates_want, None if cls == "general" else np.array(st.vector, dtype=complex))
    okd, st2 = attempt(lambda: st.with_gates_applied(real_seq(mform, more)))
    inp2 = dict(inp, more=describe_gates(more), more_form=mform)
    if not okd:
        ctx.witness("derive-general-rejects", f"{type(st).__name__}.with_gates_applied raised {st2} on in-range gates", inp2)
        return
    okf, vecs = attempt(lambda: (full_vec(st2, n), orc.run_circuit(n, real_seq("L", more), full_vec(st, n))))
    bad = not okf or type(st2) is not type(st) or np.max(np.abs(vecs[0] - vecs[1])) > NUM_TOL
    if cls == "vector" and not bad:
        bad = np.max(np.abs(np.array(st2.vector, dtype=complex) - before[1])) > 0
    if bad:
        ctx.witness("derive-general", f"{type(st).__name__}.with_gates_applied: the derived state is not gates·(source state)", inp2)
    after = attempt(lambda: (canon_real_gates(st.circuit.gates), None if cls == "general" else np.array(st.vector, dtype=complex)))
    if not after[0] or after[1][0] != before[0] or (cls == "vector" and not np.array_equal(after[1][1], before[1])):
        ctx.witness("derive-mutates-original", f"deriving from a {type(st).__name__} changed the source", inp2)
    ctx.evaluations += 1


def obj_entry_points(ctx: Ctx, rng):
    """quantum_state(...) and apply_circuit(circuit, state): the same calculus through the helper entry points"""
    import numpy as np

    from quri_parts.core.state import (ComputationalBasisState, GeneralCircuitQuantumState, QuantumStateVector,
                                       apply_circuit, quantum_state)

    from oracle import c16_state as orc

    n = rng.choice([1, 2, 2, 3, 3, 4, 5])
    bits = rand_bits(rng, n)
    pauli_only = rng.random() < 0.5
    specs = mixed_specs(rng, n, 0, 4, pauli_only=pauli_only)
    form = rng.choice("CF") + str(n)
    qc = real_seq(form, specs)
    pauli_only = all(g["kind"] in PAULI_KINDS for g in specs)
    mode = rng.choice(["qs-bits", "qs-bits-circuit", "qs-vector", "qs-both", "apply-cb", "apply-cb", "apply-general", "apply-vector"])
    inp = {"mode": mode, "n": n, "bits": bits, "circuit_form": form[0], "gates": describe_gates(specs)}
    ctx.case(("entry", mode, n, bits, form[0], canon_real_gates(qc.gates)), nontrivial=True)
    if mode == "qs-bits":
        b = rng.choice([bits, bits, 1 << n, -1])
        ok, st = attempt(lambda: quantum_state(n, bits=b) if b or rng.random() < 0.5 else quantum_state(n))
        inp["bits"] = b
        if not 0 <= b < (1 << n):
            if ok:
                ctx.witness("constructor-accepts-inconsistent", f"quantum_state accepted bits={b} on {n} qubits", inp)
            return
        if not ok or not isinstance(st, ComputationalBasisState) or read_descr(st) != (n, b, 0):
            ctx.witness("entry-point-state", f"quantum_state(n, bits) is not |bits>: {st if not ok else read_descr(st)}", inp)
        return
    if mode == "qs-bits-circuit":
        ok, st = attempt(lambda: quantum_state(n, bits=bits, circuit=qc))
        if not ok:
            ctx.witness("entry-point-rejects", f"quantum_state(n, bits=, circuit=) raised {st}", inp)
            return
        if pauli_only:
            want = indep_descr(n, bits, real_seq("L", specs))
            if not isinstance(st, ComputationalBasisState) or read_descr(st) != want:
                ctx.witness("entry-point-state", f"quantum_state(n, bits, Pauli-only circuit) = {read_descr(st) if isinstance(st, ComputationalBasisState) else type(st).__name__}, the gates give {want}", inp)
            return
        okv, d = attempt(lambda: orc.phase_defect(full_vec(st, n), orc.run_circuit(n, real_seq("L", specs), orc.basis(n, bits, 0))))
        if not okv or d > NUM_TOL:
            ctx.witness("entry-point-state", f"quantum_state(n, bits, circuit) does not prepare circuit·|bits> up to a global phase ({d})", inp)
        return
    v0 = small_vec(rng, n)
    if mode in ("qs-vector", "qs-both"):
        with_c = rng.random() < 0.5
        b = bits if mode == "qs-both" else 0
        arg = rng.choice([lambda: v0.copy(), lambda: [complex(z) for z in v0], lambda: tuple(complex(z) for z in v0)])()
        ok, st = attempt(lambda: quantum_state(n, vector=arg, bits=b, circuit=qc) if with_c else quantum_state(n, vector=arg, bits=b))
        inp.update(vector=[str(complex(z)) for z in v0], bits=b, circuit_given=with_c)
        if b != 0:
            if ok:  # documented: "Raises ValueError if both a vector and bits input at the same time"
                ctx.witness("entry-point-state", "quantum_state accepted a vector together with non-zero bits (documented ValueError); the bits are ignored", inp)
            return
        okv, d = (False, st) if not ok else attempt(lambda: np.max(np.abs(full_vec(st, n) - orc.run_circuit(n, real_seq("L", specs) if with_c else [], v0))))
        if not okv or d > NUM_TOL or not isinstance(st, QuantumStateVector):
            ctx.witness("entry-point-state", f"quantum_state(n, vector[, circuit]) does not describe circuit·vector ({d})", inp)
        return
    # --- apply_circuit
    hist = [rand_pauli_gate(rng, n)[0] for _ in range(rng.randint(0, 5))]
    if mode == "apply-cb":
        inp["bits_type"] = rand_bits_type(rng, n)
        inp["copies"] = []
        ok, src = attempt(lambda: chain_derive(rng, n, bits, hist, inp["bits_type"], inp["copies"]))
        inp["history"] = describe_gates(hist)
        if not ok and "CopyFailed" in str(src):
            ctx.witness("copy-rejects", f"copying a state handle failed: {src}", inp)
    elif mode == "apply-general":
        pre = mixed_specs(rng, n, 0, 3)
        ok, src = attempt(lambda: GeneralCircuitQuantumState(n, real_seq(f"C{n}", pre)))
        inp["source_gates"] = describe_gates(pre)
    else:
        pre = mixed_specs(rng, n, 0, 2)
        ok, src = attempt(lambda: QuantumStateVector(n, v0.copy(), real_seq(f"F{n}", pre)))
        inp.update(source_gates=describe_gates(pre), vector=[str(complex(z)) for z in v0])
    if not ok:
        return
    okb, before = attempt(lambda: (full_vec(src, n), canon_real_gates(src.circuit.gates) if mode != "apply-cb" else read_descr(src)))
    if not okb:
        return
    ok, out = attempt(lambda: apply_circuit(qc, src))
    if not ok:
        ctx.witness("entry-point-rejects", f"apply_circuit raised {out} on a circuit of the state's qubit count", inp)
        return
    okv, vs = attempt(lambda: (full_vec(out, n), orc.run_circuit(n, real_seq("L", specs), before[0])))
    exact = mode == "apply-vector" or (mode == "apply-cb" and isinstance(out, ComputationalBasisState))
    d = 9.0 if not okv else (float(np.max(np.abs(vs[0] - vs[1]))) if exact else orc.phase_defect(vs[0], vs[1]))
    ctx.count("obj.apply", f"{mode} -> {type(out).__name__}: " + ("ok" if d <= NUM_TOL else "differs"))
    if d > NUM_TOL:
        if okv and exact and mode == "apply-cb" and before[1][2] != 0 and orc.phase_defect(vs[0], vs[1]) <= NUM_TOL:
            # the defect replayed by replay_apply_witness (registered there, once): only counted here
            ctx.count("obj.apply", "known: source phase counter dropped")
        else:
            ctx.witness("entry-point-state", f"apply_circuit(circuit, state) does not describe circuit·state ({'exactly' if exact else 'up to a global phase'}; defect {d:.3g})", inp)
    after = attempt(lambda: (full_vec(src, n), canon_real_gates(src.circuit.gates) if mode != "apply-cb" else read_descr(src)))
    if not after[0] or after[1][1] != before[1] or not np.array_equal(after[1][0], before[0]):
        ctx.witness("derive-mutates-original", "apply_circuit changed the source state", inp)


def obj_angle_forms(ctx: Ctx, rng):
    """θ, φ as Python ints, numpy scalars, keyword arguments; the same state twice (a is b)"""
    import numpy as np

    from quri_parts.core.state import comp_basis_superposition

    from oracle import c16_state as orc

    n = rng.choice([1, 2, 3, 4, 6, 9, 33, 64, 70])
    a, b = rand_bits(rng, n), rand_bits(rng, n)
    if rng.random() < 0.3:
        b = a ^ (1 << rng.randrange(min(n, 64)))
    ha = [rand_pauli_gate(rng, n)[0] for _ in range(rng.randint(0, 4))]
    hb = [rand_pauli_gate(rng, n)[0] for _ in range(rng.randint(0, 4))]
    ta = rand_bits_type(rng, n)
    tb = rand_bits_type(rng, n, partner=ta)
    ca, cb_ = [], []
    ok, ss = attempt(lambda: (chain_derive(rng, n, a, ha, ta, ca), chain_derive(rng, n, b, hb, tb, cb_)))
    if not ok:
        ctx.witness(reject_key(ss), f"a valid Pauli gate list (handles copied as listed) is rejected: {ss}",
                    {"n": n, "a": a, "b": b, "bits_types": [ta, tb], "gates_a": describe_gates(ha), "gates_b": describe_gates(hb), "copies": [ca, cb_]})
        return
    sa, sb = ss
    if rng.random() < 0.1:
        sb, b, hb, tb, cb_ = sa, a, ha, ta, ca
    da, db = indep_descr(n, a, real_seq("L", ha)), indep_descr(n, b, real_seq("L", hb))
    x = da[1] ^ db[1]
    if x and x % (1 << 64) == 0:
        return  # the known lowest-differing-bit ≥ 64 rejection (replayed by replay_known_witness)

    def form(name):
        if name == "int":
            v = rng.randint(-7, 7)
            return v, float(v)
        if name == "np.float64":
            v = rand_angle(rng)
            return np.float64(v), v
        if name == "np.int64":
            v = rng.randint(-7, 7)
            return np.int64(v), float(v)
        if name == "big":
            v = rng.choice([rng.uniform(-1, 1), rng.randint(-4, 4) * QUARTER]) + 2 * math.pi * rng.randint(-40, 40)
            return v, v
        v = rand_angle(rng)
        return v, v

    ft, fp = rng.choice(["int", "np.float64", "np.int64", "float", "big"]), rng.choice(["int", "np.float64", "np.int64", "float", "big"])
    (theta, th), (phi, ph) = form(ft), form(fp)
    kw = rng.random() < 0.3
    inp = {"n": n, "a": list(da[1:]), "b": list(db[1:]), "theta": repr(theta), "phi": repr(phi), "theta_form": ft, "phi_form": fp,
           "keywords": kw, "same_object": sa is sb, "bits_types": [ta, tb],
           "gates_a": describe_gates(ha), "gates_b": describe_gates(hb), "copies": [ca, cb_]}
    tgt = orc.sparse_target(da[1], da[2], db[1], db[2], th, ph)
    nt = orc.sparse_norm(tgt)
    if nt < 1e-3:
        return
    tgt = {k: z / nt for k, z in tgt.items()}
    ok, st = attempt(lambda: comp_basis_superposition(state_b=sb, phi=phi, theta=theta, state_a=sa) if kw else comp_basis_superposition(sa, sb, theta, phi))
    ctx.case(("angles", n, da, db, ft, fp, kw), nontrivial=True)
    ctx.count("obj.angles", f"{ft}/{fp}" + (" kw" if kw else ""))
    if not ok:
        ctx.witness("superposition-rejects", f"comp_basis_superposition raised {st} for θ given as {ft}, φ as {fp}", inp)
        return
    okw, w = attempt(lambda: orc.sparse_run(st.circuit.gates, None))
    d = orc.sparse_phase_defect(w, tgt) if okw and w is not None else 9.0
    if d > NUM_TOL or st.qubit_count != n:
        ctx.witness("superposition-state", f"the circuit does not prepare cosθ·i^pa|a> + e^(iφ)sinθ·i^pb|b> up to a global phase (defect {d:.3g})",
                    dict(inp, circuit=canon_real_gates(st.circuit.gates)[:400]))
    if read_descr(sa) != da or read_descr(sb) != db:
        ctx.witness("derive-mutates-original", "comp_basis_superposition changed one of its arguments", inp)


def obj_arg_reuse(ctx: Ctx, rng):
    """the caller re-uses (and changes) the list / mutable circuit it passed: earlier results must not follow,
    later calls must see the new content (no result cached on the identity of the argument or of the source)"""
    import numpy as np

    from quri_parts.core.state import ComputationalBasisState, GeneralCircuitQuantumState, QuantumStateVector

    from oracle import c16_state as orc

    n = rng.choice([1, 2, 3, 4, 5])
    bits = rand_bits(rng, n)
    src_kind = rng.choice(["cb", "cb", "general", "vector"])
    hist = [rand_pauli_gate(rng, n)[0] for _ in range(rng.randint(0, 4))]
    bt = rand_bits_type(rng, n)
    copies = []
    if src_kind == "cb":
        ok, src = attempt(lambda: chain_derive(rng, n, bits, hist, bt, copies))
    elif src_kind == "general":
        ok, src = attempt(lambda: GeneralCircuitQuantumState(n, real_seq(f"C{n}", hist)))
    else:
        ok, src = attempt(lambda: QuantumStateVector(n, small_vec(rng, n), real_seq(f"C{n}", hist)))
    if not ok:
        if "CopyFailed" in str(src):
            ctx.witness("copy-rejects", f"copying a state handle failed: {src}", {"n": n, "bits": bits, "bits_type": bt, "history": describe_gates(hist), "copies": copies})
        return
    v_src = full_vec(src, n)
    pauli_first = rng.random() < 0.5
    first = mixed_specs(rng, n, 0, 3, pauli_only=pauli_first)
    second = mixed_specs(rng, n, 1, 2, pauli_only=rng.random() < 0.5)
    form = rng.choice(["L", f"C{n}"])
    arg = real_seq(form, first)
    inp = {"n": n, "source": src_kind, "bits": bits, "bits_type": bt if src_kind == "cb" else None, "copies": copies, "history": describe_gates(hist), "first": describe_gates(first),
           "then_appended": describe_gates(second), "argument": "list" if form == "L" else "QuantumCircuit"}
    ctx.case(("reuse", n, src_kind, bits, form[0], tuple(canon_spec(g) for g in hist + first + second)), nontrivial=True)
    ok1, r1 = attempt(lambda: src.with_gates_applied(arg))
    if not ok1:
        ctx.witness("derive-general-rejects", f"with_gates_applied raised {r1} on in-range gates", inp)
        return
    okv, v1 = attempt(lambda: full_vec(r1, n))
    snap1 = canon_state(r1) if isinstance(r1, ComputationalBasisState) else canon_real_gates(r1.circuit.gates)
    for g in real_seq("L", second):
        arg.append(g) if form == "L" else arg.add_gate(g)
    ok2, r2 = attempt(lambda: src.with_gates_applied(arg))
    if not ok2:
        ctx.witness("derive-general-rejects", f"with_gates_applied raised {r2} on in-range gates (second call, argument extended)", inp)
        return
    okw, v2 = attempt(lambda: full_vec(r2, n))
    exact = isinstance(src, ComputationalBasisState) or isinstance(src, QuantumStateVector)
    want1 = orc.run_circuit(n, real_seq("L", first), v_src)
    want2 = orc.run_circuit(n, real_seq("L", first + second), v_src)

    def dist(u, w, ex):
        return float(np.max(np.abs(u - w))) if ex else orc.phase_defect(u, w)

    ex1 = isinstance(r1, (ComputationalBasisState, QuantumStateVector)) and exact
    ex2 = isinstance(r2, (ComputationalBasisState, QuantumStateVector)) and exact
    if not okv or dist(v1, want1, ex1) > NUM_TOL:
        ctx.witness("derive-general" if not isinstance(r1, ComputationalBasisState) else "pauli-track", "first derivation is not gates·(source state)", inp)
    if not okw or dist(v2, want2, ex2) > NUM_TOL:
        ctx.witness("derive-reused-argument", "second derivation with the extended argument is not (first + appended gates)·(source state)", inp,
                    {"second_result": (canon_state(r2) if isinstance(r2, ComputationalBasisState) else canon_real_gates(r2.circuit.gates))[:300]})
    snap1b = canon_state(r1) if isinstance(r1, ComputationalBasisState) else canon_real_gates(r1.circuit.gates)
    if snap1b != snap1:
        ctx.witness("state-aliases-argument", "an already derived state changed when the caller extended the argument it had passed", inp)
    okz, vz = attempt(lambda: full_vec(src, n))
    if not okz or not np.array_equal(vz, v_src):
        ctx.witness("derive-mutates-original", "the source state changed", inp)


def obj_copies(ctx: Ctx, rng):
    """library states are value objects: copy.copy / copy.deepcopy / pickle round trips (also inside containers) of a
    basis state, general state or state vector denote the same vector, compare / hash / print like the original,
    continue derivations and superpositions like the original, and never disturb the original"""
    import numpy as np

    from quri_parts.core.state import (ComputationalBasisState, GeneralCircuitQuantumState, QuantumStateVector,
                                       comp_basis_superposition)

    from oracle import c16_state as orc

    kind = rng.choice(["cb", "cb", "cb", "general", "vector"])
    op = rng.choice(sorted(COPY_OPS))
    twice = rng.random() < 0.25  # a copy of a copy
    touched = rng.random() < 0.5

    def do_copy(o):
        c = COPY_OPS[op](o)
        return COPY_OPS[op](c) if twice else c

    if kind == "cb":
        n = rng.choice([1, 2, 2, 3, 3, 5, 17, 64, 70])
        bits = rand_bits(rng, n)
        bt = rand_bits_type(rng, n)
        hist = [rand_pauli_gate(rng, n)[0] for _ in range(rng.randint(1, 6))]
        inp = {"class": "ComputationalBasisState", "n": n, "bits": bits, "bits_type": bt, "gates": describe_gates(hist), "copy": op,
               "copied_twice": twice, "circuit_read_before_copy": touched}
        ok, s0 = attempt(lambda: chain_derive(rng, n, bits, hist, bt))
        if not ok or not isinstance(s0, ComputationalBasisState):
            ctx.witness("pauli-track-rejects", f"a valid Pauli gate list is rejected: {s0}", inp)
            return
        d = indep_descr(n, bits, real_seq("L", hist))
        if read_descr(s0) != d:
            ctx.witness("pauli-track", f"public (qubit_count, bits, phase) = {read_descr(s0)} but the gates give {d}", inp)
            return
        if touched:
            attempt(lambda: s0.circuit)
        before = attempt(lambda: (hash(s0), repr(s0)))
        ok, c = attempt(lambda: do_copy(s0))
        ctx.case(("copy", "cb", n, bits, bt, tuple(canon_spec(g) for g in hist), op, twice, touched), nontrivial=True)
        ctx.count("obj.copy", f"cb {op}: phase {d[2]}")
        if not ok:
            ctx.witness("copy-rejects", f"{op} of a ComputationalBasisState raised {c}", inp)
            return
        if not isinstance(c, ComputationalBasisState) or read_descr(c) != d:
            ctx.witness("copy-changes-state", f"the copy reads (qubit_count, bits, phase) = {read_descr(c) if isinstance(c, ComputationalBasisState) else type(c).__name__}; "
                                              f"the original is {d} = the vector the gates give", inp)
            return
        same = attempt(lambda: (c == s0, s0 == c, c != s0, hash(c) == hash(s0), repr(c) == repr(s0), {s0: 1}.get(c)))
        if same != (True, (True, True, False, True, True, 1)):
            ctx.witness("copy-changes-state", f"(copy == orig, orig == copy, copy != orig, equal hashes, equal repr, dict hit) = {same[1]}", inp)
        okw, w = attempt(lambda: orc.sparse_run(c.circuit.gates, None))
        if not okw or w is None or c.circuit.qubit_count != n or orc.sparse_phase_defect(w, orc.sparse_basis(d[1], 0)) > NUM_TOL:
            ctx.witness("basis-circuit", "the copy's .circuit does not prepare the tracked basis state", inp)
        # the chain continues on the copy
        more = [rand_pauli_gate(rng, n)[0] for _ in range(rng.randint(1, 4))]
        inp2 = dict(inp, more=describe_gates(more))
        ok2, c2 = attempt(lambda: c.with_gates_applied(real_seq(rng.choice(["L", "T", f"C{n}"]), more)) if len(more) > 1 or rng.random() < 0.5
                          else c.with_pauli_gate_applied(real_seq("L", more)[0]))
        d2 = indep_descr(n, bits, real_seq("L", hist + more))
        if not ok2:
            ctx.witness("pauli-track-rejects", f"a valid Pauli gate list applied to the copy is rejected: {c2}", inp2)
        elif not isinstance(c2, ComputationalBasisState) or read_descr(c2) != d2:
            ctx.witness("pauli-track", f"bookkeeping continued on the copy gives {read_descr(c2) if isinstance(c2, ComputationalBasisState) else type(c2).__name__}, the gates give {d2}", inp2)
        if n <= 5:
            gen = mixed_specs(rng, n, 1, 3)
            okg, g = attempt(lambda: c.with_gates_applied(real_seq("L", gen)))
            okv, dd = (False, g) if not okg else attempt(lambda: orc.phase_defect(full_vec(g, n), orc.run_circuit(n, real_seq("L", gen), orc.basis(n, d[1], d[2]))))
            if not okv or dd > NUM_TOL:
                ctx.witness("derive-general", f"the general state derived from the copy is not gates·(i^phase|bits>) up to a global phase ({dd})", dict(inp, more=describe_gates(gen)))
        # the copy as an argument of the superposition builder (either side)
        ob = d[1] ^ (1 << rng.randrange(min(n, 64)))
        hb = [rand_pauli_gate(rng, n)[0] for _ in range(rng.randint(0, 3))]
        okb, sb = attempt(lambda: chain_derive(rng, n, ob, hb, rand_bits_type(rng, n, partner=bt)))
        if okb and isinstance(sb, ComputationalBasisState):
            db = indep_descr(n, ob, real_seq("L", hb))
            x = d[1] ^ db[1]
            theta, phi = rand_angle(rng), rand_angle(rng)
            first = rng.random() < 0.5
            da_, db_ = (d, db) if first else (db, d)
            tgt = orc.sparse_target(da_[1], da_[2], db_[1], db_[2], theta, phi)
            nt = orc.sparse_norm(tgt)
            if x and x % (1 << 64) and nt > 1e-3:
                tgt = {k: z / nt for k, z in tgt.items()}
                inp3 = dict(inp, copy_is="state_a" if first else "state_b", other={"bits": ob, "gates": describe_gates(hb)}, theta=theta, phi=phi)
                oks, st = attempt(lambda: comp_basis_superposition(c, sb, theta, phi) if first else comp_basis_superposition(sb, c, theta, phi))
                okw, w = (False, st) if not oks else attempt(lambda: orc.sparse_run(st.circuit.gates, None))
                if not oks:
                    ctx.witness("superposition-rejects", f"comp_basis_superposition raised {st} with a copied state", inp3)
                elif not okw or w is None or orc.sparse_phase_defect(w, tgt) > NUM_TOL:
                    ctx.witness("superposition-state", "with a copied state as argument the circuit does not prepare cosθ·i^pa|a> + e^(iφ)sinθ·i^pb|b> up to a global phase",
                                dict(inp3, circuit=canon_real_gates(st.circuit.gates)[:400]))
        # the original is untouched by all of this
        if read_descr(s0) != d or attempt(lambda: (hash(s0), repr(s0))) != before or attempt(lambda: s0 == c) != (True, True):
            ctx.witness("derive-mutates-original", "copying a basis state / deriving from the copy changed the original", inp)
        return
    n = rng.choice([1, 2, 3, 4])
    specs = mixed_specs(rng, n, 0, 4)
    v0 = small_vec(rng, n)
    inp = {"class": "GeneralCircuitQuantumState" if kind == "general" else "QuantumStateVector", "n": n, "gates": describe_gates(specs), "copy": op, "copied_twice": twice}
    if kind == "vector":
        inp["vector"] = [str(complex(z)) for z in v0]
    ok, st = attempt(lambda: GeneralCircuitQuantumState(n, real_seq(f"C{n}", specs)) if kind == "general" else QuantumStateVector(n, v0.copy(), real_seq(f"F{n}", specs)))
    if not ok:
        return
    ctx.case(("copy", kind, n, tuple(canon_spec(g) for g in specs), op, twice), nontrivial=True)
    ctx.count("obj.copy", f"{kind} {op}")
    okb, before = attempt(lambda: (full_vec(st, n), canon_real_gates(st.circuit.gates)))
    ok, c = attempt(lambda: do_copy(st))
    if not ok:
        ctx.witness("copy-rejects", f"{op} of a {inp['class']} raised {c}", inp)
        return
    okr, got = attempt(lambda: (type(c) is type(st), c.qubit_count, c.circuit.qubit_count, canon_real_gates(c.circuit.gates),
                                None if kind == "general" else bool(np.array_equal(np.array(c.vector, dtype=complex), v0))))
    if not okb or not okr or got != (True, n, n, before[1], None if kind == "general" else True):
        ctx.witness("copy-changes-state", f"the copy reads (same class, qubit_count, circuit.qubit_count, gates, vector equal) = {str(got)[:300]}", inp)
        return
    more = mixed_specs(rng, n, 1, 3)
    okd, c2 = attempt(lambda: c.with_gates_applied(real_seq(rng.choice(["L", "T", f"C{n}"]), more)))
    okv, vs = (False, c2) if not okd else attempt(lambda: (full_vec(c2, n), orc.run_circuit(n, real_seq("L", more), before[0])))
    dd = 9.0 if not okv else (float(np.max(np.abs(vs[0] - vs[1]))) if kind == "vector" else orc.phase_defect(vs[0], vs[1]))
    if dd > NUM_TOL:
        ctx.witness("derive-general", f"the state derived from the copy is not gates·(original state) ({c2 if not okd else dd})", dict(inp, more=describe_gates(more)))
    after = attempt(lambda: (full_vec(st, n), canon_real_gates(st.circuit.gates)))
    if not after[0] or after[1][1] != before[1] or not np.array_equal(after[1][0], before[0]):
        ctx.witness("derive-mutates-original", f"copying a {inp['class']} / deriving from the copy changed the original", inp)


def k_objects(ctx: Ctx):
    rng = ctx.rng
    parts = [(obj_eq_hash, ctx.n(160, 5000)), (obj_constructors, ctx.n(200, 5000)), (obj_entry_points, ctx.n(200, 5000)),
             (obj_angle_forms, ctx.n(120, 4000)), (obj_arg_reuse, ctx.n(120, 4000)), (obj_copies, ctx.n(250, 6000))]
    for fn, k in parts:
        for _ in range(k):
            try:
                fn(ctx, rng)
            except Exception as e:  # noqa: BLE001 – every real-code call above is wrapped; what arrives here is unexpected
                import traceback

                ctx.witness("unexpected-exception", f"{fn.__name__}: {exc_name(e)} while judging the real code's result",
                            {"traceback": traceback.format_exc()[-1200:]})


def k_bitutils(ctx: Ctx):
    """bit.py helpers the state calculus does not call itself (bit_length, parity_sign_of_bits): documented behaviour"""
    import numpy as np

    from quri_parts.core.utils import bit as B

    rng = ctx.rng
    xs = [0, 1, 2, 3, 255, 256, (1 << 63) - 1, 1 << 63, (1 << 64) - 1, 1 << 64, (1 << 70) + 1]
    xs += [rng.getrandbits(rng.choice([3, 8, 31, 32, 33, 63, 64, 65, 70])) for _ in range(ctx.n(100, 2000))]
    for x in xs:
        pop = sum((x >> i) & 1 for i in range(80))
        length = next((k for k in range(81) if x >> k == 0))
        ctx.case(("bitutil", x), nontrivial=x != 0)
        forms = [x]
        for t, lim in ((np.int8, 7), (np.int16, 15), (np.int32, 31), (np.int64, 63)):
            if x < (1 << lim):
                forms.append(t(x))
        for f in forms:
            r = attempt(lambda: B.bit_length(f))
            if r != (True, length) or type(r[1]) is not int:
                ctx.disagree("bit_length", {"x": x, "type": type(f).__name__}, str(r[1]), str(length))
        r = attempt(lambda: B.parity_sign_of_bits(x))
        if r != (True, 1 - 2 * (pop % 2)):
            ctx.disagree("parity_sign_of_bits", {"x": x}, str(r[1]), str(1 - 2 * (pop % 2)))


def replay_apply_witness(ctx: Ctx):
    """the listed finding `apply-circuit-drops-phase`, re-derived on the real code every run (pinned input)"""
    from quri_parts.circuit import QuantumCircuit, Y
    from quri_parts.core.state import ComputationalBasisState, apply_circuit

    def run():
        s = ComputationalBasisState(1, bits=0).with_gates_applied([Y(0)])  # i|1>
        qc = QuantumCircuit(1)
        qc.add_X_gate(0)
        return read_descr(s), read_descr(s.with_gates_applied(qc)), read_descr(apply_circuit(qc, s)), read_descr(apply_circuit(QuantumCircuit(1), s))

    ok, r = attempt(run)
    ctx.traces += 1
    ctx.case(("witness", "apply-circuit"), sample={"kind": "witness", "real": str(r)[:160]})
    if not ok or r[0] != (1, 1, 1) or r[1] != (1, 0, 1):
        ctx.witness("pauli-track", f"Y(0) on |0> then X(0): expected i|1> then i|0>, got {r}", {"n": 1, "gates": ["Y(0)", "X(0)"]})
        return
    if r[2] != (1, 0, 1) or r[3] != (1, 1, 1):
        ctx.witness(FINDING_APPLY,
                    "apply_circuit(circuit, ComputationalBasisState) rebuilds the result from state.circuit + circuit on |0…0>: the "
                    "source's phase counter is dropped (i|1> --X--> |0> instead of i|0>; the empty circuit maps i|1> to |1>)",
                    {"source": "ComputationalBasisState(1, bits=0).with_gates_applied([Y(0)])", "circuit": "X(0)"},
                    {"with_gates_applied": str(r[1]), "apply_circuit": str(r[2]), "apply_circuit_empty": str(r[3])})


def replay_known_witness(ctx: Ctx):
    """Props.C16.superposition_rejects_high_bits_witness on the real code and on the model"""
    from quri_parts.core.state import ComputationalBasisState, comp_basis_superposition

    a, b = (65, 0, 0), (65, 1 << 64, 0)
    try:
        st = comp_basis_superposition(ComputationalBasisState(65, bits=0), ComputationalBasisState(65, bits=1 << 64), 0.3, 0.2)
        real = f"ok {len(st.circuit.gates)} gates"
    except Exception as e:  # noqa: BLE001
        real = exc_name(e)
    model = ctx.driver([f"c16sup {a[0]} {a[1]} {a[2]} | {b[0]} {b[1]} {b[2]}"], entry=ENTRY)[0]
    ctx.traces += 1
    ctx.case(("witness", "bit64"), sample={"kind": "witness", "real": real, "model": model[:80]})
    if real.startswith("err") != model.startswith("err"):
        ctx.disagree("witness:superposition-bit64", {"a": list(a), "b": list(b)}, real, model)
    if real.startswith("err"):
        ctx.witness(FINDING_BIT64,
                    "comp_basis_superposition raises ValueError('Given integer is too large.') for two states of equal qubit "
                    "count (> 64) whose lowest differing bit has index >= 64: lowest_bit_index only scans range(64)",
                    {"n": 65, "a_bits": 0, "b_bits": 1 << 64, "theta": 0.3, "phi": 0.2}, {"real": real})


def corpus_cases(kind):
    d = os.path.join(os.path.dirname(os.path.dirname(os.path.abspath(__file__))), "corpus", "C16")
    out = []
    for f in sorted(os.listdir(d)) if os.path.isdir(d) else []:
        if f.endswith(".json"):
            c = json.load(open(os.path.join(d, f)))
            if c.get("kind") == kind:
                out.append(c)
    return out


def run_replay(ctx: Ctx, path: str):
    """re-run the inputs of a replay file: correspondence inputs go through corpus-style evaluation"""
    rep = json.load(open(path))
    reg = Registry()
    n = 0
    for d in rep.get("disagreements", []):
        inp = d.get("input", {})
        if inp.get("kind") == "track":
            out, real = real_track(inp["n"], inp["bits"], inp["phase"], inp["form"], inp["gates"])
            model = ctx.driver([f"c16track {inp['n']} {inp['bits']} {inp['phase']} | {model_form(inp['form'])} | "
                                + "+".join(enc_spec(g, reg) for g in inp["gates"])], entry=ENTRY)[0]
            print(f"replay track: real={real[:200]} model={model[:200]}")
            n += 1
        elif inp.get("kind") == "sup":
            real = real_sup_affine(tuple(inp["a"]), tuple(inp["b"]), (5, 3))
            model = ctx.driver([f"c16sup {' '.join(map(str, inp['a']))} | {' '.join(map(str, inp['b']))}"], entry=ENTRY)[0]
            print(f"replay sup: real={real[:200]} model={model[:200]}")
            n += 1
    for w in rep.get("witnesses", []):
        print(f"replay witness {w['key']}: {json.dumps(w['input'], default=str)[:300]}")
        n += 1
    print(f"replayed {n} entries")


def run(ctx: Ctx, replay=None) -> int:
    ctx.rule = ("cases = (basis state tuple, gate sequence form, gate list) | (two basis state tuples) | integer | operation "
                "history; real quri-parts result vs Lean model result as exact strings: (n, bits, phase) integers, gate lists "
                "gate for gate with grid-angle integers / affine angle forms (cθ, cφ, c0) recovered from 4 probes, exception "
                "class; distinct = distinct canonical inputs with a non-empty gate list (track), a ≠ b (sup), x ≠ 0 (low), "
                "every history; plus the property on the real code against oracle/c16_state.py (numpy, n ≤ 6; counted in "
                "evaluations only); plus K5 (real code vs restated behaviour): == / hash / repr of basis states, state "
                "constructors and their error branches, quantum_state / apply_circuit, θ/φ argument forms, caller-reused "
                "argument objects, bit_length / parity_sign_of_bits; bit patterns handed over as numpy integer scalars; "
                "state handles replaced by copy.copy / copy.deepcopy / pickle round trips inside the derivation chains")
    ctx.trusted = TRUSTED
    ctx.assumptions = [
        "qubit counts and indices are naturals, bits and phase counters Python ints (ComputationalBasisState(-1) is out of scope)",
        "a multi-qubit Pauli gate with a repeated target (accepted by the public factory) is read as the product of its single-qubit "
        "factors in list order (model: sequential; oracle: oracle_repeated_targets, n ≤ 3, 2-3 factors, exhaustive); a code that "
        "refuses such gates is not judged",
        "phase counters in the correspondence stay within ±10^4 so that float round-off in `phase * π/2` stays far below the grid tolerance",
        "GeneralCircuitQuantumState / QuantumStateVector freeze/`+` of circuits is the Rust binary (aliasing of circuits: C20)",
    ]
    targets = list(LEAN_TARGETS) + (LEAN_TARGETS_THOROUGH if not ctx.quick() else [])
    mods = ["QuriVerif.Props.C16", "QuriVerif.Props.C16Lift"] + (["QuriVerif.Props.C16Deep"] if not ctx.quick() else [])
    ok = ctx.prove(targets, mods)
    if ok:
        names = [f"QV.Props.C16.{n}" for _, n, _ in ctx.count_obligations(["QuriVerif.Props.C16"])]
        names += [f"QV.Props.C16Lift.{n}" for _, n, _ in ctx.count_obligations(["QuriVerif.Props.C16Lift"]) if n not in ("chain_track", "chainS_track", "sup_ex")]
        if not ctx.quick():
            names += [f"QV.Props.C16Deep.{n}" for _, n, _ in ctx.count_obligations(["QuriVerif.Props.C16Deep"])]
        ctx.audit(names, mods)
    drv_ok, out = (True, "") if ok else ctx.lake_build(["QuriVerif.Driver.C16"])
    if not drv_ok:
        raise InfraError("cannot build the C16 driver: " + out[-800:])
    if replay:
        run_replay(ctx, replay)
    reg = Registry()
    with ctx.timed("correspond"):
        replay_known_witness(ctx)
        replay_apply_witness(ctx)
        k_track(ctx, reg)
        k_pauli_entry(ctx, reg)
        k_sup(ctx, reg)
        k_low(ctx)
        k_hist(ctx, reg)
        k_sem(ctx)
    with ctx.timed("objects"):
        k_sup_grid(ctx)
        k_objects(ctx)
        k_bitutils(ctx)
    with ctx.timed("oracle_validation"):
        broken = bool(ctx.failed_obligations or ctx.disagreements)
        budget = (3 if ctx.quick() else 150) * (8 if broken else 1)
        oracle_repeated_targets(ctx)
        oracle_search(ctx, budget, ctx.n(150, 1500) * (4 if broken else 1))
    return ctx.finish()
