"""C09 — Parameter-shift gradients and Hessians equal the analytic derivatives."""
from __future__ import annotations

import glob
import itertools
import json
import math
import os
import sys
import time
from fractions import Fraction

sys.path.insert(0, os.path.dirname(os.path.dirname(os.path.abspath(__file__))))

from common import VERIF, Ctx, InfraError  # noqa: E402

ENTRY = "DriverC09.lean"
PROPS = "QuriVerif.Props.C09"
PROPS_REAL = "QuriVerif.Props.C09Real"
LEAN_TARGETS = [PROPS, "QuriVerif.Driver.C09"]
LEAN_TARGETS_THOROUGH = [PROPS_REAL]
FINDING_F6 = "combine-same-subcircuit-shared-raw-params"
HALF_PI = math.pi / 2

TRUSTED = [
    "Lean 4.33 kernel incl. `decide +kernel` on the two concrete witness / non-vacuity computations; axioms audited ⊆ "
    "{propext, Classical.choice, Quot.sound}",
    "Model/C09.lean is a hand transcription of parameter_mapping.py (mapper, get_derivatives), parameter_shift.py "
    "(_get_linear_deriv, _get_derivative, get_derivatives, get_shifted_parameters_and_coef), gradient.py and hessian.py "
    "(Python dict = association list with distinct keys, frozenset of dict items = list sorted by key); tied to the working "
    "tree by the correspondence runs of this harness only (no translator: the code is an algorithm, not a table)",
    "TExp.deriv (Leibniz rule, cos' = −sin, sin' = cos) IS the derivative and a shift by k·π/2 IS k quarter turns of "
    "(cos φ, sin φ): proved against Mathlib's Real.cos / HasDerivAt in Props/C09Real.lean, which is built and audited in the "
    "thorough tier only (quick tier: the ring-level theorems of Props/C09.lean, valid in every commutative ring); "
    "cross-checked numerically every run by oracle/c09deriv.py (generator insertion)",
    "the Heisenberg-picture `Step` form of a gate (conjugation by exp(−iφP/2) = A + cos φ·B + sin φ·G with constant "
    "matrices) is the documented gate form of gates.py (PauliRotation/RX/RY/RZ = cos(φ/2) − i sin(φ/2) P); validated "
    "numerically by the value comparison against oracle/dense.py",
    "floats: the model computes with rationals; the correspondence uses dyadic inputs on which the code's float "
    "arithmetic is exact, rounding of general float inputs is outside the model (value checks use 1e-7)",
    "installed quri_parts.rust 0.27 binary provides Parameter / ParametricQuantumCircuit / bind_parameters (not built from /repo)",
    "correspondence harness harness/c09.py, driver Driver/C09.lean (parsing/printing), oracle/c09deriv.py + oracle/dense.py",
]
ASSUMPTIONS = [
    "exact estimator: returns the expectation value of the operator in the state prepared by the primitive circuit bound to the "
    "raw parameter vector it is handed (numpy dense-matrix estimator of this harness; the Qulacs vector estimator is used as a second one)",
    "documented gate matrices (gates.py) define the semantics",
    "RawDistinct: raw parameters of distinct gates are distinct (violated by combining the same sub-circuit twice — finding F6)",
]


# ---------------------------------------------------------------------------
# small helpers
# ---------------------------------------------------------------------------
def exc_name(e) -> str:
    return type(e).__name__


def fr(x: Fraction) -> str:
    return f"{x.numerator}/{x.denominator}"


def pfr(s: str) -> Fraction:
    n, d = s.split("/")
    return Fraction(int(n), int(d))


def dyadic(rng, bits=3, lo=-4, hi=4) -> Fraction:
    return Fraction(rng.randint(lo << bits, hi << bits), 1 << bits)


COEF_POOL = [Fraction(1), Fraction(-1), Fraction(1, 2), Fraction(-1, 2), Fraction(2), Fraction(3, 4), Fraction(-3, 2),
             Fraction(1, 4), Fraction(0), Fraction(5, 8), Fraction(-2)]


# ---------------------------------------------------------------------------
# specs (plain data, see oracle/c09deriv.py) and their real counterparts
# ---------------------------------------------------------------------------
FIXED_1Q = ["H", "X", "Y", "Z", "S", "Sdag", "T", "SqrtX", "SqrtY"]


def gen_ang(rng, P):
    if P == 0:
        return {"f": [] if rng.random() < 0.3 else [["c", list(_nd(dyadic(rng)))]]}
    r = rng.random()
    if r < 0.25:
        return {"p": rng.randrange(P)}
    ks = [i for i in range(P) if rng.random() < 0.6]
    if not ks and rng.random() < 0.8:
        ks = [rng.randrange(P)]
    rng.shuffle(ks)
    f = [[k, list(_nd(rng.choice(COEF_POOL)))] for k in ks]
    if rng.random() < 0.5:
        f.insert(rng.randint(0, len(f)), ["c", list(_nd(dyadic(rng)))])
    return {"f": f}


def _nd(x: Fraction):
    return x.numerator, x.denominator


def gen_op(rng, n):
    terms = []
    for _ in range(rng.randint(1, 3)):
        qs = [q for q in range(n) if rng.random() < 0.6]
        term = [(q, rng.randint(1, 3)) for q in qs]
        r = rng.random()
        if r < 0.6:
            c = (float(dyadic(rng)), 0.0)
        elif r < 0.85:
            c = (rng.uniform(-2, 2), 0.0)
        else:
            c = (rng.uniform(-2, 2), rng.uniform(-1, 1))
        terms.append([term, list(c)])
    # merge equal labels (an Operator is a dict)
    merged = {}
    for term, c in terms:
        k = tuple(term)
        merged[k] = (merged.get(k, (0.0, 0.0))[0] + c[0], merged.get(k, (0.0, 0.0))[1] + c[1])
    return [[list(k), list(v)] for k, v in merged.items()]


def gen_spec(rng, P=None, min_param_gates=0, max_len=6, max_n=3):
    n = rng.randint(1, max_n)
    if P is None:
        P = rng.choice([0, 1, 1, 2, 2, 2, 3, 4])
    gates = []
    L = rng.randint(max(1, min_param_gates), max_len)
    for idx in range(L):
        if rng.random() < 0.5 or (L - idx) <= (min_param_gates - sum(1 for g in gates if "ang" in g)):
            ang = gen_ang(rng, P)
            if rng.random() < 0.3:
                m = rng.randint(1, n)
                t = rng.sample(range(n), m)
                gates.append({"k": "PPR", "t": t, "ids": [rng.randint(1, 3) for _ in t], "ang": ang})
            else:
                gates.append({"k": rng.choice(["PRX", "PRY", "PRZ"]), "t": [rng.randrange(n)], "ang": ang})
        else:
            r = rng.random()
            if r < 0.45:
                gates.append({"k": rng.choice(FIXED_1Q), "t": [rng.randrange(n)]})
            elif r < 0.65:
                gates.append({"k": rng.choice(["RX", "RY", "RZ"]), "t": [rng.randrange(n)], "a": [rng.uniform(-3, 3)]})
            elif n >= 2:
                a, b = rng.sample(range(n), 2)
                k = rng.choice(["CNOT", "CZ", "SWAP"])
                gates.append({"k": k, "c": [a], "t": [b]} if k != "SWAP" else {"k": k, "t": [a, b]})
            else:
                gates.append({"k": "H", "t": [0]})
    return {"n": n, "P": P, "gates": gates, "op": gen_op(rng, n)}


def primitive_spec(rng):
    """a spec whose mapping is the identity (what a plain ParametricQuantumCircuit has)"""
    s = gen_spec(rng, P=0, min_param_gates=1)
    j = 0
    for g in s["gates"]:
        if "ang" in g:
            g["ang"] = {"p": j}
            j += 1
    s["P"] = j
    return s


def concat_specs(a, b):
    """spec of `A + B` for two circuits with separate input parameters"""
    n = max(a["n"], b["n"])
    gates = [dict(g) for g in a["gates"]]
    for g in b["gates"]:
        g = dict(g)
        if "ang" in g:
            ang = g["ang"]
            if "p" in ang:
                ang = {"p": ang["p"] + a["P"]}
            else:
                ang = {"f": [[k if k == "c" else k + a["P"], c] for k, c in ang["f"]]}
            g["ang"] = ang
        gates.append(g)
    return {"n": n, "P": a["P"] + b["P"], "gates": gates, "op": a["op"]}


def real_fixed_gate(g):
    from quri_parts.circuit import gates as G

    k = g["k"]
    if k in ("CNOT", "CZ"):
        return getattr(G, k)(g["c"][0], g["t"][0])
    if k == "SWAP":
        return G.SWAP(g["t"][0], g["t"][1])
    if k in ("RX", "RY", "RZ"):
        return getattr(G, k)(g["t"][0], g["a"][0])
    return getattr(G, k)(g["t"][0])


def real_angle(ang, ps):
    from quri_parts.circuit import CONST

    if "p" in ang:
        return ps[ang["p"]]
    return {(CONST if k == "c" else ps[k]): float(Fraction(*c)) for k, c in ang["f"]}


def build_linear(spec, n=None):
    from quri_parts.circuit import LinearMappedParametricQuantumCircuit

    c = LinearMappedParametricQuantumCircuit(n or spec["n"])
    ps = c.add_parameters(*[f"t{i}" for i in range(spec["P"])])
    for g in spec["gates"]:
        if "ang" in g:
            a = real_angle(g["ang"], ps)
            if g["k"] == "PPR":
                c.add_ParametricPauliRotation_gate(g["t"], g["ids"], a)
            else:
                getattr(c, {"PRX": "add_ParametricRX_gate", "PRY": "add_ParametricRY_gate", "PRZ": "add_ParametricRZ_gate"}[g["k"]])(g["t"][0], a)
        else:
            c.add_gate(real_fixed_gate(g))
    return c


def build_primitive(spec):
    from quri_parts.circuit import ParametricQuantumCircuit

    c = ParametricQuantumCircuit(spec["n"])
    for g in spec["gates"]:
        if "ang" in g:
            if g["k"] == "PPR":
                c.add_ParametricPauliRotation_gate(g["t"], g["ids"])
            else:
                getattr(c, {"PRX": "add_ParametricRX_gate", "PRY": "add_ParametricRY_gate", "PRZ": "add_ParametricRZ_gate"}[g["k"]])(g["t"][0])
        else:
            c.add_gate(real_fixed_gate(g))
    return c


def real_operator(spec):
    from quri_parts.core.operator import PAULI_IDENTITY, Operator, pauli_label

    names = {1: "X", 2: "Y", 3: "Z"}
    op = Operator()
    for term, (re, im) in spec["op"]:
        lbl = pauli_label(" ".join(f"{names[p]}{q}" for q, p in term)) if term else PAULI_IDENTITY
        op[lbl] = complex(re, im) if im else re
    return op


# ---------------------------------------------------------------------------
# canonical dump of a real LinearParameterMapping / ShiftedParameters
# ---------------------------------------------------------------------------
class Ids:
    """Parameter -> small integer, by the equality the code itself uses for dict keys (`==`; identity of the underlying
    Rust object — the Python wrapper objects handed out by the binary need not be identical)"""

    def __init__(self):
        self.objs = []

    def __call__(self, p):
        for i, o in enumerate(self.objs):
            if o == p:
                return i
        self.objs.append(p)
        return len(self.objs) - 1


def dump_mapping(pm):
    """(ins, outs, entries, in-ids, raw-ids); entries = [(raw, ('P', i) | ('F', [(key, Fraction)]))]"""
    from quri_parts.circuit import CONST, Parameter

    iid, rid = Ids(), Ids()
    ins = [iid(p) for p in pm.in_params]
    outs = [rid(p) for p in pm.out_params]
    entries = []
    for raw, fn in sorted(pm.mapping.items(), key=lambda kv: rid(kv[0])):
        r = rid(raw)
        if isinstance(fn, Parameter):
            entries.append((r, ("P", iid(fn))))
        else:
            entries.append((r, ("F", [("c" if p == CONST else iid(p), Fraction(c)) for p, c in fn.items()])))
    return ins, outs, entries, iid, rid


def enc_mapping(ins, outs, entries) -> str:
    es = []
    for r, (tag, v) in entries:
        if tag == "P":
            es.append(f"{r}=P{v}")
        else:
            es.append(f"{r}=F" + ",".join(f"{k}:{fr(c)}" for k, c in v))
    return f"{','.join(map(str, ins)) or '-'} # {','.join(map(str, outs)) or '-'} # {';'.join(es) or '-'}"


def py_phi(ins, outs, entries, vals):
    """independent evaluation of the raw angles (Fractions) along `outs`; None when the mapper has to raise KeyError"""
    theta = {}
    for p, v in zip(ins, vals):
        theta[p] = Fraction(v)
    emap = dict(entries)
    out = []
    for r in outs:
        if r not in emap:
            return None
        tag, v = emap[r]
        if tag == "P":
            if v not in theta:
                return None
            out.append(theta[v])
        else:
            s = Fraction(0)
            for k, c in v:
                if k == "c":
                    s += c
                elif k in theta:
                    s += c * theta[k]
                else:
                    return None
            out.append(s)
    return out


def canon_terms(sp, rid):
    out = []
    for shifts, coef in sp.shifts_with_coef:
        out.append((tuple(sorted((rid(p), int(k)) for p, k in shifts)), Fraction(coef)))
    return sorted(out)


def parse_terms(s: str):
    s = s.strip()
    if not s:
        return []
    out = []
    for t in s.split(";"):
        sh, co = t.split("@")
        key = tuple(sorted((int(a.split(":")[0]), int(a.split(":")[1])) for a in sh.split(",") if a))
        out.append((key, pfr(co)))
    return sorted(out)


def parse_vec_terms(s: str):
    """-> sorted [((k...), coef)], and the value vector (must be the same for every term)"""
    s = s.strip()
    if not s:
        return [], None
    out, vals = [], None
    for t in s.split(";"):
        vec, co = t.split("@")
        vs, ks = [], []
        for a in vec.split(","):
            if a:
                v, k = a.split(":")
                vs.append(pfr(v))
                ks.append(int(k))
        if vals is None:
            vals = vs
        elif vals != vs:
            vals = "inconsistent"
        out.append((tuple(ks), pfr(co)))
    return sorted(out), vals


def split_exact(body: str, sep: str, n: int):
    """split a driver list of n items (n = 0 -> empty string)"""
    if n == 0:
        return [] if not body.strip() else None
    parts = body.split(sep)
    return parts if len(parts) == n else None


def decode_real_terms(pairs, phis):
    """real [(float vector, coef)] -> sorted [((k...), coef)] using the harness' own raw angles; None if some entry is not
    of the form φ_i + k·π/2"""
    out = []
    for vec, coef in pairs:
        if len(vec) != len(phis):
            return None
        ks = []
        for x, ph in zip(vec, phis):
            k = round((float(x) - float(ph)) / HALF_PI)
            if abs(float(x) - (float(ph) + k * HALF_PI)) > 1e-9:
                return None
            ks.append(k)
        out.append((tuple(ks), Fraction(coef)))
    return sorted(out)


# ---------------------------------------------------------------------------
# estimators
# ---------------------------------------------------------------------------
class Est:
    def __init__(self, value, error=0.0):
        self.value = value
        self.error = error


def mock_estimator(phis, log):
    """exact integer-valued estimator shared with the Lean driver: (h² + 5h) mod 1009, h = Σ_i (k_i + 3)·7^i"""

    def est(op, state, plist):
        res = []
        for p in plist:
            h = 0
            for i, x in enumerate(p):
                ph = float(phis[i]) if i < len(phis) else 0.0
                k = round((float(x) - ph) / HALF_PI)
                if abs(float(x) - (ph + k * HALF_PI)) > 1e-9 or i >= len(phis):
                    log.append(("not-a-quarter-turn-shift", list(map(float, p))))
                h += (k + 3) * 7 ** i
            res.append(Est(complex(float((h * h + 5 * h) % 1009)), 0.0))
        return res

    return est


def numpy_estimator(spec):
    """exact estimator: dense-matrix expectation of the spec's operator in the state prepared by the REAL bound circuit"""
    import numpy as np

    from oracle import c09deriv, dense

    o = c09deriv.op_matrix(spec)
    n = spec["n"]

    def est(op, state, plist):
        res = []
        for p in plist:
            bc = state.parametric_circuit.bind_parameters(list(p))
            u = dense.circuit_unitary(n, bc.gates)
            psi = u[:, 0] if "init" not in spec else u @ np.array([complex(a, b) for a, b in spec["init"]])
            res.append(Est(complex(np.vdot(psi, o @ psi)), 0.0))
        return res

    return est


def stub_state(pm):
    """a ParametricCircuitQuantumState whose circuit only has a `param_mapping` (for mappings built directly)"""
    from quri_parts.core.state import ParametricCircuitQuantumState

    class _Circ:
        param_mapping = pm

    class Stub(ParametricCircuitQuantumState):
        def __init__(self):  # noqa: D401
            pass

        @property
        def parametric_circuit(self):
            return _Circ

        def with_primitive_circuit(self):
            return self

    return Stub()


# ---------------------------------------------------------------------------
# correspondence on one mapping
# ---------------------------------------------------------------------------
def values_to_fracs(vals):
    out = []
    for v in vals:
        c = complex(v)
        if c.imag != 0.0:
            return None
        out.append(Fraction(c.real))
    return out


def analyse_mapping(ctx: Ctx, what, pm, vals, state, reqs, pend, order2=True, sample=None, spec=None):
    """run the real functions on one (mapping, parameter values) and queue the model requests"""
    from quri_parts.circuit.parameter_shift import ShiftedParameters
    from quri_parts.core.estimator.gradient import parameter_shift_gradient_estimates
    from quri_parts.core.estimator.hessian import parameter_shift_hessian_estimates

    ins, outs, entries, iid, rid = dump_mapping(pm)
    menc = enc_mapping(ins, outs, entries)
    venc = ",".join(fr(Fraction(v)) for v in vals) or "-"
    info = {"what": what, "mapping": menc, "vals": venc, "P": len(ins), "outs": outs, "real": {}, "req": {}, "spec": spec}
    real = info["real"]
    phis = py_phi(ins, outs, entries, vals)
    info["phis"] = phis
    fvals = [float(v) for v in vals]
    # 1. derivative of the linear mapping
    try:
        dms = pm.get_derivatives()
        dd = []
        for d in dms:
            if [iid(p) for p in d.in_params] != ins or [rid(p) for p in d.out_params] != outs:
                ctx.disagree("derivmaps:in/out params changed", info["mapping"], "params differ", "same in/out params")
            from quri_parts.circuit import CONST

            dd.append(sorted((rid(r), Fraction(fn[CONST])) for r, fn in d.mapping.items()))
        real["derivmaps"] = ("ok", dd)
    except Exception as e:  # noqa: BLE001 — behaviour of the real code
        real["derivmaps"] = ("err", exc_name(e))
    reqs.append(f"c09derivmaps {menc}")
    info["req"]["derivmaps"] = len(reqs) - 1
    # 2. shift sets, first and second order
    try:
        sp = ShiftedParameters(pm)
        d1 = sp.get_derivatives()
        real["sp1"] = ("ok", [canon_terms(d, rid) for d in d1])
        if order2:
            d2 = [d.get_derivatives() for d in d1]
            real["sp2"] = ("ok", [[canon_terms(d, rid) for d in row] for row in d2])
    except Exception as e:  # noqa: BLE001
        real["sp1"] = ("err", exc_name(e))
        d1, d2 = None, None
    reqs.append(f"c09sp 1 | {menc}")
    info["req"]["sp1"] = len(reqs) - 1
    if order2:
        reqs.append(f"c09sp 2 | {menc}")
        info["req"]["sp2"] = len(reqs) - 1
    # 3. shifted raw parameter vectors
    if d1 is not None:
        try:
            r1 = [d.get_shifted_parameters_and_coef(fvals) for d in d1]
            real["sh1"] = ("ok", r1)
        except Exception as e:  # noqa: BLE001
            real["sh1"] = ("err", exc_name(e))
        reqs.append(f"c09shifted 1 | {menc} | {venc}")
        info["req"]["sh1"] = len(reqs) - 1
        if order2 and d2 is not None:
            try:
                r2 = [[d.get_shifted_parameters_and_coef(fvals) for d in row] for row in d2]
                real["sh2"] = ("ok", r2)
            except Exception as e:  # noqa: BLE001
                real["sh2"] = ("err", exc_name(e))
            reqs.append(f"c09shifted 2 | {menc} | {venc}")
            info["req"]["sh2"] = len(reqs) - 1
    # 4. gradient.py / hessian.py with the exact mock estimator
    log = []
    info["mocklog"] = log
    mock = mock_estimator(phis or [], log)
    try:
        g = parameter_shift_gradient_estimates(None, state, fvals, mock)
        real["grad"] = ("ok", list(g.values))
    except Exception as e:  # noqa: BLE001
        real["grad"] = ("err", exc_name(e))
    reqs.append(f"c09grad 1 | {menc} | {venc}")
    info["req"]["grad"] = len(reqs) - 1
    if order2:
        try:
            h = parameter_shift_hessian_estimates(None, state, fvals, mock)
            real["hess"] = ("ok", [list(r) for r in h.values])
        except Exception as e:  # noqa: BLE001
            real["hess"] = ("err", exc_name(e))
        reqs.append(f"c09grad 2 | {menc} | {venc}")
        info["req"]["hess"] = len(reqs) - 1
    nontrivial = any(t for d in (real.get("sp1", ("", []))[1] if real.get("sp1", ("err",))[0] == "ok" else []) for t in d)
    ctx.case((what.split(":")[0], menc, venc), nontrivial, sample)
    ctx.count("mapping_kind", what.split(":")[0])
    ctx.count("in_params", str(len(ins)))
    ctx.count("out_params", str(len(outs)))
    pend.append(info)
    return info


def compare_pending(ctx: Ctx, reqs, pend):
    resp = ctx.driver(reqs, entry=ENTRY)
    for info in pend:
        P, real, rq = info["P"], info["real"], info["req"]
        inp = {"mapping": info["mapping"], "vals": info["vals"], "source": info["what"]}
        ctx.traces += 1
        info["_d0"] = len(ctx.disagreements)

        def model(name):
            r = resp[rq[name]]
            if r == "bad-request":
                raise InfraError(f"driver rejected request {reqs[rq[name]][:300]}")
            return r

        # derivative maps
        r = model("derivmaps")
        st, rv = real["derivmaps"]
        parts = split_exact(r[3:], " | ", P)
        mv = None if parts is None else [sorted((int(a.split(":")[0]), pfr(a.split(":")[1])) for a in p.split(",") if a.strip()) for p in parts]
        if st != "ok" or mv != rv:
            ctx.disagree("get_derivatives(mapping)", inp, str(rv)[:400], r[:400])
        # shift sets
        for name, depth in (("sp1", 1), ("sp2", 2)):
            if name not in rq:
                continue
            r = model(name)
            st, rv = real.get(name, real["sp1"])
            if st != "ok":
                ctx.disagree(f"shift-sets order {depth}", inp, f"raises {rv}", r[:300])
                continue
            body = r[3:]
            if depth == 1:
                parts = split_exact(body, " | ", P)
                mv = None if parts is None else [parse_terms(p) for p in parts]
            else:
                rows = split_exact(body, " || ", P)
                mv = None
                if rows is not None:
                    mv = []
                    for row in rows:
                        parts = split_exact(row, " | ", P)
                        mv.append(None if parts is None else [parse_terms(p) for p in parts])
            if mv != rv:
                ctx.disagree(f"shift-sets order {depth}", inp, str(rv)[:500], r[:500])
            else:
                ctx.count("shift_terms_order%d" % depth, str(sum(len(t) for t in (rv if depth == 1 else [x for row in rv for x in row]))))
        # shifted raw parameter vectors
        for name, depth in (("sh1", 1), ("sh2", 2)):
            if name not in rq:
                continue
            r = model(name)
            st, rv = real[name]
            if r.startswith("err "):
                ctx.count("outcome", "raises:" + r[4:])
                if st != "err" or rv != r[4:]:
                    ctx.disagree(f"get_shifted_parameters_and_coef order {depth}", inp, str((st, str(rv)[:200])), r)
                continue
            if st != "ok":
                ctx.disagree(f"get_shifted_parameters_and_coef order {depth}", inp, f"raises {rv}", r[:300])
                continue
            ctx.count("outcome", "ok")
            body = r[3:]
            phis = info["phis"]
            flat_real = rv if depth == 1 else [x for row in rv for x in row]
            if depth == 1:
                parts = split_exact(body, " | ", P)
            else:
                rows = split_exact(body, " || ", P)
                parts = None if rows is None else [x for row in rows for x in (split_exact(row, " | ", P) or [None] * (P + 1))]
            ok = parts is not None and len(parts) == len(flat_real) and (phis is not None or not flat_real)
            if ok:
                for p, rr in zip(parts, flat_real):
                    if p is None:
                        ok = False
                        break
                    mt, mvals = parse_vec_terms(p)
                    rt = decode_real_terms(rr, phis)
                    if rt is None or rt != mt or (mvals is not None and mvals != phis):
                        ok = False
                        break
            if not ok:
                ctx.disagree(f"get_shifted_parameters_and_coef order {depth}", inp, str(flat_real)[:500], r[:500])
        # gradient / hessian with the mock estimator
        if info["mocklog"]:
            ctx.disagree("estimator input is not φ + k·π/2", inp, str(info["mocklog"][:2]), "raw angles shifted by integer multiples of π/2")
        for name in ("grad", "hess"):
            if name not in rq:
                continue
            r = model(name)
            st, rv = real[name]
            if r.startswith("err "):
                if st != "err" or rv != r[4:]:
                    ctx.disagree(f"{name} (mock estimator)", inp, str((st, str(rv)[:200])), r)
                continue
            if st != "ok":
                ctx.disagree(f"{name} (mock estimator)", inp, f"raises {rv}", r[:300])
                continue
            body = r[3:].strip()
            if name == "grad":
                mv = [pfr(x) for x in body.split(",")] if body else []
                rvf = values_to_fracs(rv)
            else:
                mv = [[pfr(x) for x in row.split(",")] for row in body.split(";")] if body else []
                rows = [values_to_fracs(row) for row in rv]
                rvf = None if any(x is None for x in rows) else rows
            if rvf != mv:
                ctx.disagree(f"{name} (mock estimator)", inp, str(rv)[:400], r[:400])
        if len(ctx.disagreements) > info["_d0"] and info.get("spec") is not None and info["what"] in ("linear", "primitive"):
            TARGETS.append((info["what"], info["spec"]))


# ---------------------------------------------------------------------------
# generators of correspondence cases
# ---------------------------------------------------------------------------
TARGETS: list = []  # (flavour, spec) of real circuits on which model and code disagreed: first stop of the failing-input search


def targeted_search(ctx: Ctx, limit=40):
    """the circuits whose mapping / shift data disagreed with the model, re-examined against the property itself
    (analytic derivatives) at a generic parameter point with pairwise different components"""
    rng = ctx.rng
    worst = {"grad": 0.0, "hess": 0.0, "symm": 0.0, "num_ratio": 0.0}
    for flavour, spec in TARGETS[:limit]:
        try:
            c = build_primitive(spec) if flavour == "primitive" else build_linear(spec)
        except Exception:  # noqa: BLE001
            continue
        theta = [rng.uniform(-3, 3) + 0.37 * i for i in range(spec["P"])]
        validate_one(ctx, spec, c, flavour + "+targeted", theta, numpy_estimator(spec), worst, lambda: True)
        ctx.evaluations += 1
    ctx.extra["targeted_search"] = {"targets": len(TARGETS), "examined": min(len(TARGETS), limit)}


def k_circuits(ctx: Ctx, n_cases: int):
    """mappings of real circuits built through the public API (linear mapped, primitive, A + B, sub + sub)"""
    from quri_parts.core.state import quantum_state

    rng = ctx.rng
    reqs, pend = [], []
    for i in range(n_cases):
        r = rng.random()
        try:
            if r < 0.6:
                spec = gen_spec(rng)
                c = build_linear(spec)
                what = "linear"
            elif r < 0.72:
                spec = primitive_spec(rng)
                c = build_primitive(spec)
                what = "primitive"
            elif r < 0.88:
                a, b = gen_spec(rng, max_len=3), gen_spec(rng, max_len=3)
                n = max(a["n"], b["n"])
                spec = concat_specs(a, b)
                c = build_linear(a, n) + build_linear(b, n)
                what = "combined"
            else:
                spec = gen_spec(rng, P=rng.choice([1, 2]), min_param_gates=1, max_len=3)
                sub = build_linear(spec)
                c = sub + sub
                what = "sub+sub"
        except Exception as e:  # noqa: BLE001
            raise InfraError(f"could not build a real circuit from a generated spec: {e!r}")
        pm = c.param_mapping
        P = len(pm.in_params)
        vals = [dyadic(rng) for _ in range(P)]
        if rng.random() < 0.06 and P:
            vals = vals[:-1]  # too few values -> KeyError in the mapper (or silently unused)
        elif rng.random() < 0.04:
            vals = vals + [dyadic(rng)]
        state = quantum_state(spec["n"] if what != "combined" else c.qubit_count, circuit=c)
        big = len(pm.out_params) > 6 or P > 4
        analyse_mapping(ctx, what, pm, vals, state, reqs, pend, order2=not big,
                        sample={"source": what, "spec_gates": [g["k"] for g in spec["gates"]]} if i < 3 else None, spec=spec)
    compare_pending(ctx, reqs, pend)


def make_direct_mapping(ins_ids, outs_ids, entries):
    """LinearParameterMapping built directly from an id-level description"""
    from quri_parts.circuit import CONST, Parameter
    from quri_parts.circuit.parameter_mapping import LinearParameterMapping

    ip, rp = {}, {}

    def I(i):
        if i not in ip:
            ip[i] = Parameter(f"i{i}")
        return ip[i]

    def Rw(i):
        if i not in rp:
            rp[i] = Parameter(f"r{i}")
        return rp[i]

    mapping = {}
    for r, (tag, v) in entries:
        mapping[Rw(r)] = I(v) if tag == "P" else {(CONST if k == "c" else I(k)): float(c) for k, c in v}
    return LinearParameterMapping([I(i) for i in ins_ids], [Rw(r) for r in outs_ids], mapping)


def gen_direct(rng):
    P = rng.randint(0, 3)
    R = rng.randint(0, 4)
    ins = list(range(P))
    if P >= 1 and rng.random() < 0.1:
        ins.append(rng.choice(ins))  # duplicated input parameter
    outs = list(range(R))
    if R >= 1 and rng.random() < 0.12:
        outs.insert(rng.randint(0, len(outs)), rng.choice(outs))  # duplicated raw parameter
    entries = []
    keys = list(range(R))
    if R >= 1 and rng.random() < 0.08:
        keys.remove(rng.choice(keys))  # an output parameter without mapping entry
    if rng.random() < 0.1:
        keys.append(R + 3)  # a mapping entry that is not an output parameter
    rng.shuffle(keys)
    pool = list(range(P)) + ([P + 5] if rng.random() < 0.08 else [])  # P+5: not an input parameter
    for r in keys:
        if pool and rng.random() < 0.25:
            entries.append((r, ("P", rng.choice(pool))))
        else:
            ks = [k for k in pool if rng.random() < 0.6]
            rng.shuffle(ks)
            f = [(k, rng.choice(COEF_POOL)) for k in ks]
            if rng.random() < 0.5:
                f.insert(rng.randint(0, len(f)), ("c", dyadic(rng)))
            entries.append((r, ("F", f)))
    vals = [dyadic(rng) for _ in ins]
    if rng.random() < 0.1 and vals:
        vals = vals[:-1]
    elif rng.random() < 0.05:
        vals.append(dyadic(rng))
    return ins, outs, entries, vals


def k_direct(ctx: Ctx, n_cases: int, extra=()):
    """LinearParameterMapping objects built directly (including malformed ones) through a stub state"""
    rng = ctx.rng
    reqs, pend = [], []
    cases = list(extra) + [gen_direct(rng) for _ in range(n_cases)]
    for i, (ins, outs, entries, vals) in enumerate(cases):
        pm = make_direct_mapping(ins, outs, entries)
        analyse_mapping(ctx, "direct", pm, vals, stub_state(pm), reqs, pend, order2=True,
                        sample={"source": "direct", "mapping": enc_mapping(ins, outs, entries)} if i < 2 else None)
    compare_pending(ctx, reqs, pend)


def exhaustive_small(ctx: Ctx):
    """all mappings with 2 input and 2 output parameters over a small coefficient set (thorough tier)"""
    cs = [Fraction(0), Fraction(1), Fraction(-1, 2), Fraction(2)]
    per_out = [("P", 0), ("P", 1)]
    for a, b in itertools.product([None] + cs, repeat=2):
        for const in (None, Fraction(1, 4)):
            f = ([(0, a)] if a is not None else []) + ([(1, b)] if b is not None else []) + ([("c", const)] if const is not None else [])
            per_out.append(("F", f))
    cases = []
    for v0, v1 in itertools.product(per_out, repeat=2):
        cases.append(([0, 1], [0, 1], [(0, v0), (1, v1)], [Fraction(1, 2), Fraction(-3, 4)]))
    ctx.extra["exhaustive_small_mappings"] = len(cases)
    k_direct(ctx, 0, extra=cases)


def k_numerical(ctx: Ctx, n_cases: int):
    """numerical_gradient_estimates with an exact rational mock estimator"""
    from quri_parts.core.estimator.gradient import numerical_gradient_estimates

    rng = ctx.rng
    reqs, pend = [], []
    for _ in range(n_cases):
        P = rng.randint(0, 4)
        vals = [dyadic(rng, bits=3) for _ in range(P)]
        delta = rng.choice([Fraction(1, 2 ** k) for k in range(1, 7)] + [Fraction(-1, 8), Fraction(0), Fraction(2)])
        seen = []

        def mock(op, state, vs, seen=seen):
            out = []
            for v in vs:
                seen.append([Fraction(x) for x in v])
                s = sum((i + 1) * Fraction(x) * Fraction(x) for i, x in enumerate(v))
                if len(v):
                    s += Fraction(v[0]) * Fraction(v[-1])
                out.append(Est(complex(float(s)), 0.0))
            return out

        try:
            g = numerical_gradient_estimates(None, None, [float(v) for v in vals], mock, float(delta))
            real = ("ok", values_to_fracs(g.values))
        except Exception as e:  # noqa: BLE001
            real = ("err", exc_name(e))
        reqs.append(f"c09num {','.join(map(fr, vals)) or '-'} | {fr(delta)}")
        pend.append((vals, delta, real, seen))
        ctx.case(("num", tuple(vals), delta), P > 0)
        ctx.count("numerical_delta", str(delta))
    resp = ctx.driver(reqs, entry=ENTRY)
    for (vals, delta, real, seen), r in zip(pend, resp):
        ctx.traces += 1
        inp = {"params": list(map(str, vals)), "delta": str(delta)}
        head, vecs = r.split(" # ")
        mvecs = [[pfr(x) for x in v.split(",") if x] for v in vecs.split(";")] if vecs.strip() else []
        if seen != mvecs:
            ctx.disagree("numerical gradient: parameter vectors", inp, str(seen)[:300], vecs[:300])
        if head.startswith("err "):
            if real != ("err", head[4:]):
                ctx.disagree("numerical gradient", inp, str(real)[:300], head)
            continue
        mv = [pfr(x) for x in head[3:].split(",") if x.strip()]
        if real != ("ok", mv):
            ctx.disagree("numerical gradient", inp, str(real)[:300], head[:300])


# ---------------------------------------------------------------------------
# oracle validation / failing-input search on the REAL code
# ---------------------------------------------------------------------------
def describe_case(spec, theta, flavour):
    return {"flavour": flavour, "spec": spec, "theta": [repr(float(t)) for t in theta]}


def _imports_validate():
    from quri_parts.core.estimator import gradient as G
    from quri_parts.core.estimator import hessian as H

    return G, H


def validate_one(ctx: Ctx, spec, c, flavour, theta, est, worst, choose):
    """one oracle comparison on the real code; `choose()` picks between the plain functions and the create_* wrappers"""
    import numpy as np

    from oracle import c09deriv
    from quri_parts.core.state import quantum_state

    G, H = _imports_validate()
    P = spec["P"]
    op = real_operator(spec)
    if "init" in spec:
        state = quantum_state(spec["n"], circuit=c, vector=np.array([complex(a, b) for a, b in spec["init"]]))
    else:
        state = quantum_state(spec["n"], circuit=c)
    case = describe_case(spec, theta, flavour)
    gt, ht = c09deriv.grad_hess(spec, theta, want_hess=True)
    onorm = sum(abs(complex(*cc)) for _, cc in spec["op"])
    scale = 1.0 + onorm * (1.0 + max([sum(abs(float(x)) for x in row) for row in c09deriv.mapping_matrix(spec)[0]] + [0.0])) ** 2
    try:
        if choose():
            g = G.parameter_shift_gradient_estimates(op, state, theta, est)
        else:
            g = G.create_parameter_shift_gradient_estimator(est)(op, state, theta)
        gv = np.array([complex(x) for x in g.values])
    except Exception as e:  # noqa: BLE001
        ctx.witness("gradient-raises", f"parameter-shift gradient raises {exc_name(e)} on a well-formed circuit", case)
        return
    dg = float(np.max(np.abs(gv - gt))) if P and len(gv) == P else 0.0
    worst["grad"] = max(worst["grad"], dg / scale)
    if len(gv) != P or dg > 1e-7 * scale:
        ctx.witness("gradient-value", f"parameter-shift gradient differs from the analytic derivative by {dg:.3g}", case,
                    {"real": [str(x) for x in gv], "analytic": [str(x) for x in gt]})
    if P <= 5 and len(c09deriv.param_gates(spec)) <= 6:
        try:
            if choose():
                h = H.parameter_shift_hessian_estimates(op, state, theta, est)
            else:
                h = H.create_parameter_shift_hessian_estimator(est)(op, state, theta)
            hv = np.array([[complex(x) for x in row] for row in h.values]).reshape(P, P)
        except Exception as e:  # noqa: BLE001
            ctx.witness("hessian-raises", f"parameter-shift Hessian raises {exc_name(e)} on a well-formed circuit", case)
            return
        dh = float(np.max(np.abs(hv - ht))) if P else 0.0
        ds = float(np.max(np.abs(hv - hv.T))) if P else 0.0
        worst["hess"] = max(worst["hess"], dh / scale)
        worst["symm"] = max(worst["symm"], ds / scale)
        if dh > 1e-7 * scale:
            ctx.witness("hessian-value", f"parameter-shift Hessian differs from the analytic second derivative by {dh:.3g}", case,
                        {"real": [[str(x) for x in row] for row in hv], "analytic": [[str(x) for x in row] for row in ht]})
        if ds > 1e-9 * scale:
            ctx.witness("hessian-asymmetric", f"parameter-shift Hessian is not symmetric (|H − Hᵀ| = {ds:.3g})", case)
    # numerical gradient: |error| ≤ L3·δ²/24 (+ round-off) with L3 a rigorous bound on the third derivative,
    # i.e. it converges to the same values as δ decreases
    l3 = c09deriv.third_derivative_bound(spec)
    for delta in (1e-2, 1e-3, 1e-4):
        try:
            if delta == 1e-3:
                ng = G.create_numerical_gradient_estimator(est, delta)(op, state, theta)
            else:
                ng = G.numerical_gradient_estimates(op, state, theta, est, delta)
            nv = np.array([complex(x) for x in ng.values])
        except Exception as e:  # noqa: BLE001
            ctx.witness("numerical-gradient-raises", f"numerical gradient raises {exc_name(e)}", case)
            break
        if len(nv) != P:
            ctx.witness("numerical-gradient-value", f"numerical gradient has {len(nv)} entries for {P} parameters", case)
            break
        for i in range(P):
            bound = l3[i] * delta * delta / 24 + 1e-8 * (1 + onorm)
            err = abs(nv[i] - gt[i])
            worst["num_ratio"] = max(worst["num_ratio"], err / bound)
            if err > bound:
                ctx.witness("numerical-gradient-value",
                            f"numerical gradient (δ={delta}) is {err:.3g} away from the derivative, bound {bound:.3g}", case,
                            {"index": i, "real": str(nv[i]), "analytic": str(gt[i])})


def get_qulacs_estimator():
    try:
        from quri_parts.qulacs.estimator import create_qulacs_vector_concurrent_parametric_estimator

        return create_qulacs_vector_concurrent_parametric_estimator()
    except Exception:  # noqa: BLE001 — optional second estimator
        return None


def validate(ctx: Ctx, budget_s: float, max_cases: int):
    """real parameter-shift gradient / Hessian and numerical gradient with an exact estimator vs generator-insertion
    derivatives computed from the plain spec by oracle/c09deriv.py"""
    import numpy as np

    qulacs_est = get_qulacs_estimator()
    rng = ctx.rng
    t0 = time.time()
    n_eval = 0
    worst = {"grad": 0.0, "hess": 0.0, "symm": 0.0, "num_ratio": 0.0}
    while time.time() - t0 < budget_s and n_eval < max_cases:
        r = rng.random()
        if r < 0.1:
            # every declared parameter drives exactly one gate with coefficient 1, in an order different from the
            # declaration order (a "trivial" mapping that is not the identity)
            spec = primitive_spec(rng)
            perm = list(range(spec["P"]))
            rng.shuffle(perm)
            for g in spec["gates"]:
                if "ang" in g:
                    g["ang"] = {"p": perm[g["ang"]["p"]]}
            c, flavour = build_linear(spec), "linear-permuted"
        elif r < 0.65:
            spec = gen_spec(rng, P=rng.choice([1, 2, 2, 3, 4, 5]), min_param_gates=1)
            c, flavour = build_linear(spec), "linear"
        elif r < 0.8:
            spec = primitive_spec(rng)
            c, flavour = build_primitive(spec), "primitive"
        else:
            a, b = gen_spec(rng, P=rng.choice([1, 2]), min_param_gates=1, max_len=3), gen_spec(rng, max_len=3)
            n = max(a["n"], b["n"])
            spec = concat_specs(a, b)
            c, flavour = build_linear(a, n) + build_linear(b, n), "combined"
        theta = [float(dyadic(rng)) if rng.random() < 0.3 else rng.uniform(-7, 7) for _ in range(spec["P"])]
        if rng.random() < 0.15:
            # legal argument types other than a list of floats: Python ints, a tuple, an integer numpy array
            ints = [rng.randint(-3, 3) for _ in range(spec["P"])]
            theta = rng.choice([ints, tuple(ints), np.array(ints, dtype=np.int64)])
            flavour_suffix = "+int-params"
        else:
            flavour_suffix = ""
        if rng.random() < 0.15:
            amp = np.array([complex(rng.gauss(0, 1), rng.gauss(0, 1)) for _ in range(1 << spec["n"])])
            amp = amp / np.linalg.norm(amp)
            spec["init"] = [[float(a.real), float(a.imag)] for a in amp]
            flavour += "+vector"
        use_q = qulacs_est is not None and rng.random() < 0.4
        est = qulacs_est if use_q else numpy_estimator(spec)
        ctx.count("validate_estimator", "qulacs" if use_q else "numpy-dense")
        ctx.count("validate_flavour", flavour)
        n_eval += 1
        validate_one(ctx, spec, c, flavour + flavour_suffix, theta, est, worst, lambda: rng.random() < 0.5)
    prev = ctx.extra.get("oracle_validation", {"cases": 0})
    ctx.extra["oracle_validation"] = {"cases": prev["cases"] + n_eval,
                                      **{k: max(float(f"{v:.3g}"), prev.get(k, 0.0)) for k, v in worst.items()}}
    ctx.evaluations += n_eval
    ctx.search_budget_s = round(ctx.search_budget_s + (time.time() - t0), 2)


def replay_spec(ctx: Ctx, case):
    """re-run one recorded oracle case (witness input produced by describe_case)"""
    spec, flavour = case["spec"], case["flavour"]
    spec["op"] = [[[tuple(t) for t in term], c] for term, c in spec["op"]]
    theta = [float(t) for t in case["theta"]]
    if flavour == "sub+sub primitive":
        f6_check_primitive(ctx)
        return
    if flavour.startswith("sub+sub"):
        f6_check(ctx, [(spec, theta[-1:])])
        return
    c = build_primitive(spec) if flavour.startswith("primitive") else build_linear(spec)
    worst = {"grad": 0.0, "hess": 0.0, "symm": 0.0, "num_ratio": 0.0}
    ests = [numpy_estimator(spec)] + ([get_qulacs_estimator()] if get_qulacs_estimator() is not None else [])
    for est in ests:
        for pick in (True, False):
            validate_one(ctx, spec, c, flavour, theta, est, worst, lambda: pick)
    ctx.evaluations += 1


F6_SPEC = {
    "n": 2, "P": 1,
    "gates": [{"k": "H", "t": [0]}, {"k": "PRX", "t": [0], "ang": {"p": 0}}, {"k": "CNOT", "c": [0], "t": [1]},
              {"k": "PRY", "t": [1], "ang": {"f": [[0, [1, 2]], ["c", [1, 4]]]}}],
    "op": [[[(0, 3), (1, 1)], [0.7, 0.0]], [[(0, 2)], [-0.4, 0.0]]],
}


def f6_replay(ctx: Ctx, extra_random: int):
    """finding F6: `sub + sub` shares raw parameters (and duplicates in_params): replay on the real code"""
    rng = ctx.rng
    specs = [(F6_SPEC, [0.3])] + [(gen_spec(rng, P=1, min_param_gates=1, max_len=4), [rng.uniform(-3, 3)]) for _ in range(extra_random)]
    f6_check(ctx, specs)
    f6_check_primitive(ctx)


F6P_SPEC = {
    "n": 1, "P": 1,
    "gates": [{"k": "H", "t": [0]}, {"k": "PRX", "t": [0], "ang": {"p": 0}}],
    "op": [[[(0, 2)], [1.0, 0.0]], [[(0, 3)], [0.5, 0.0]]],
}


def f6_check_primitive(ctx: Ctx):
    """the same defect on a plain ParametricQuantumCircuit: `c + c` lists the shared Parameter twice in in_params and
    out_params while bind_parameters is positional (the two copies are bound independently)"""
    import numpy as np

    from oracle import c09deriv
    from quri_parts.core.estimator.gradient import numerical_gradient_estimates, parameter_shift_gradient_estimates
    from quri_parts.core.state import quantum_state

    spec = F6P_SPEC
    c = build_primitive(spec)
    d = c + c
    ins, outs, _, _, _ = dump_mapping(d.param_mapping)
    if len(set(outs)) == len(outs) and len(set(ins)) == len(ins):
        return
    theta = [0.4, 1.1][: len(ins)]
    doubled = concat_specs(spec, spec)
    op = real_operator(spec)
    state = quantum_state(spec["n"], circuit=d)
    est = numpy_estimator(spec)
    case = describe_case(spec, theta, "sub+sub primitive")
    try:
        psr = np.array([complex(v) for v in parameter_shift_gradient_estimates(op, state, theta, est).values])
        num = np.array([complex(v) for v in numerical_gradient_estimates(op, state, theta, est, 1e-5).values])
    except Exception as e:  # noqa: BLE001
        ctx.witness(FINDING_F6, f"c + c (primitive): gradient raises {exc_name(e)}", case)
        return
    gt, _ = c09deriv.grad_hess(doubled, theta, want_hess=False)
    if len(psr) == len(gt) and float(np.max(np.abs(psr - gt))) > 1e-3 and float(np.max(np.abs(psr - num))) > 1e-3:
        ctx.witness(FINDING_F6,
                    f"c + c for a plain ParametricQuantumCircuit (in_params={ins}, out_params={outs}): parameter-shift gradient "
                    f"{[f'{v.real:.6g}' for v in psr]} vs numerical {[f'{v.real:.6g}' for v in num]} vs analytic {[f'{v.real:.6g}' for v in gt]}",
                    case, {"psr": [str(v) for v in psr], "numerical": [str(v) for v in num], "analytic": [str(v) for v in gt]})
    ctx.evaluations += 1


def f6_check(ctx: Ctx, specs):
    import numpy as np

    from oracle import c09deriv
    from quri_parts.core.estimator.gradient import numerical_gradient_estimates, parameter_shift_gradient_estimates
    from quri_parts.core.state import quantum_state

    hits = 0
    for spec, x in specs:
        sub = build_linear(spec)
        c = sub + sub
        pm = c.param_mapping
        ins, outs, entries, _, _ = dump_mapping(pm)
        shared = len(set(outs)) < len(outs) or len(set(ins)) < len(ins)
        if not shared:
            ctx.extra["f6_sharing"] = "sub + sub no longer shares parameters"
            continue
        theta = x * len(pm.in_params)
        op = real_operator(spec)
        state = quantum_state(spec["n"], circuit=c)
        est = numpy_estimator(spec)
        try:
            psr = np.array([complex(v) for v in parameter_shift_gradient_estimates(op, state, theta, est).values])
            num = np.array([complex(v) for v in numerical_gradient_estimates(op, state, theta, est, 1e-5).values])
        except Exception as e:  # noqa: BLE001
            ctx.witness(FINDING_F6, f"sub + sub: gradient raises {exc_name(e)}", describe_case(spec, theta, "sub+sub"))
            hits += 1
            continue
        # analytic derivative of x ↦ E(sub(x); sub(x))
        doubled = {"n": spec["n"], "P": 1, "gates": spec["gates"] + spec["gates"], "op": spec["op"]}
        gt, _ = c09deriv.grad_hess(doubled, x, want_hess=False)
        # bind_parameters gives the shared parameter its LAST value: the function of the slots is (0, …, 0, dE/dx)
        true = np.zeros(len(theta), dtype=complex)
        true[-1] = gt[0]
        d_true = float(np.max(np.abs(psr - true)))
        d_num = float(np.max(np.abs(psr - num)))
        d_total = abs(complex(np.sum(psr)) - gt[0])
        if d_num > 1e-3 and d_true > 1e-3 and d_total > 1e-3:
            hits += 1
            ctx.witness(FINDING_F6,
                        f"sub + sub (in_params={ins}, out_params={outs}): parameter-shift gradient {[f'{v.real:.6g}' for v in psr]} vs "
                        f"numerical {[f'{v.real:.6g}' for v in num]} vs analytic dE/dx {gt[0].real:.6g}",
                        describe_case(spec, theta, "sub+sub"),
                        {"in_params": ins, "out_params": outs, "psr": [str(v) for v in psr], "numerical": [str(v) for v in num],
                         "analytic_dE_dx": str(gt[0])})
    prev = ctx.extra.get("f6_instances", {"tried": 0, "violating": 0})
    ctx.extra["f6_instances"] = {"tried": prev["tried"] + len(specs), "violating": prev["violating"] + hits}
    ctx.evaluations += len(specs)


# ---------------------------------------------------------------------------
def load_corpus():
    out = []
    for f in sorted(glob.glob(os.path.join(VERIF, "corpus", "C09", "*.json"))):
        with open(f) as fh:
            d = json.load(fh)
        for c in d if isinstance(d, list) else [d]:
            entries = []
            for r, v in c["entries"]:
                if v[0] == "P":
                    entries.append((r, ("P", v[1])))
                else:
                    entries.append((r, ("F", [(k, Fraction(*cc)) for k, cc in v[1]])))
            out.append((c["ins"], c["outs"], entries, [Fraction(*v) for v in c["vals"]]))
    return out


def parse_replay_mapping(menc: str, venc: str):
    ins_s, outs_s, ent_s = [x.strip() for x in menc.split("#")]
    li = lambda s: [int(x) for x in s.split(",")] if s and s != "-" else []  # noqa: E731
    entries = []
    if ent_s and ent_s != "-":
        for e in ent_s.split(";"):
            r, v = e.split("=")
            if v.startswith("P"):
                entries.append((int(r), ("P", int(v[1:]))))
            else:
                f = []
                for kc in v[1:].split(","):
                    if kc:
                        k, c = kc.split(":")
                        f.append(("c" if k == "c" else int(k), pfr(c)))
                entries.append((int(r), ("F", f)))
    vals = [pfr(x) for x in venc.split(",")] if venc and venc != "-" else []
    return li(ins_s), li(outs_s), entries, vals


def run(ctx: Ctx, replay=None) -> int:
    ctx.rule = ("cases = (LinearParameterMapping of a real circuit built through the public API — linear mapped, primitive, A + B, "
                "sub + sub — or built directly incl. malformed ones, dyadic parameter values): real get_derivatives of the mapping, "
                "first/second-order shift sets and coefficients, shifted raw parameter vectors (decoded as φ + k·π/2), and "
                "gradient.py / hessian.py / numerical gradient with an exact integer mock estimator vs the Lean model, all exact "
                "(rationals); distinct = distinct (mapping, values); nontrivial = at least one shift term. Plus oracle validation "
                "(counted in evaluations only): real gradient / Hessian / numerical gradient with an exact estimator vs "
                "generator-insertion derivatives of oracle/c09deriv.py to 1e-7, Hessian symmetry, δ² error bound for δ = 1e-2, 1e-3, 1e-4")
    ctx.trusted = TRUSTED
    ctx.assumptions = ASSUMPTIONS
    mods = [PROPS] if ctx.quick() else [PROPS, PROPS_REAL]
    ok = ctx.prove(mods + ["QuriVerif.Driver.C09"], mods)
    if ok:
        names = [f"QV.{m.split('.', 1)[1]}.{n}" for m, n, _ in ctx.count_obligations(mods)]
        ctx.audit(names, mods + ["QuriVerif.Driver.C09"])
    else:
        ok_driver, _ = ctx.lake_build(["QuriVerif.Driver.C09"])
        if not ok_driver:
            raise InfraError("the C09 model/driver does not build: " + ctx.build_output_tail[-800:])
    if replay:
        with open(replay) as fh:
            rp = json.load(fh)
        cases = []
        for w in rp.get("disagreements", []) + rp.get("witnesses", []):
            inp = w.get("input")
            if isinstance(inp, dict) and "mapping" in inp:
                cases.append(parse_replay_mapping(inp["mapping"], inp.get("vals", "-")))
            elif isinstance(inp, dict) and "spec" in inp:
                replay_spec(ctx, inp)
        if cases:
            k_direct(ctx, 0, extra=cases)
        return ctx.finish()
    with ctx.timed("correspond"):
        k_direct(ctx, 0, extra=load_corpus())
        k_circuits(ctx, ctx.n(500, 8000))
        k_direct(ctx, ctx.n(500, 8000))
        k_numerical(ctx, ctx.n(150, 3000))
        if not ctx.quick():
            exhaustive_small(ctx)
    with ctx.timed("f6_replay"):
        f6_replay(ctx, ctx.n(5, 60))
    broken = bool(ctx.failed_obligations or ctx.disagreements)
    if TARGETS:
        with ctx.timed("targeted_search"):
            targeted_search(ctx)
    with ctx.timed("oracle_validation"):
        budget = (25 if ctx.quick() else 280) * (2 if broken else 1)
        validate(ctx, budget, ctx.n(600, 50000) * (2 if broken else 1))
    keys = {}
    for w in ctx.witnesses:
        keys[w["key"]] = keys.get(w["key"], 0) + 1
    ctx.extra["witness_keys"] = keys
    return ctx.finish()
