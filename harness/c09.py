"""C09 — Parameter-shift gradients and Hessians equal the analytic derivatives."""
from __future__ import annotations

import glob
import itertools
import json
import math
import os
import sys
import time
from fractions import Fraction

sys.path.insert(0, os.path.dirname(os.path.dirname(os.path.abspath(__file__))))

from common import VERIF, Ctx, InfraError  # noqa: E402

ENTRY = "DriverC09.lean"
PROPS = "QuriVerif.Props.C09"
PROPS_REAL = "QuriVerif.Props.C09Real"
PROPS_LIFT = "QuriVerif.Props.C09Lift"
LEAN_TARGETS = [PROPS, PROPS_LIFT, "QuriVerif.Driver.C09"]
LEAN_TARGETS_THOROUGH = [PROPS_REAL]
FINDING_F6 = "combine-same-subcircuit-shared-raw-params"
HALF_PI = math.pi / 2
EPS = 2.3e-16

TRUSTED = [
    "Lean 4.33 kernel incl. `decide +kernel` on the two concrete witness / non-vacuity computations; axioms audited ⊆ "
    "{propext, Classical.choice, Quot.sound}",
    "Model/C09.lean is a hand transcription of parameter_mapping.py (mapper, get_derivatives), parameter_shift.py "
    "(_get_linear_deriv, _get_derivative, get_derivatives, get_shifted_parameters_and_coef), gradient.py and hessian.py "
    "(Python dict = association list with distinct keys, frozenset of dict items = list sorted by key); tied to the working "
    "tree by the correspondence runs of this harness only (no translator: the code is an algorithm, not a table)",
    "TExp.deriv (Leibniz rule, cos' = −sin, sin' = cos) IS the derivative and a shift by k·π/2 IS k quarter turns of "
    "(cos φ, sin φ): proved against Mathlib's Real.cos / HasDerivAt in Props/C09Real.lean, which is built and audited in the "
    "thorough tier only (quick tier: the ring-level theorems of Props/C09.lean, valid in every commutative ring); "
    "cross-checked numerically every run by oracle/c09deriv.py (generator insertion)",
    "the Heisenberg-picture `Step` form of a gate (conjugation by exp(−iφP/2) = A + cos φ·B + sin φ·G with constant "
    "matrices) is the documented gate form of gates.py (PauliRotation/RX/RY/RZ = cos(φ/2) − i sin(φ/2) P); validated "
    "numerically by the value comparison against oracle/dense.py",
    "floats: the model computes with rationals; the correspondence uses dyadic inputs on which the code's float "
    "arithmetic is exact (per input parameter one power-of-two unit 2^-40 … 2^10 on all its coefficients), rounding of general float "
    "inputs is outside the model (value checks: per entry, 1e-11 of the entry's natural size onorm·Σ|M_li| plus angle round-off)",
    "installed quri_parts.rust 0.27 binary provides Parameter / ParametricQuantumCircuit / bind_parameters (not built from /repo)",
    "correspondence harness harness/c09.py, driver Driver/C09.lean (parsing/printing), oracle/c09deriv.py + oracle/dense.py",
]
ASSUMPTIONS = [
    "exact estimator: returns the expectation value of the operator in the state prepared by the primitive circuit bound to the "
    "raw parameter vector it is handed (numpy dense-matrix estimator of this harness; the Qulacs vector estimator is used as a second one)",
    "documented gate matrices (gates.py) define the semantics",
    "RawDistinct: raw parameters of distinct gates are distinct (violated by combining the same sub-circuit twice — finding F6)",
    "the estimator is total: an empty batch of parameter vectors has the empty answer (library estimators that reject an empty "
    "batch are answered by the harness and counted under estimator_rejects_empty_batch)",
]


# ---------------------------------------------------------------------------
# small helpers
# ---------------------------------------------------------------------------
def exc_name(e) -> str:
    return type(e).__name__


def fr(x: Fraction) -> str:
    return f"{x.numerator}/{x.denominator}"


def pfr(s: str) -> Fraction:
    n, d = s.split("/")
    return Fraction(int(n), int(d))


def dyadic(rng, bits=3, lo=-4, hi=4) -> Fraction:
    return Fraction(rng.randint(lo << bits, hi << bits), 1 << bits)


COEF_POOL = [Fraction(1), Fraction(-1), Fraction(1, 2), Fraction(-1, 2), Fraction(2), Fraction(3, 4), Fraction(-3, 2),
             Fraction(1, 4), Fraction(0), Fraction(5, 8), Fraction(-2)]


# ---------------------------------------------------------------------------
# specs (plain data, see oracle/c09deriv.py) and their real counterparts
# ---------------------------------------------------------------------------
FIXED_1Q = ["H", "X", "Y", "Z", "S", "Sdag", "T", "SqrtX", "SqrtY"]


def gen_ang(rng, P):
    if P == 0:
        return {"f": [] if rng.random() < 0.3 else [["c", list(_nd(dyadic(rng)))]]}
    r = rng.random()
    if r < 0.25:
        return {"p": rng.randrange(P)}
    ks = [i for i in range(P) if rng.random() < 0.6]
    if not ks and rng.random() < 0.8:
        ks = [rng.randrange(P)]
    rng.shuffle(ks)
    f = [[k, list(_nd(rng.choice(COEF_POOL)))] for k in ks]
    if rng.random() < 0.5:
        f.insert(rng.randint(0, len(f)), ["c", list(_nd(dyadic(rng)))])
    return {"f": f}


def _nd(x: Fraction):
    return x.numerator, x.denominator


def gen_op(rng, n):
    terms = []
    for _ in range(rng.randint(1, 3)):
        qs = [q for q in range(n) if rng.random() < 0.6]
        term = [(q, rng.randint(1, 3)) for q in qs]
        r = rng.random()
        if r < 0.6:
            c = (float(dyadic(rng)), 0.0)
        elif r < 0.85:
            c = (rng.uniform(-2, 2), 0.0)
        else:
            c = (rng.uniform(-2, 2), rng.uniform(-1, 1))
        terms.append([term, list(c)])
    # merge equal labels (an Operator is a dict)
    merged = {}
    for term, c in terms:
        k = tuple(term)
        merged[k] = (merged.get(k, (0.0, 0.0))[0] + c[0], merged.get(k, (0.0, 0.0))[1] + c[1])
    return [[list(k), list(v)] for k, v in merged.items()]


def gen_spec(rng, P=None, min_param_gates=0, max_len=6, max_n=3):
    n = rng.randint(1, max_n)
    if P is None:
        P = rng.choice([0, 1, 1, 2, 2, 2, 3, 4])
    gates = []
    L = rng.randint(max(1, min_param_gates), max_len)
    for idx in range(L):
        if rng.random() < 0.5 or (L - idx) <= (min_param_gates - sum(1 for g in gates if "ang" in g)):
            ang = gen_ang(rng, P)
            if rng.random() < 0.3:
                m = rng.randint(1, n)
                t = rng.sample(range(n), m)
                gates.append({"k": "PPR", "t": t, "ids": [rng.randint(1, 3) for _ in t], "ang": ang})
            else:
                gates.append({"k": rng.choice(["PRX", "PRY", "PRZ"]), "t": [rng.randrange(n)], "ang": ang})
        else:
            r = rng.random()
            if r < 0.45:
                gates.append({"k": rng.choice(FIXED_1Q), "t": [rng.randrange(n)]})
            elif r < 0.65:
                gates.append({"k": rng.choice(["RX", "RY", "RZ"]), "t": [rng.randrange(n)], "a": [rng.uniform(-3, 3)]})
            elif n >= 2:
                a, b = rng.sample(range(n), 2)
                k = rng.choice(["CNOT", "CZ", "SWAP"])
                gates.append({"k": k, "c": [a], "t": [b]} if k != "SWAP" else {"k": k, "t": [a, b]})
            else:
                gates.append({"k": "H", "t": [0]})
    return {"n": n, "P": P, "gates": gates, "op": gen_op(rng, n)}


DYADIC_UNITS = [Fraction(1, 2 ** 30), Fraction(1, 2 ** 34), Fraction(1, 2 ** 40), Fraction(1, 2 ** 20), Fraction(2 ** 10)]


def dyadic_units(rng, P, p_unit=0.6):
    """per input parameter a power-of-two unit (2^-40 ... 2^10; mostly 1).  ALL coefficients of one parameter get the same unit,
    so every sum the code forms (coefficients of one shift set, raw angles) stays exact in floats and the correspondence with the
    rational model stays exact, while single coefficients are as small as 9.1e-13 or as large as 1024."""
    return [Fraction(1) if rng.random() < p_unit else rng.choice(DYADIC_UNITS) for _ in range(P)]


def apply_units_spec(spec, units):
    for g in spec["gates"]:
        if "ang" not in g:
            continue
        ang = g["ang"]
        if "p" in ang:
            if units[ang["p"]] != 1:
                g["ang"] = {"f": [[ang["p"], list(_nd(units[ang["p"]]))]]}
        else:
            for item in ang["f"]:
                if item[0] != "c":
                    item[1] = list(_nd(Fraction(*item[1]) * units[item[0]]))


def primitive_spec(rng):
    """a spec whose mapping is the identity (what a plain ParametricQuantumCircuit has)"""
    s = gen_spec(rng, P=0, min_param_gates=1)
    j = 0
    for g in s["gates"]:
        if "ang" in g:
            g["ang"] = {"p": j}
            j += 1
    s["P"] = j
    return s


def concat_specs(a, b):
    """spec of `A + B` for two circuits with separate input parameters"""
    n = max(a["n"], b["n"])
    gates = [dict(g) for g in a["gates"]]
    for g in b["gates"]:
        g = dict(g)
        if "ang" in g:
            ang = g["ang"]
            if "p" in ang:
                ang = {"p": ang["p"] + a["P"]}
            else:
                ang = {"f": [[k if k == "c" else k + a["P"], c] for k, c in ang["f"]]}
            g["ang"] = ang
        gates.append(g)
    return {"n": n, "P": a["P"] + b["P"], "gates": gates, "op": a["op"]}


def real_fixed_gate(g):
    from quri_parts.circuit import gates as G

    k = g["k"]
    if k in ("CNOT", "CZ"):
        return getattr(G, k)(g["c"][0], g["t"][0])
    if k == "SWAP":
        return G.SWAP(g["t"][0], g["t"][1])
    if k in ("RX", "RY", "RZ"):
        return getattr(G, k)(g["t"][0], g["a"][0])
    return getattr(G, k)(g["t"][0])


def real_angle(ang, ps, int_coef=False):
    from quri_parts.circuit import CONST

    if "p" in ang:
        return ps[ang["p"]]
    out = {}
    for k, c in ang["f"]:
        f = Fraction(*c)
        out[CONST if k == "c" else ps[k]] = int(f) if (int_coef and f.denominator == 1) else float(f)
    return out


def _needed_params(ang):
    if "p" in ang:
        return ang["p"] + 1
    return max([k + 1 for k, _ in ang["f"] if k != "c"] + [0])


def _add_spec_gates(c, spec, start, stop, lazy, finish):
    """append spec["gates"][start:stop] to the real linear-mapped circuit `c`; parameters that are not declared yet are
    declared on demand (lazy) — `finish` declares the remaining ones at the end"""
    build = spec.get("build") or {}
    int_coef = bool(build.get("int_coef"))
    single = bool(build.get("add_parameter"))

    def declare(upto):
        have = len(c.param_mapping.in_params)
        if upto > have:
            if single:
                for i in range(have, upto):
                    c.add_parameter(f"t{i}")
            else:
                c.add_parameters(*[f"t{i}" for i in range(have, upto)])

    if not lazy:
        declare(spec["P"])
    for g in spec["gates"][start:stop]:
        if "ang" in g:
            declare(_needed_params(g["ang"]))
            a = real_angle(g["ang"], c.param_mapping.in_params, int_coef)
            if g["k"] == "PPR":
                c.add_ParametricPauliRotation_gate(g["t"], g["ids"], a)
            else:
                getattr(c, {"PRX": "add_ParametricRX_gate", "PRY": "add_ParametricRY_gate", "PRZ": "add_ParametricRZ_gate"}[g["k"]])(g["t"][0], a)
        else:
            c.add_gate(real_fixed_gate(g))
    if finish:
        declare(spec["P"])


def build_linear(spec, n=None, upto=None):
    """the real LinearMappedParametricQuantumCircuit of a spec (spec["build"]: optional construction details — lazy
    parameter declaration, add_parameter instead of add_parameters, Python-int coefficients); `upto`: only the first
    `upto` gates (the circuit is completed later by grow_linear)"""
    from quri_parts.circuit import LinearMappedParametricQuantumCircuit

    c = LinearMappedParametricQuantumCircuit(n or spec["n"])
    lazy = bool((spec.get("build") or {}).get("lazy")) or upto is not None
    _add_spec_gates(c, spec, 0, len(spec["gates"]) if upto is None else upto, lazy, finish=upto is None)
    return c


def grow_linear(c, spec, start):
    """mutate the real circuit `c` (built from the first `start` gates of the spec) into the circuit of the whole spec"""
    _add_spec_gates(c, spec, start, len(spec["gates"]), True, finish=True)
    return c


def build_primitive(spec, n=None):
    from quri_parts.circuit import ParametricQuantumCircuit

    c = ParametricQuantumCircuit(n or spec["n"])
    for g in spec["gates"]:
        if "ang" in g:
            if g["k"] == "PPR":
                c.add_ParametricPauliRotation_gate(g["t"], g["ids"])
            else:
                getattr(c, {"PRX": "add_ParametricRX_gate", "PRY": "add_ParametricRY_gate", "PRZ": "add_ParametricRZ_gate"}[g["k"]])(g["t"][0])
        else:
            c.add_gate(real_fixed_gate(g))
    return c


def build_real(spec):
    """the real circuit of a spec following its construction recipe spec["build"] (absent = plain linear-mapped circuit):
      kind   : "linear" | "primitive" | "concat" (two separately built parts joined by `how`)
      how    : "add" (x + y) | "extend" | "iadd" | "combine"          (the last three need a linear-mapped x)
      post   : None | "freeze" | "mutable_copy"
    """
    b = spec.get("build") or {}
    kind = b.get("kind", "linear")
    if kind == "primitive":
        c = build_primitive(spec)
    elif kind == "concat":
        n = spec["n"]
        x, y = [build_primitive(p, n) if (p.get("build") or {}).get("kind") == "primitive" else build_linear(p, n) for p in b["parts"]]
        how = b.get("how", "add")
        if how == "extend" and hasattr(x, "param_mapping") and type(x).__name__.startswith("LinearMapped"):
            x.extend(y)
            c = x
        elif how == "iadd" and type(x).__name__.startswith("LinearMapped"):
            x += y
            c = x
        elif how == "combine" and type(x).__name__.startswith("LinearMapped"):
            c = x.combine(y)
        else:
            c = x + y
    else:
        c = build_linear(spec)
    post = b.get("post")
    if post == "freeze":
        c = c.freeze()
    elif post == "mutable_copy":
        c = c.freeze().get_mutable_copy()
    return c


def real_operator(spec):
    from quri_parts.core.operator import PAULI_IDENTITY, Operator, pauli_label

    names = {1: "X", 2: "Y", 3: "Z"}

    def label(term):
        return pauli_label(" ".join(f"{names[p]}{q}" for q, p in term)) if term else PAULI_IDENTITY

    if (spec.get("build") or {}).get("bare_label") and len(spec["op"]) == 1 and tuple(spec["op"][0][1]) == (1.0, 0.0):
        return label(spec["op"][0][0])  # Estimatable = Operator | PauliLabel
    op = Operator()
    for term, (re, im) in spec["op"]:
        op[label(term)] = complex(re, im) if im else re
    return op


THETA_FORMS = ["list", "tuple", "ndarray", "np-scalars", "mixed"]
INT_THETA_FORMS = ["ints", "int-tuple", "int64-array", "int32-array", "mixed"]


def apply_theta_form(form, theta):
    """the same parameter point as another legal Sequence[float] object"""
    import numpy as np

    fl = [float(t) for t in theta]
    if form == "tuple":
        return tuple(fl)
    if form == "ndarray":
        return np.array(fl, dtype=np.float64)
    if form == "np-scalars":
        return [np.float64(t) for t in fl]
    if form == "ints":
        return [int(round(t)) for t in fl]
    if form == "int-tuple":
        return tuple(int(round(t)) for t in fl)
    if form == "int64-array":
        return np.array([int(round(t)) for t in fl], dtype=np.int64)
    if form == "int32-array":
        return np.array([int(round(t)) for t in fl], dtype=np.int32)
    if form == "mixed":
        return [int(t) if t == int(t) and i % 2 == 0 else (np.float64(t) if i % 3 == 1 else t) for i, t in enumerate(fl)]
    return fl


def snapshot(obj):
    """(type name, element reprs) of a parameter container, to detect in-place modification by the callee"""
    return type(obj).__name__, [repr(x) for x in obj]


# ---------------------------------------------------------------------------
# canonical dump of a real LinearParameterMapping / ShiftedParameters
# ---------------------------------------------------------------------------
class Ids:
    """Parameter -> small integer, by the equality the code itself uses for dict keys (`==`; identity of the underlying
    Rust object — the Python wrapper objects handed out by the binary need not be identical)"""

    def __init__(self):
        self.objs = []

    def __call__(self, p):
        for i, o in enumerate(self.objs):
            if o == p:
                return i
        self.objs.append(p)
        return len(self.objs) - 1


def dump_mapping(pm):
    """(ins, outs, entries, in-ids, raw-ids); entries = [(raw, ('P', i) | ('F', [(key, Fraction)]))]"""
    from quri_parts.circuit import CONST, Parameter

    iid, rid = Ids(), Ids()
    ins = [iid(p) for p in pm.in_params]
    outs = [rid(p) for p in pm.out_params]
    entries = []
    for raw, fn in sorted(pm.mapping.items(), key=lambda kv: rid(kv[0])):
        r = rid(raw)
        if isinstance(fn, Parameter):
            entries.append((r, ("P", iid(fn))))
        else:
            entries.append((r, ("F", [("c" if p == CONST else iid(p), Fraction(c)) for p, c in fn.items()])))
    return ins, outs, entries, iid, rid


def enc_mapping(ins, outs, entries) -> str:
    es = []
    for r, (tag, v) in entries:
        if tag == "P":
            es.append(f"{r}=P{v}")
        else:
            es.append(f"{r}=F" + ",".join(f"{k}:{fr(c)}" for k, c in v))
    return f"{','.join(map(str, ins)) or '-'} # {','.join(map(str, outs)) or '-'} # {';'.join(es) or '-'}"


def py_phi(ins, outs, entries, vals):
    """independent evaluation of the raw angles (Fractions) along `outs`; None when the mapper has to raise KeyError"""
    theta = {}
    for p, v in zip(ins, vals):
        theta[p] = Fraction(v)
    emap = dict(entries)
    out = []
    for r in outs:
        if r not in emap:
            return None
        tag, v = emap[r]
        if tag == "P":
            if v not in theta:
                return None
            out.append(theta[v])
        else:
            s = Fraction(0)
            for k, c in v:
                if k == "c":
                    s += c
                elif k in theta:
                    s += c * theta[k]
                else:
                    return None
            out.append(s)
    return out


def canon_terms(sp, rid):
    out = []
    for shifts, coef in sp.shifts_with_coef:
        out.append((tuple(sorted((rid(p), int(k)) for p, k in shifts)), Fraction(coef)))
    return sorted(out)


def parse_terms(s: str):
    s = s.strip()
    if not s:
        return []
    out = []
    for t in s.split(";"):
        sh, co = t.split("@")
        key = tuple(sorted((int(a.split(":")[0]), int(a.split(":")[1])) for a in sh.split(",") if a))
        out.append((key, pfr(co)))
    return sorted(out)


def parse_vec_terms(s: str):
    """-> sorted [((k...), coef)], and the value vector (must be the same for every term)"""
    s = s.strip()
    if not s:
        return [], None
    out, vals = [], None
    for t in s.split(";"):
        vec, co = t.split("@")
        vs, ks = [], []
        for a in vec.split(","):
            if a:
                v, k = a.split(":")
                vs.append(pfr(v))
                ks.append(int(k))
        if vals is None:
            vals = vs
        elif vals != vs:
            vals = "inconsistent"
        out.append((tuple(ks), pfr(co)))
    return sorted(out), vals


def split_exact(body: str, sep: str, n: int):
    """split a driver list of n items (n = 0 -> empty string)"""
    if n == 0:
        return [] if not body.strip() else None
    parts = body.split(sep)
    return parts if len(parts) == n else None


def decode_real_terms(pairs, phis):
    """real [(float vector, coef)] -> sorted [((k...), coef)] using the harness' own raw angles; None if some entry is not
    of the form φ_i + k·π/2"""
    out = []
    for vec, coef in pairs:
        if len(vec) != len(phis):
            return None
        ks = []
        for x, ph in zip(vec, phis):
            k = round((float(x) - float(ph)) / HALF_PI)
            if abs(float(x) - (float(ph) + k * HALF_PI)) > 1e-9:
                return None
            ks.append(k)
        out.append((tuple(ks), Fraction(coef)))
    return sorted(out)


# ---------------------------------------------------------------------------
# estimators
# ---------------------------------------------------------------------------
class Est:
    def __init__(self, value, error=0.0):
        self.value = value
        self.error = error


def mock_estimator(phis, log):
    """exact integer-valued estimator shared with the Lean driver: (h² + 5h) mod 1009, h = Σ_i (k_i + 3)·7^i"""

    def est(op, state, plist):
        res = []
        for p in plist:
            h = 0
            for i, x in enumerate(p):
                ph = float(phis[i]) if i < len(phis) else 0.0
                k = round((float(x) - ph) / HALF_PI)
                if abs(float(x) - (ph + k * HALF_PI)) > 1e-9 or i >= len(phis):
                    log.append(("not-a-quarter-turn-shift", list(map(float, p))))
                h += (k + 3) * 7 ** i
            res.append(Est(complex(float((h * h + 5 * h) % 1009)), 0.0))
        return res

    return est


def numpy_estimator(spec, mode="list"):
    """exact estimator: dense-matrix expectation of the spec's operator in the state prepared by the REAL bound circuit.
    `mode`: how the (equally legal) result is handed back — "list", "iter" (a one-shot iterator: the protocol says
    Iterable[Estimate]), "tuple", "real" (Python float values, only sensible for a Hermitian operator)"""
    import numpy as np

    from oracle import c09deriv, dense

    o = c09deriv.op_matrix(spec)
    n = spec["n"]

    def est(op, state, plist):
        res = []
        for p in plist:
            bc = state.parametric_circuit.bind_parameters(list(p))
            u = dense.circuit_unitary(n, bc.gates)
            psi = u[:, 0] if "init" not in spec else u @ np.array([complex(a, b) for a, b in spec["init"]])
            v = complex(np.vdot(psi, o @ psi))
            res.append(Est(v.real if mode == "real" else v, 0.0))
        if mode == "iter":
            return iter(res)
        if mode == "tuple":
            return tuple(res)
        return res

    return est


_NOT_GIVEN = object()


def stub_state(pm, primitive=_NOT_GIVEN):
    """a ParametricCircuitQuantumState whose circuit only has a `param_mapping` (for mappings built directly);
    `primitive`: what with_primitive_circuit() returns (default: the stub itself)"""
    from quri_parts.core.state import ParametricCircuitQuantumState

    class _Circ:
        param_mapping = pm

    class Stub(ParametricCircuitQuantumState):
        def __init__(self):  # noqa: D401
            pass

        @property
        def parametric_circuit(self):
            return _Circ

        def with_primitive_circuit(self):
            return self if primitive is _NOT_GIVEN else primitive

    return Stub()


# ---------------------------------------------------------------------------
# correspondence on one mapping
# ---------------------------------------------------------------------------
def values_to_fracs(vals):
    out = []
    for v in vals:
        c = complex(v)
        if c.imag != 0.0:
            return None
        out.append(Fraction(c.real))
    return out


def well_formed(ins, outs, entries) -> bool:
    """in/out parameters pairwise different, exactly one entry per output parameter, only input parameters referenced"""
    emap = dict(entries)
    if len(set(ins)) != len(ins) or len(set(outs)) != len(outs) or len(emap) != len(entries) or set(emap) != set(outs):
        return False
    for tag, v in emap.values():
        for k in ([v] if tag == "P" else [k for k, _ in v if k != "c"]):
            if k not in ins:
                return False
    return True


def trivial_expect(ins, outs, entries):
    """(the mapping IS one-to-one: every raw parameter equals an input parameter of its own, no coefficient, no constant;
        and it is WRITTEN that way: a bare Parameter or a one-item function {p: 1})"""
    emap = dict(entries)
    if len(ins) != len(outs):
        return False, False
    used, canon = [], True
    for r in outs:
        tag, v = emap[r]
        if tag == "P":
            k = v
        else:
            nz = [(k, c) for k, c in v if c != 0]
            if len(nz) != 1 or nz[0][0] == "c" or nz[0][1] != 1:
                return False, False
            k = nz[0][0]
            canon = canon and len(v) == 1
        if k in used:
            return False, False
        used.append(k)
    return True, canon


def aux_mapping_checks(ctx: Ctx, pm, ins, outs, entries, vals, phis, inp):
    """the two members of parameter_mapping.py the gradient code does not call itself but its callers / estimators do
    (seq_mapper: φ = Mθ + b as a sequence function, wrong count rejected; is_trivial_mapping), judged by a direct
    restatement of their documentation on well-formed mappings"""
    rng = ctx.rng
    fvals = [float(v) for v in vals]
    wf = well_formed(ins, outs, entries)
    try:
        sm = pm.seq_mapper
    except Exception as e:  # noqa: BLE001
        ctx.disagree("seq_mapper (attribute)", inp, f"raises {exc_name(e)}", "a function of the parameter value sequence")
        sm = None
    if sm is not None:
        form = rng.choice(THETA_FORMS)
        try:
            got = ("ok", [float(x) for x in sm(apply_theta_form(form, fvals))])
        except Exception as e:  # noqa: BLE001
            got = ("err", exc_name(e))
        ctx.count("seq_mapper", got[0] if got[0] == "ok" else got[1])
        if len(vals) != len(ins):
            if got != ("err", "ValueError"):
                ctx.witness("seq-mapper-length", f"seq_mapper accepts {len(vals)} values for {len(ins)} input parameters ({got[0]}: {str(got[1])[:80]})", inp)
        elif wf and phis is not None:
            want = [float(x) for x in phis]
            if got[0] != "ok" or len(got[1]) != len(want) or any(abs(a - b) > 1e-12 * (1 + abs(b)) for a, b in zip(got[1], want)):
                ctx.witness("seq-mapper-values", f"seq_mapper({form}) differs from the affine map of the mapping", inp,
                            {"real": str(got)[:300], "expected": want})
        if len(vals) == len(ins):
            for bad in ([*fvals, 0.25], fvals[:-1]) if fvals else ([0.25],):
                try:
                    r = sm(bad)
                    ctx.witness("seq-mapper-length", f"seq_mapper accepts {len(bad)} values for {len(ins)} input parameters", inp, {"returned": str(r)[:200]})
                except ValueError:
                    pass
                except Exception as e:  # noqa: BLE001
                    ctx.witness("seq-mapper-length", f"seq_mapper with {len(bad)} values for {len(ins)} input parameters raises {exc_name(e)}, not ValueError", inp)
    if wf:
        sem, canon = trivial_expect(ins, outs, entries)
        try:
            triv = ("ok", bool(pm.is_trivial_mapping))
        except Exception as e:  # noqa: BLE001
            triv = ("err", exc_name(e))
        # An angle that is the bare constant 1 ({CONST: 1.0}) is counted by the unchanged code like "an input parameter of
        # its own" (CONST is a Parameter): is_trivial_mapping is True for RX(a); RY(const 1) over (a, b).  That contradicts
        # the docstring of has_trivial_parameter_mapping but not the statement of C09 (no gradient code reads the flag;
        # C10's check leaves the case out as well), so it is counted in the evidence and not judged here.
        const_one = any(tag == "F" and len(v) == 1 and v[0][0] == "c" and v[0][1] == 1 for tag, v in dict(entries).values())
        ctx.count("is_trivial_mapping", str(triv[1]) + ("/one-to-one" if sem else "") + ("/constant-one-angle" if const_one else ""))
        if triv[0] != "ok":
            ctx.witness("trivial-mapping", f"is_trivial_mapping raises {triv[1]} on a well-formed mapping", inp)
        elif triv[1] and not sem and const_one:
            pass
        elif triv[1] and not sem:
            ctx.witness("trivial-mapping", "is_trivial_mapping is True but some raw parameter is not an unconverted input parameter of its own", inp)
        elif not triv[1] and sem and canon:
            ctx.witness("trivial-mapping", "every raw parameter is an input parameter of its own (bare or {p: 1}) but is_trivial_mapping is False", inp)


def canon_pairs(res):
    return sorted((tuple(float(x) for x in vec), float(co)) for vec, co in res)


def analyse_mapping(ctx: Ctx, what, pm, vals, state, reqs, pend, order2=True, sample=None, spec=None):
    """run the real functions on one (mapping, parameter values) and queue the model requests"""
    from quri_parts.circuit.parameter_shift import ShiftedParameters
    from quri_parts.core.estimator.gradient import create_parameter_shift_gradient_estimator, parameter_shift_gradient_estimates
    from quri_parts.core.estimator.hessian import create_parameter_shift_hessian_estimator, parameter_shift_hessian_estimates

    ins, outs, entries, iid, rid = dump_mapping(pm)
    menc = enc_mapping(ins, outs, entries)
    venc = ",".join(fr(Fraction(v)) for v in vals) or "-"
    info = {"what": what, "mapping": menc, "vals": venc, "P": len(ins), "outs": outs, "real": {}, "req": {}, "spec": spec}
    real = info["real"]
    phis = py_phi(ins, outs, entries, vals)
    info["phis"] = phis
    fvals = [float(v) for v in vals]
    inp0 = {"mapping": menc, "vals": venc, "source": what}
    aux_mapping_checks(ctx, pm, ins, outs, entries, vals, phis, inp0)
    # the parameter point as one of the legal Sequence[float] objects (same numbers)
    forms = THETA_FORMS + (INT_THETA_FORMS if all(v == int(v) for v in fvals) else [])
    form = ctx.rng.choice(forms) if ctx.rng.random() < 0.5 else "list"
    pvals = apply_theta_form(form, fvals)
    snap = snapshot(pvals)
    ctx.count("param_container", form)
    # 1. derivative of the linear mapping
    try:
        dms = pm.get_derivatives()
        dd = []
        for d in dms:
            if [iid(p) for p in d.in_params] != ins or [rid(p) for p in d.out_params] != outs:
                ctx.disagree("derivmaps:in/out params changed", info["mapping"], "params differ", "same in/out params")
            from quri_parts.circuit import CONST

            dd.append(sorted((rid(r), Fraction(fn[CONST])) for r, fn in d.mapping.items()))
        real["derivmaps"] = ("ok", dd)
    except Exception as e:  # noqa: BLE001 — behaviour of the real code
        real["derivmaps"] = ("err", exc_name(e))
    reqs.append(f"c09derivmaps {menc}")
    info["req"]["derivmaps"] = len(reqs) - 1
    # 2. shift sets, first and second order
    try:
        sp = ShiftedParameters(pm)
        d1 = sp.get_derivatives()
        real["sp1"] = ("ok", [canon_terms(d, rid) for d in d1])
        if order2:
            d2 = [d.get_derivatives() for d in d1]
            real["sp2"] = ("ok", [[canon_terms(d, rid) for d in row] for row in d2])
    except Exception as e:  # noqa: BLE001
        real["sp1"] = ("err", exc_name(e))
        d1, d2 = None, None
    if d1 is not None and order2 and real.get("sp2", ("err",))[0] == "ok":
        # the same first-order shift terms handed to the (public, dataclass) constructor in another legal Collection form:
        # a tuple, a reversed list; the derivatives must be the ones of the frozenset original
        i = ctx.rng.randrange(len(d1)) if d1 else None
        if i is not None:
            items = list(d1[i].shifts_with_coef)
            cform = ctx.rng.choice(["tuple", "reversed-list"])
            alt = tuple(items) if cform == "tuple" else list(reversed(items))
            try:
                got = ("ok", [canon_terms(x, rid) for x in ShiftedParameters(pm, alt).get_derivatives()])
            except Exception as e:  # noqa: BLE001
                got = ("err", exc_name(e))
            want = real["sp2"][1][i]
            same = got[0] == "ok" and len(got[1]) == len(want) and all(
                [k for k, _ in a] == [k for k, _ in b] and all(abs(float(x[1] - y[1])) <= 1e-12 for x, y in zip(a, b)) for a, b in zip(got[1], want))
            ctx.count("shift_container", cform)
            if not same:
                ctx.witness("shift-container-form", f"ShiftedParameters built from the same first-order terms as a {cform} has other derivatives "
                            f"than the frozenset original (input parameter {i})", inp0, {"got": str(got)[:400], "original": str(want)[:400]})
    reqs.append(f"c09sp 1 | {menc}")
    info["req"]["sp1"] = len(reqs) - 1
    if order2:
        reqs.append(f"c09sp 2 | {menc}")
        info["req"]["sp2"] = len(reqs) - 1
    # 3. shifted raw parameter vectors
    if d1 is not None:
        try:
            r1 = [d.get_shifted_parameters_and_coef(pvals) for d in d1]
            real["sh1"] = ("ok", r1)
            # call history on the same objects: another point in between must not change the answer for this one
            other = [v + 0.5 for v in fvals]
            ro = [d.get_shifted_parameters_and_coef(other) for d in d1]
            r1b = [d.get_shifted_parameters_and_coef(fvals) for d in d1]
            if [canon_pairs(x) for x in r1b] != [canon_pairs(x) for x in r1]:
                ctx.witness("call-history", "get_shifted_parameters_and_coef on the same ShiftedParameters object gives a different "
                            "answer for the same point after a call with another point", inp0,
                            {"first": str(r1)[:300], "again": str(r1b)[:300]})
            phis_o = py_phi(ins, outs, entries, [Fraction(v) + Fraction(1, 2) for v in vals])
            if phis is not None and phis_o is not None:
                # the second point on the same objects: the same quarter-turn shifts and coefficients around ITS raw angles
                for a, b in zip(r1, ro):
                    da, db = decode_real_terms(a, phis), decode_real_terms(b, phis_o)
                    if da is not None and da != db:
                        ctx.witness("call-history", "get_shifted_parameters_and_coef at a second point (every parameter + 1/2) on the "
                                    "same ShiftedParameters objects is not that point's raw angles with the same shifts", inp0,
                                    {"first_point": str(a)[:300], "second_point": str(b)[:300], "raw_angles_second_point": [str(x) for x in phis_o]})
                        break
        except Exception as e:  # noqa: BLE001
            real["sh1"] = ("err", exc_name(e))
        reqs.append(f"c09shifted 1 | {menc} | {venc}")
        info["req"]["sh1"] = len(reqs) - 1
        if order2 and d2 is not None:
            try:
                r2 = [[d.get_shifted_parameters_and_coef(pvals) for d in row] for row in d2]
                real["sh2"] = ("ok", r2)
            except Exception as e:  # noqa: BLE001
                real["sh2"] = ("err", exc_name(e))
            reqs.append(f"c09shifted 2 | {menc} | {venc}")
            info["req"]["sh2"] = len(reqs) - 1
    # 4. gradient.py / hessian.py with the exact mock estimator
    log = []
    info["mocklog"] = log
    mock = mock_estimator(phis or [], log)
    wrapped = ctx.rng.random() < 0.4  # the create_* entry points instead of the plain functions
    ctx.count("entry_point", "create_*" if wrapped else "plain")
    try:
        if wrapped:
            g = create_parameter_shift_gradient_estimator(mock)(None, state, pvals)
        else:
            g = parameter_shift_gradient_estimates(None, state, pvals, mock)
        real["grad"] = ("ok", list(g.values))
    except Exception as e:  # noqa: BLE001
        real["grad"] = ("err", exc_name(e))
    reqs.append(f"c09grad 1 | {menc} | {venc}")
    info["req"]["grad"] = len(reqs) - 1
    if order2:
        try:
            if wrapped:
                h = create_parameter_shift_hessian_estimator(mock)(None, state, pvals)
            else:
                h = parameter_shift_hessian_estimates(None, state, pvals, mock)
            real["hess"] = ("ok", [list(r) for r in h.values])
        except Exception as e:  # noqa: BLE001
            real["hess"] = ("err", exc_name(e))
        reqs.append(f"c09grad 2 | {menc} | {venc}")
        info["req"]["hess"] = len(reqs) - 1
    if snapshot(pvals) != snap:
        ctx.witness("params-mutated", f"the caller's parameter container ({form}) was modified in place", inp0,
                    {"before": snap[1], "after": snapshot(pvals)[1]})
    nontrivial = any(t for d in (real.get("sp1", ("", []))[1] if real.get("sp1", ("err",))[0] == "ok" else []) for t in d)
    ctx.case((what.split(":")[0], menc, venc), nontrivial, sample)
    ctx.count("mapping_kind", what.split(":")[0])
    ctx.count("in_params", str(len(ins)))
    ctx.count("out_params", str(len(outs)))
    pend.append(info)
    return info


def compare_pending(ctx: Ctx, reqs, pend):
    resp = ctx.driver(reqs, entry=ENTRY)
    for info in pend:
        P, real, rq = info["P"], info["real"], info["req"]
        inp = {"mapping": info["mapping"], "vals": info["vals"], "source": info["what"]}
        ctx.traces += 1
        info["_d0"] = len(ctx.disagreements)

        def model(name):
            r = resp[rq[name]]
            if r == "bad-request":
                raise InfraError(f"driver rejected request {reqs[rq[name]][:300]}")
            return r

        # derivative maps
        r = model("derivmaps")
        st, rv = real["derivmaps"]
        parts = split_exact(r[3:], " | ", P)
        mv = None if parts is None else [sorted((int(a.split(":")[0]), pfr(a.split(":")[1])) for a in p.split(",") if a.strip()) for p in parts]
        if st != "ok" or mv != rv:
            ctx.disagree("get_derivatives(mapping)", inp, str(rv)[:400], r[:400])
        # shift sets
        for name, depth in (("sp1", 1), ("sp2", 2)):
            if name not in rq:
                continue
            r = model(name)
            st, rv = real.get(name, real["sp1"])
            if st != "ok":
                ctx.disagree(f"shift-sets order {depth}", inp, f"raises {rv}", r[:300])
                continue
            body = r[3:]
            if depth == 1:
                parts = split_exact(body, " | ", P)
                mv = None if parts is None else [parse_terms(p) for p in parts]
            else:
                rows = split_exact(body, " || ", P)
                mv = None
                if rows is not None:
                    mv = []
                    for row in rows:
                        parts = split_exact(row, " | ", P)
                        mv.append(None if parts is None else [parse_terms(p) for p in parts])
            if mv != rv:
                ctx.disagree(f"shift-sets order {depth}", inp, str(rv)[:500], r[:500])
            else:
                ctx.count("shift_terms_order%d" % depth, str(sum(len(t) for t in (rv if depth == 1 else [x for row in rv for x in row]))))
        # shifted raw parameter vectors
        for name, depth in (("sh1", 1), ("sh2", 2)):
            if name not in rq:
                continue
            r = model(name)
            st, rv = real[name]
            if r.startswith("err "):
                ctx.count("outcome", "raises:" + r[4:])
                if st != "err" or rv != r[4:]:
                    ctx.disagree(f"get_shifted_parameters_and_coef order {depth}", inp, str((st, str(rv)[:200])), r)
                continue
            if st != "ok":
                ctx.disagree(f"get_shifted_parameters_and_coef order {depth}", inp, f"raises {rv}", r[:300])
                continue
            ctx.count("outcome", "ok")
            body = r[3:]
            phis = info["phis"]
            flat_real = rv if depth == 1 else [x for row in rv for x in row]
            if depth == 1:
                parts = split_exact(body, " | ", P)
            else:
                rows = split_exact(body, " || ", P)
                parts = None if rows is None else [x for row in rows for x in (split_exact(row, " | ", P) or [None] * (P + 1))]
            ok = parts is not None and len(parts) == len(flat_real) and (phis is not None or not flat_real)
            if ok:
                for p, rr in zip(parts, flat_real):
                    if p is None:
                        ok = False
                        break
                    mt, mvals = parse_vec_terms(p)
                    rt = decode_real_terms(rr, phis)
                    if rt is None or rt != mt or (mvals is not None and mvals != phis):
                        ok = False
                        break
            if not ok:
                ctx.disagree(f"get_shifted_parameters_and_coef order {depth}", inp, str(flat_real)[:500], r[:500])
        # gradient / hessian with the mock estimator
        if info["mocklog"]:
            ctx.disagree("estimator input is not φ + k·π/2", inp, str(info["mocklog"][:2]), "raw angles shifted by integer multiples of π/2")
        for name in ("grad", "hess"):
            if name not in rq:
                continue
            r = model(name)
            st, rv = real[name]
            if r.startswith("err "):
                if st != "err" or rv != r[4:]:
                    ctx.disagree(f"{name} (mock estimator)", inp, str((st, str(rv)[:200])), r)
                continue
            if st != "ok":
                ctx.disagree(f"{name} (mock estimator)", inp, f"raises {rv}", r[:300])
                continue
            body = r[3:].strip()
            if name == "grad":
                mv = [pfr(x) for x in body.split(",")] if body else []
                rvf = values_to_fracs(rv)
            else:
                mv = [[pfr(x) for x in row.split(",")] for row in body.split(";")] if body else []
                rows = [values_to_fracs(row) for row in rv]
                rvf = None if any(x is None for x in rows) else rows
            if rvf != mv:
                ctx.disagree(f"{name} (mock estimator)", inp, str(rv)[:400], r[:400])
        if len(ctx.disagreements) > info["_d0"] and info.get("spec") is not None and info["what"] in ("linear", "primitive", "combined"):
            TARGETS.append((info["what"], info["spec"]))


# ---------------------------------------------------------------------------
# generators of correspondence cases
# ---------------------------------------------------------------------------
TARGETS: list = []  # (flavour, spec) of real circuits on which model and code disagreed: first stop of the failing-input search


def targeted_search(ctx: Ctx, limit=40):
    """the circuits whose mapping / shift data disagreed with the model, re-examined against the property itself
    (analytic derivatives) at a generic parameter point with pairwise different components"""
    rng = ctx.rng
    worst = {"grad": 0.0, "hess": 0.0, "symm": 0.0, "num_ratio": 0.0}
    for flavour, spec in TARGETS[:limit]:
        try:
            c = build_real(spec)
        except Exception:  # noqa: BLE001
            continue
        theta = [rng.uniform(-3, 3) + 0.37 * i for i in range(spec["P"])]
        validate_one(ctx, spec, c, flavour + "+targeted", theta, numpy_estimator(spec), worst, lambda: True)
        ctx.evaluations += 1
    ctx.extra["targeted_search"] = {"targets": len(TARGETS), "examined": min(len(TARGETS), limit)}


def random_build_options(rng):
    b = {"kind": "linear"}
    if rng.random() < 0.3:
        b["lazy"] = True  # parameters declared between the gates, just before their first use
    if rng.random() < 0.2:
        b["add_parameter"] = True
    if rng.random() < 0.3:
        b["int_coef"] = True  # integral coefficients handed over as Python ints
    b["post"] = rng.choice([None, None, None, "freeze", "mutable_copy"])
    return b


def concat_case(rng, first_params=None):
    """two separately built circuits (linear mapped or plain parametric, separate input parameters) joined by + / extend /
    += / combine; the spec is the concatenation"""
    kinds = rng.choice([("linear", "linear"), ("linear", "linear"), ("linear", "primitive"), ("primitive", "linear"), ("primitive", "primitive")])
    parts = []
    n = rng.randint(1, 3)
    for j, kind in enumerate(kinds):
        if kind == "primitive":
            p = primitive_spec(rng)
            while p["n"] > n or len(p["gates"]) > 3:
                p = primitive_spec(rng)
            p["build"] = {"kind": "primitive"}
        else:
            p = gen_spec(rng, max_len=3, max_n=n) if (j or first_params is None) else gen_spec(rng, P=first_params, min_param_gates=1, max_len=3, max_n=n)
            p["build"] = random_build_options(rng)
            p["build"]["post"] = None
        parts.append(p)
    spec = concat_specs(parts[0], parts[1])
    spec["n"] = n
    for p in parts:
        p["n"] = n
        p["op"] = []
    spec["op"] = gen_op(rng, n)
    spec["build"] = {"kind": "concat", "parts": parts, "how": rng.choice(["add", "add", "extend", "iadd", "combine"]),
                     "post": rng.choice([None, None, None, "freeze", "mutable_copy"])}
    return spec


def k_circuits(ctx: Ctx, n_cases: int):
    """mappings of real circuits built through the public API (linear mapped, primitive, A + B, sub + sub)"""
    from quri_parts.core.state import quantum_state

    rng = ctx.rng
    reqs, pend = [], []
    for i in range(n_cases):
        r = rng.random()
        try:
            if r < 0.55:
                spec = gen_spec(rng)
                spec["build"] = random_build_options(rng)
                apply_units_spec(spec, dyadic_units(rng, spec["P"]))
                c = build_real(spec)
                what = "linear"
            elif r < 0.67:
                spec = primitive_spec(rng)
                spec["build"] = {"kind": "primitive", "post": rng.choice([None, None, "freeze", "mutable_copy"])}
                c = build_real(spec)
                what = "primitive"
            elif r < 0.88:
                spec = concat_case(rng)
                for part in spec["build"]["parts"]:
                    if part["build"].get("kind") != "primitive":
                        apply_units_spec(part, dyadic_units(rng, part["P"], 0.75))
                cat = concat_specs(spec["build"]["parts"][0], spec["build"]["parts"][1])
                spec["gates"], spec["P"] = cat["gates"], cat["P"]
                c = build_real(spec)
                what = "combined"
            else:
                spec = gen_spec(rng, P=rng.choice([1, 2]), min_param_gates=1, max_len=3)
                sub = build_linear(spec)
                c = sub + sub
                what = "sub+sub"
        except Exception as e:  # noqa: BLE001 — the construction API is real code too: an output, not an infra fault
            ctx.disagree("construction of a well-formed circuit through the public API", {"build": spec.get("build"), "gates": spec["gates"]},
                         f"raises {exc_name(e)}: {str(e)[:200]}", "builds")
            continue
        ctx.count("construction", json.dumps({k: v for k, v in (spec.get("build") or {}).items() if k != "parts" and v}, sort_keys=True))
        pm = c.param_mapping
        P = len(pm.in_params)
        vals = [dyadic(rng) for _ in range(P)]
        if rng.random() < 0.06 and P:
            vals = vals[:-1]  # too few values -> KeyError in the mapper (or silently unused)
        elif rng.random() < 0.04:
            vals = vals + [dyadic(rng)]
        state = quantum_state(c.qubit_count if what == "combined" else spec["n"], circuit=c)
        big = len(pm.out_params) > 6 or P > 4
        analyse_mapping(ctx, what, pm, vals, state, reqs, pend, order2=not big,
                        sample={"source": what, "spec_gates": [g["k"] for g in spec["gates"]]} if i < 3 else None, spec=spec)
    compare_pending(ctx, reqs, pend)


def make_direct_mapping(ins_ids, outs_ids, entries):
    """LinearParameterMapping built directly from an id-level description"""
    from quri_parts.circuit import CONST, Parameter
    from quri_parts.circuit.parameter_mapping import LinearParameterMapping

    ip, rp = {}, {}

    def I(i):
        if i not in ip:
            ip[i] = Parameter(f"i{i}")
        return ip[i]

    def Rw(i):
        if i not in rp:
            rp[i] = Parameter(f"r{i}")
        return rp[i]

    mapping = {}
    for r, (tag, v) in entries:
        mapping[Rw(r)] = I(v) if tag == "P" else {(CONST if k == "c" else I(k)): float(c) for k, c in v}
    return LinearParameterMapping([I(i) for i in ins_ids], [Rw(r) for r in outs_ids], mapping)


def gen_direct(rng):
    P = rng.randint(0, 3)
    R = rng.randint(0, 4)
    ins = list(range(P))
    if P >= 1 and rng.random() < 0.1:
        ins.append(rng.choice(ins))  # duplicated input parameter
    outs = list(range(R))
    if R >= 1 and rng.random() < 0.12:
        outs.insert(rng.randint(0, len(outs)), rng.choice(outs))  # duplicated raw parameter
    entries = []
    keys = list(range(R))
    if R >= 1 and rng.random() < 0.08:
        keys.remove(rng.choice(keys))  # an output parameter without mapping entry
    if rng.random() < 0.1:
        keys.append(R + 3)  # a mapping entry that is not an output parameter
    rng.shuffle(keys)
    pool = list(range(P)) + ([P + 5] if rng.random() < 0.08 else [])  # P+5: not an input parameter
    for r in keys:
        if pool and rng.random() < 0.25:
            entries.append((r, ("P", rng.choice(pool))))
        else:
            ks = [k for k in pool if rng.random() < 0.6]
            rng.shuffle(ks)
            f = [(k, rng.choice(COEF_POOL)) for k in ks]
            if rng.random() < 0.5:
                f.insert(rng.randint(0, len(f)), ("c", dyadic(rng)))
            entries.append((r, ("F", f)))
    units = {k: u for k, u in zip(pool, dyadic_units(rng, len(pool), 0.7))}
    scaled = []
    for r, (tag, v) in entries:
        if tag == "P":
            scaled.append((r, ("P", v) if units.get(v, 1) == 1 else ("F", [(v, units[v])])))
        else:
            scaled.append((r, ("F", [(k, c * units.get(k, 1)) for k, c in v])))
    entries = scaled
    vals = [dyadic(rng) for _ in ins]
    if rng.random() < 0.1 and vals:
        vals = vals[:-1]
    elif rng.random() < 0.05:
        vals.append(dyadic(rng))
    return ins, outs, entries, vals


def k_direct(ctx: Ctx, n_cases: int, extra=()):
    """LinearParameterMapping objects built directly (including malformed ones) through a stub state"""
    rng = ctx.rng
    reqs, pend = [], []
    cases = list(extra) + [gen_direct(rng) for _ in range(n_cases)]
    for i, (ins, outs, entries, vals) in enumerate(cases):
        pm = make_direct_mapping(ins, outs, entries)
        analyse_mapping(ctx, "direct", pm, vals, stub_state(pm), reqs, pend, order2=True,
                        sample={"source": "direct", "mapping": enc_mapping(ins, outs, entries)} if i < 2 else None)
    compare_pending(ctx, reqs, pend)


def exhaustive_small(ctx: Ctx):
    """all mappings with 2 input and 2 output parameters over a small coefficient set (thorough tier)"""
    cs = [Fraction(0), Fraction(1), Fraction(-1, 2), Fraction(2)]
    per_out = [("P", 0), ("P", 1)]
    for a, b in itertools.product([None] + cs, repeat=2):
        for const in (None, Fraction(1, 4)):
            f = ([(0, a)] if a is not None else []) + ([(1, b)] if b is not None else []) + ([("c", const)] if const is not None else [])
            per_out.append(("F", f))
    cases = []
    for v0, v1 in itertools.product(per_out, repeat=2):
        cases.append(([0, 1], [0, 1], [(0, v0), (1, v1)], [Fraction(1, 2), Fraction(-3, 4)]))
    ctx.extra["exhaustive_small_mappings"] = len(cases)
    k_direct(ctx, 0, extra=cases)


def k_numerical(ctx: Ctx, n_cases: int):
    """numerical_gradient_estimates with an exact rational mock estimator"""
    from quri_parts.core.estimator.gradient import create_numerical_gradient_estimator, numerical_gradient_estimates

    rng = ctx.rng
    reqs, pend = [], []
    for _ in range(n_cases):
        P = rng.randint(0, 4)
        vals = [dyadic(rng, bits=3) for _ in range(P)]
        delta = rng.choice([Fraction(1, 2 ** k) for k in range(1, 7)] + [Fraction(-1, 8), Fraction(0), Fraction(2)])
        seen = []

        ret_mode = rng.choice(["list", "list", "iter", "tuple"])

        def mock(op, state, vs, seen=seen, ret_mode=ret_mode):
            out = []
            for v in vs:
                seen.append([Fraction(float(x)) for x in v])
                s = sum((i + 1) * Fraction(float(x)) * Fraction(float(x)) for i, x in enumerate(v))
                if len(v):
                    s += Fraction(float(v[0])) * Fraction(float(v[-1]))
                out.append(Est(complex(float(s)), 0.0))
            return iter(out) if ret_mode == "iter" else tuple(out) if ret_mode == "tuple" else out

        fvals = [float(v) for v in vals]
        forms = THETA_FORMS + (INT_THETA_FORMS if all(v == int(v) for v in fvals) else [])
        form = rng.choice(forms) if rng.random() < 0.6 else "list"
        pvals = apply_theta_form(form, fvals)
        snap = snapshot(pvals)
        fdelta = int(delta) if (delta.denominator == 1 and rng.random() < 0.5) else float(delta)
        ctx.count("numerical_param_container", form)
        try:
            if rng.random() < 0.4:
                g = create_numerical_gradient_estimator(mock, fdelta)(None, None, pvals)
            else:
                g = numerical_gradient_estimates(None, None, pvals, mock, fdelta)
            real = ("ok", values_to_fracs(g.values))
        except Exception as e:  # noqa: BLE001
            real = ("err", exc_name(e))
        if snapshot(pvals) != snap:
            ctx.witness("params-mutated", f"numerical gradient: the caller's parameter container ({form}) was modified in place",
                        {"params": list(map(str, vals)), "delta": str(delta), "container": form}, {"before": snap[1], "after": snapshot(pvals)[1]})
        reqs.append(f"c09num {','.join(map(fr, vals)) or '-'} | {fr(delta)}")
        pend.append((vals, delta, real, seen, form))
        ctx.case(("num", tuple(vals), delta), P > 0)
        ctx.count("numerical_delta", str(delta))
    resp = ctx.driver(reqs, entry=ENTRY)
    for (vals, delta, real, seen, form), r in zip(pend, resp):
        ctx.traces += 1
        inp = {"params": list(map(str, vals)), "delta": str(delta), "container": form}
        head, vecs = r.split(" # ")
        mvecs = [[pfr(x) for x in v.split(",") if x] for v in vecs.split(";")] if vecs.strip() else []
        if seen != mvecs:
            ctx.disagree("numerical gradient: parameter vectors", inp, str(seen)[:300], vecs[:300])
        if head.startswith("err "):
            if real != ("err", head[4:]):
                ctx.disagree("numerical gradient", inp, str(real)[:300], head)
            continue
        mv = [pfr(x) for x in head[3:].split(",") if x.strip()]
        if real != ("ok", mv):
            ctx.disagree("numerical gradient", inp, str(real)[:300], head[:300])


# ---------------------------------------------------------------------------
# oracle validation / failing-input search on the REAL code
# ---------------------------------------------------------------------------
def describe_case(spec, theta, flavour, **more):
    d = {"flavour": flavour, "spec": spec, "theta": [repr(float(t)) for t in theta]}
    d.update({k: v for k, v in more.items() if v is not None})
    return d


def _imports_validate():
    from quri_parts.core.estimator import gradient as G
    from quri_parts.core.estimator import hessian as H

    return G, H


def make_state(spec, c):
    import numpy as np

    from quri_parts.core.state import quantum_state

    if "init" in spec:
        return quantum_state(spec["n"], circuit=c, vector=np.array([complex(a, b) for a, b in spec["init"]]))
    return quantum_state(spec["n"], circuit=c)


def validate_one(ctx: Ctx, spec, c, flavour, theta, est, worst, choose, theta_form="list", reuse=None, more=None):
    """one oracle comparison on the real code; `choose()` picks between the plain functions and the create_* wrappers;
    `theta_form`: the container the parameter point is handed over in; `reuse`: a dict carried over several calls on the same
    circuit — the state object and the create_* estimator objects are then the same ones every time (call history)"""
    import numpy as np

    from oracle import c09deriv

    G, H = _imports_validate()
    P = spec["P"]
    op = real_operator(spec)
    if reuse is not None and "state" in reuse:
        state = reuse["state"]
    else:
        state = make_state(spec, c)
        if reuse is not None:
            reuse["state"] = state

    def wrapper(name, make):
        if reuse is None:
            return make()
        if name not in reuse:
            reuse[name] = make()
        return reuse[name]

    theta = [float(t) for t in theta]
    tobj = apply_theta_form(theta_form, theta)
    snap = snapshot(tobj)
    case = describe_case(spec, theta, flavour, theta_form=theta_form if theta_form != "list" else None, **(more or {}))
    gt, ht = c09deriv.grad_hess(spec, theta, want_hess=True)
    onorm = sum(abs(complex(*cc)) for _, cc in spec["op"])
    # Tolerances are RELATIVE, per entry: entry i of the gradient is sum_l M_li * dE/dphi_l with |dE/dphi_l| <= sum|op coef| =: onorm,
    # so its natural size is s_i = onorm * sum_l|M_li| (whatever the units of theta_i or of the operator); Hessian entry (i, j):
    # s_i * s_j / onorm.  Float round-off of the shift rule / of an exact estimator is a few ulp of that size, plus the effect of
    # rounding the raw angles themselves (<= ulp * A each, A = largest sum_i|M_li theta_i| + |b_l|).  Everything beyond `rel` of the
    # natural size is an error -- a contribution is never small "absolutely".
    rows, bs = c09deriv.mapping_matrix(spec)
    m_gates = max(len(rows), 1)
    col = [sum(abs(float(r[i])) for r in rows) for i in range(P)]
    amax = max([sum(abs(float(r[i]) * theta[i]) for i in range(P)) + abs(float(b0)) for r, b0 in zip(rows, bs)] + [0.0])
    rel = 1e-11 + 64 * EPS * amax * m_gates
    tol_g = [onorm * col[i] * rel for i in range(P)]
    try:
        if choose():
            g = G.parameter_shift_gradient_estimates(op, state, tobj, est)
        else:
            g = wrapper("ge", lambda: G.create_parameter_shift_gradient_estimator(est))(op, state, tobj)
        gv = np.array([complex(x) for x in g.values])
    except Exception as e:  # noqa: BLE001
        ctx.witness("gradient-raises", f"parameter-shift gradient raises {exc_name(e)} on a well-formed circuit", case)
        return
    if len(gv) != P:
        ctx.witness("gradient-value", f"parameter-shift gradient has {len(gv)} entries for {P} parameters", case)
        return
    for i in range(P):
        err = abs(gv[i] - gt[i])
        if onorm * col[i] > 0:
            worst["grad"] = max(worst["grad"], err / (onorm * col[i]))
        if err > tol_g[i]:
            ctx.witness("gradient-value", f"parameter-shift gradient entry {i} is {gv[i]:.6g}, the analytic derivative is {gt[i]:.6g} "
                        f"(relative error {err / max(abs(gt[i]), 1e-300):.3g}; tolerance {tol_g[i]:.3g} = {rel:.2g} of the entry's natural size)", case,
                        {"index": i, "real": [str(x) for x in gv], "analytic": [str(x) for x in gt], "tolerance": tol_g})
            break
    if P <= 5 and len(c09deriv.param_gates(spec)) <= 6:
        try:
            if choose():
                h = H.parameter_shift_hessian_estimates(op, state, tobj, est)
            else:
                h = wrapper("he", lambda: H.create_parameter_shift_hessian_estimator(est))(op, state, tobj)
            hv = np.array([[complex(x) for x in row] for row in h.values]).reshape(P, P)
        except Exception as e:  # noqa: BLE001
            ctx.witness("hessian-raises", f"parameter-shift Hessian raises {exc_name(e)} on a well-formed circuit", case)
            return
        bad_h = bad_s = None
        for i in range(P):
            for j in range(P):
                size = onorm * col[i] * col[j]
                eh, es = abs(hv[i, j] - ht[i, j]), abs(hv[i, j] - hv[j, i])
                if size > 0:
                    worst["hess"] = max(worst["hess"], eh / size)
                    worst["symm"] = max(worst["symm"], es / size)
                if eh > size * rel and bad_h is None:
                    bad_h = (i, j, eh, size * rel)
                if es > size * rel and bad_s is None:
                    bad_s = (i, j, es, size * rel)
        if bad_h is not None:
            i, j, eh, tol = bad_h
            ctx.witness("hessian-value", f"parameter-shift Hessian entry ({i},{j}) is {hv[i, j]:.6g}, the analytic second derivative is "
                        f"{ht[i, j]:.6g} (relative error {eh / max(abs(ht[i, j]), 1e-300):.3g}; tolerance {tol:.3g} = {rel:.2g} of the entry's natural size)", case,
                        {"index": [i, j], "real": [[str(x) for x in row] for row in hv], "analytic": [[str(x) for x in row] for row in ht]})
        if bad_s is not None:
            i, j, es, tol = bad_s
            ctx.witness("hessian-asymmetric", f"parameter-shift Hessian is not symmetric: |H[{i}][{j}] - H[{j}][{i}]| = {es:.3g}, tolerance {tol:.3g}", case)
    # numerical gradient: |error| ≤ L3·δ²/24 (+ round-off) with L3 a rigorous bound on the third derivative,
    # i.e. it converges to the same values as δ decreases (a negative step is the same central difference)
    l3 = c09deriv.third_derivative_bound(spec)
    for delta in (1e-2, 1e-3, 1e-4, -1e-3):
        try:
            if delta == 1e-3:
                ng = wrapper("ne", lambda: G.create_numerical_gradient_estimator(est, delta))(op, state, tobj)
            else:
                ng = G.numerical_gradient_estimates(op, state, tobj, est, delta)
            nv = np.array([complex(x) for x in ng.values])
        except Exception as e:  # noqa: BLE001
            ctx.witness("numerical-gradient-raises", f"numerical gradient raises {exc_name(e)}", case)
            break
        if len(nv) != P:
            ctx.witness("numerical-gradient-value", f"numerical gradient has {len(nv)} entries for {P} parameters", case)
            break
        for i in range(P):
            # truncation (delta^2/24) * |third derivative|  +  round-off of the two estimates / |delta|  +  rounding of
            # theta_i +- delta/2 itself (matters for |theta_i| >> |delta|); all relative to the operator / coefficient scales
            bound = (l3[i] * delta * delta / 24 + 2 * onorm * (1e-13 + 16 * EPS * amax * m_gates) / abs(delta)
                     + onorm * col[i] * 8 * EPS * (abs(theta[i]) + abs(delta)) / abs(delta))
            if bound == 0.0:
                if nv[i] != gt[i]:
                    ctx.witness("numerical-gradient-value", f"numerical gradient (delta={delta}) entry {i} is {nv[i]} where the derivative is identically 0", case)
                continue
            err = abs(nv[i] - gt[i])
            worst["num_ratio"] = max(worst["num_ratio"], err / bound)
            if err > bound:
                ctx.witness("numerical-gradient-value",
                            f"numerical gradient (δ={delta}) is {err:.3g} away from the derivative, bound {bound:.3g}", case,
                            {"index": i, "real": str(nv[i]), "analytic": str(gt[i])})
    if snapshot(tobj) != snap:
        ctx.witness("params-mutated", f"the caller's parameter container ({theta_form}) was modified in place", case,
                    {"before": snap[1], "after": snapshot(tobj)[1]})


def get_qulacs_estimator():
    try:
        from quri_parts.qulacs.estimator import create_qulacs_vector_concurrent_parametric_estimator

        return create_qulacs_vector_concurrent_parametric_estimator()
    except Exception:  # noqa: BLE001 — optional second estimator
        return None


def get_exact_estimators(ctx=None):
    """the exact (noise-free state-vector) ConcurrentParametricQuantumEstimators the library offers, by entry point"""
    out = []

    def a():
        from quri_parts.qulacs.estimator import create_qulacs_vector_concurrent_parametric_estimator

        return create_qulacs_vector_concurrent_parametric_estimator()

    def b():
        from quri_parts.core.estimator import create_concurrent_parametric_estimator
        from quri_parts.qulacs.estimator import create_qulacs_vector_parametric_estimator

        return create_concurrent_parametric_estimator(create_qulacs_vector_parametric_estimator())

    def c():
        from quri_parts.core.estimator import create_concurrent_parametric_estimator_from_concurrent_estimator
        from quri_parts.qulacs.estimator import create_qulacs_vector_concurrent_estimator

        return create_concurrent_parametric_estimator_from_concurrent_estimator(create_qulacs_vector_concurrent_estimator())

    def total(name, est):
        # The property's estimator is total: an empty batch of parameter vectors (all the gradient code has to ask for when
        # no gate angle depends on a parameter) has the empty answer.  Some library estimators reject an empty batch
        # (qulacs concurrent estimator: ValueError "No state specified."); that is the estimator's contract (C04), not
        # the shift rule's — counted in the evidence, answered here.
        def wrapped(op, state, plist):
            if len(plist) == 0:
                try:
                    return list(est(op, state, plist))
                except Exception as e:  # noqa: BLE001
                    if ctx is not None:
                        ctx.count("estimator_rejects_empty_batch", f"{name}:{exc_name(e)}")
                    return []
            return est(op, state, plist)

        return wrapped

    for name, mk in (("qulacs-vector-concurrent-parametric", a), ("core-concurrent-of-qulacs-vector-parametric", b),
                     ("core-parametric-of-qulacs-vector-concurrent", c)):
        try:
            out.append((name, total(name, mk())))
        except Exception:  # noqa: BLE001 — optional
            pass
    return out


def general_coefs(rng, spec):
    """replace some dyadic coefficients / constants by arbitrary floats (stored as their exact rational value)"""
    for g in spec["gates"]:
        if "ang" in g and "f" in g["ang"]:
            for item in g["ang"]["f"]:
                if rng.random() < 0.5:
                    if item[0] == "c":
                        x = rng.uniform(-7, 7)
                    else:
                        x = rng.choice([rng.uniform(-2.5, 2.5), 1e-3 * rng.uniform(-1, 1), rng.uniform(4, 7), float(rng.randint(-3, 3)),
                                        rng.choice([-1, 1]) * rng.uniform(1, 10) * 10.0 ** rng.randint(-12, 4)])
                    item[1] = list(_nd(Fraction(x)))


UNIT_SCALES = [1e-12, 1e-10, 2e-9, 5e-9, 1e-8, 3e-8, 1e-7, 1e-6, 1e-4, 1e-2, 1e2, 1e3, 1e6]


def rescale_params(rng, spec):
    """the same circuit with its parameters expressed in other units: every coefficient of theta_i is multiplied by sigma_i
    (1e-12 ... 1e6; a bare parameter becomes {p: sigma}); the caller divides the parameter point by sigma, so all gate angles and
    the size of every contribution stay O(1) while coefficients and parameter values do not.  Returns the sigmas."""
    sig = []
    for _ in range(spec["P"]):
        r = rng.random()
        sig.append(1.0 if r < 0.25 else rng.choice(UNIT_SCALES) if r < 0.65 else rng.uniform(1, 10) * 10.0 ** rng.randint(-12, 5))
    for g in spec["gates"]:
        if "ang" not in g:
            continue
        ang = g["ang"]
        if "p" in ang:
            if sig[ang["p"]] != 1.0:
                g["ang"] = {"f": [[ang["p"], list(_nd(Fraction(sig[ang["p"]])))]]}
        else:
            for item in ang["f"]:
                if item[0] != "c":
                    item[1] = list(_nd(Fraction(float(Fraction(*item[1])) * sig[item[0]])))
    return sig


def rescale_case(rng, spec):
    """rescale_params on a whole case (for a concatenation: on its linear-mapped parts); sets spec["sigma"]"""
    b = spec.get("build") or {}
    if b.get("kind") == "primitive":
        return
    if b.get("kind") == "concat":
        sig = []
        for part in b["parts"]:
            sig += [1.0] * part["P"] if (part.get("build") or {}).get("kind") == "primitive" else rescale_params(rng, part)
        refresh_concat(spec)
    else:
        sig = rescale_params(rng, spec)
    if any(x != 1.0 for x in sig):
        spec["sigma"] = sig


def refresh_concat(spec):
    parts = spec["build"]["parts"]
    cat = concat_specs(parts[0], parts[1])
    spec["gates"], spec["P"] = cat["gates"], cat["P"]


def gen_case(rng):
    """(spec with construction recipe, flavour) for the oracle validation"""
    import numpy as np

    r = rng.random()
    if r < 0.1:
        # every declared parameter drives exactly one gate with coefficient 1, in an order different from the
        # declaration order (a "trivial" mapping that is not the identity)
        spec = primitive_spec(rng)
        perm = list(range(spec["P"]))
        rng.shuffle(perm)
        for g in spec["gates"]:
            if "ang" in g:
                g["ang"] = {"p": perm[g["ang"]["p"]]} if rng.random() < 0.6 else {"f": [[perm[g["ang"]["p"]], [1, 1]]]}
        spec["build"] = random_build_options(rng)
        flavour = "linear-permuted"
    elif r < 0.55:
        spec = gen_spec(rng, P=rng.choice([0, 1, 2, 2, 3, 4, 5]), min_param_gates=1)
        spec["build"] = random_build_options(rng)
        if rng.random() < 0.3:
            general_coefs(rng, spec)
        flavour = "linear"
    elif r < 0.68:
        spec = primitive_spec(rng)
        spec["build"] = {"kind": "primitive", "post": rng.choice([None, None, "freeze", "mutable_copy"])}
        flavour = "primitive"
    else:
        spec = concat_case(rng, first_params=rng.choice([1, 2]))
        if rng.random() < 0.3:
            for p in spec["build"]["parts"]:
                if p["build"].get("kind") != "primitive":
                    general_coefs(rng, p)
            refresh_concat(spec)
        flavour = "combined:" + "+".join(p["build"].get("kind", "linear") for p in spec["build"]["parts"]) + ":" + spec["build"]["how"]
    if rng.random() < 0.3:
        rescale_case(rng, spec)
    if rng.random() < 0.25:
        f = 10.0 ** rng.randint(-6, 9)  # the operator in other units
        spec["op"] = [[term, [c[0] * f, c[1] * f]] for term, c in spec["op"]]
    q = rng.random()
    if q < 0.12:
        term = [(k, rng.randint(1, 3)) for k in range(spec["n"]) if rng.random() < 0.7]
        spec["op"] = [[term, [1.0, 0.0]]]
        spec["build"]["bare_label"] = True  # a bare PauliLabel (or PAULI_IDENTITY) instead of an Operator
    elif q < 0.15:
        spec["op"] = []  # the zero operator
    if rng.random() < 0.15:
        amp = np.array([complex(rng.gauss(0, 1), rng.gauss(0, 1)) for _ in range(1 << spec["n"])])
        amp = amp / np.linalg.norm(amp)
        spec["init"] = [[float(a.real), float(a.imag)] for a in amp]
        flavour += "+vector"
    return spec, flavour


def validate(ctx: Ctx, budget_s: float, max_cases: int):
    """real parameter-shift gradient / Hessian and numerical gradient with an exact estimator vs generator-insertion
    derivatives computed from the plain spec by oracle/c09deriv.py"""
    pool = get_exact_estimators(ctx)
    rng = ctx.rng
    t0 = time.time()
    n_eval = 0
    worst = {"grad": 0.0, "hess": 0.0, "symm": 0.0, "num_ratio": 0.0}
    while time.time() - t0 < budget_s and n_eval < max_cases:
        spec, flavour = gen_case(rng)
        P = spec["P"]
        if rng.random() < 0.2:
            # legal argument types other than a list of floats holding integers
            theta = [float(rng.randint(-3, 3)) for _ in range(P)]
            theta_form = rng.choice(INT_THETA_FORMS)
        else:
            theta = [float(dyadic(rng)) if rng.random() < 0.3 else rng.uniform(-7, 7) for _ in range(P)]
            theta_form = rng.choice(THETA_FORMS) if rng.random() < 0.3 else "list"
        sig = spec.get("sigma") or [1.0] * P
        if "sigma" in spec:
            if theta_form in INT_THETA_FORMS and theta_form != "mixed":
                theta_form = rng.choice(THETA_FORMS)
            theta = [t / x for t, x in zip(theta, sig)]
            ctx.count("validate_units", "rescaled")
            for x in sig:
                ctx.count("validate_coefficient_decade", str(int(math.floor(math.log10(x)))))
        hermitian = all(cc[1] == 0.0 for _, cc in spec["op"])
        if pool and rng.random() < 0.45:
            ename, est = rng.choice(pool)
        else:
            mode = rng.choice(["list", "list", "iter", "tuple"] + (["real"] if hermitian else []))
            ename, est = "numpy-dense:" + mode, numpy_estimator(spec, mode)
        ctx.count("validate_estimator", ename)
        ctx.count("validate_flavour", flavour)
        ctx.count("validate_param_container", theta_form)
        ctx.count("validate_params", str(P))
        pick = lambda: rng.random() < 0.5  # noqa: E731
        b = spec["build"]
        m = rng.random()
        try:
            if m < 0.3 and b.get("kind", "linear") == "linear" and not b.get("post") and len(spec["gates"]) >= 2:
                # the circuit object is used for a gradient, then extended in place, then used again
                k = rng.randint(1, len(spec["gates"]) - 1)
                c = build_linear(spec, upto=k)
                P0 = len(c.param_mapping.in_params)
                pre = {key: v for key, v in spec.items() if key != "build"}
                pre.update({"P": P0, "gates": spec["gates"][:k], "build": {kk: v for kk, v in b.items()}})
                ctx.count("validate_history", "grown-in-place")
                validate_one(ctx, pre, c, flavour + "+prefix", theta[:P0], est, worst, pick, theta_form, more={"estimator": ename})
                grow_linear(c, spec, k)
                validate_one(ctx, spec, c, flavour + "+grown", theta, est, worst, pick, theta_form, more={"estimator": ename, "grown_from": k})
            elif m < 0.5:
                # the same state and create_* estimator objects at three points (the first one twice)
                c = build_real(spec)
                other = ([t + rng.uniform(0.3, 1.3) / x for t, x in zip(theta, sig)] if theta_form not in INT_THETA_FORMS or theta_form == "mixed"
                         else [t + 1.0 for t in theta])
                reuse = {}
                ctx.count("validate_history", "same-objects-3-points")
                for j, th in enumerate((theta, other, theta)):
                    validate_one(ctx, spec, c, flavour + f"+reused#{j}", th, est, worst, pick, theta_form, reuse=reuse, more={"estimator": ename})
            else:
                c = build_real(spec)
                ctx.count("validate_history", "fresh")
                validate_one(ctx, spec, c, flavour, theta, est, worst, pick, theta_form, more={"estimator": ename})
        except InfraError:
            raise
        except Exception as e:  # noqa: BLE001 — construction / mutation of the real circuit failed
            ctx.disagree("construction of a well-formed circuit through the public API", {"flavour": flavour, "spec": spec},
                         f"raises {exc_name(e)}: {str(e)[:200]}", "builds")
        n_eval += 1
    prev = ctx.extra.get("oracle_validation", {"cases": 0})
    ctx.extra["oracle_validation"] = {"cases": prev["cases"] + n_eval,
                                      **{k: max(float(f"{v:.3g}"), prev.get(k, 0.0)) for k, v in worst.items()}}
    ctx.evaluations += n_eval
    ctx.search_budget_s = round(ctx.search_budget_s + (time.time() - t0), 2)


def unsupported_state_check(ctx: Ctx):
    """gradient.py's documented error branch: when with_primitive_circuit() does not give a parametric state the function
    refuses (NotImplementedError) instead of handing the estimator something that is not a parametric state"""
    from quri_parts.core.state import quantum_state

    G, _ = _imports_validate()
    pm = make_direct_mapping([0], [0], [(0, ("P", 0))])
    for name, ret in (("None", None), ("object()", object()), ("a non-parametric CircuitQuantumState", quantum_state(1, bits=0))):
        called = []

        def est(op, state, ps, called=called):
            called.append(type(state).__name__)
            return [Est(0j, 0.0) for _ in ps]

        try:
            G.parameter_shift_gradient_estimates(None, stub_state(pm, primitive=ret), [0.5], est)
            out = "returned"
        except Exception as e:  # noqa: BLE001
            out = exc_name(e)
        ctx.count("unsupported_state", out)
        ctx.evaluations += 1
        if out == "returned" or called:
            ctx.witness("nonparametric-state-not-rejected",
                        f"parameter_shift_gradient_estimates: with_primitive_circuit() gives {name}; the call {out} and the estimator "
                        f"was invoked with {called or 'nothing'} instead of the documented NotImplementedError",
                        {"with_primitive_circuit": name, "mapping": "0 # 0 # 0=P0", "vals": "1/2"})


def replay_spec(ctx: Ctx, case):
    """re-run one recorded oracle case (witness input produced by describe_case)"""
    spec, flavour = case["spec"], case["flavour"]

    def fix_op(sp):
        sp["op"] = [[[tuple(t) for t in term], c] for term, c in sp["op"]]
        for p in (sp.get("build") or {}).get("parts", []):
            fix_op(p)

    fix_op(spec)
    spec.setdefault("build", {"kind": "primitive"} if flavour.startswith("primitive") else {"kind": "linear"})
    theta = [float(t) for t in case["theta"]]
    if flavour == "sub+sub primitive":
        f6_check_primitive(ctx)
        return
    if flavour.startswith("sub+sub"):
        f6_check(ctx, [(spec, theta[-1:])])
        return
    worst = {"grad": 0.0, "hess": 0.0, "symm": 0.0, "num_ratio": 0.0}
    hermitian = all(cc[1] == 0.0 for _, cc in spec["op"])
    ests = [numpy_estimator(spec, m) for m in ["list", "iter", "tuple"] + (["real"] if hermitian else [])] + [e for _, e in get_exact_estimators()]
    form = case.get("theta_form", "list")
    for est in ests:
        for pick in (True, False):
            if "grown_from" in case:
                k = case["grown_from"]
                c = build_linear(spec, upto=k)
                P0 = len(c.param_mapping.in_params)
                pre = dict(spec)
                pre.update({"P": P0, "gates": spec["gates"][:k]})
                validate_one(ctx, pre, c, flavour + "+prefix", theta[:P0], est, worst, lambda: pick, form)
                grow_linear(c, spec, k)
                validate_one(ctx, spec, c, flavour, theta, est, worst, lambda: pick, form, more={"grown_from": k})
            else:
                c = build_real(spec)
                reuse = {}
                for th in (theta, [t + 1.0 for t in theta], theta):
                    validate_one(ctx, spec, c, flavour, th, est, worst, lambda: pick, form, reuse=reuse)
    ctx.evaluations += 1


F6_SPEC = {
    "n": 2, "P": 1,
    "gates": [{"k": "H", "t": [0]}, {"k": "PRX", "t": [0], "ang": {"p": 0}}, {"k": "CNOT", "c": [0], "t": [1]},
              {"k": "PRY", "t": [1], "ang": {"f": [[0, [1, 2]], ["c", [1, 4]]]}}],
    "op": [[[(0, 3), (1, 1)], [0.7, 0.0]], [[(0, 2)], [-0.4, 0.0]]],
}


def f6_replay(ctx: Ctx, extra_random: int):
    """finding F6: `sub + sub` shares raw parameters (and duplicates in_params): replay on the real code"""
    rng = ctx.rng
    specs = [(F6_SPEC, [0.3])] + [(gen_spec(rng, P=1, min_param_gates=1, max_len=4), [rng.uniform(-3, 3)]) for _ in range(extra_random)]
    f6_check(ctx, specs)
    f6_check_primitive(ctx)


F6P_SPEC = {
    "n": 1, "P": 1,
    "gates": [{"k": "H", "t": [0]}, {"k": "PRX", "t": [0], "ang": {"p": 0}}],
    "op": [[[(0, 2)], [1.0, 0.0]], [[(0, 3)], [0.5, 0.0]]],
}


def f6_check_primitive(ctx: Ctx):
    """the same defect on a plain ParametricQuantumCircuit: `c + c` lists the shared Parameter twice in in_params and
    out_params while bind_parameters is positional (the two copies are bound independently)"""
    import numpy as np

    from oracle import c09deriv
    from quri_parts.core.estimator.gradient import numerical_gradient_estimates, parameter_shift_gradient_estimates
    from quri_parts.core.state import quantum_state

    spec = F6P_SPEC
    c = build_primitive(spec)
    d = c + c
    ins, outs, _, _, _ = dump_mapping(d.param_mapping)
    if len(set(outs)) == len(outs) and len(set(ins)) == len(ins):
        return
    theta = [0.4, 1.1][: len(ins)]
    doubled = concat_specs(spec, spec)
    op = real_operator(spec)
    state = quantum_state(spec["n"], circuit=d)
    est = numpy_estimator(spec)
    case = describe_case(spec, theta, "sub+sub primitive")
    try:
        psr = np.array([complex(v) for v in parameter_shift_gradient_estimates(op, state, theta, est).values])
        num = np.array([complex(v) for v in numerical_gradient_estimates(op, state, theta, est, 1e-5).values])
    except Exception as e:  # noqa: BLE001
        ctx.witness(FINDING_F6, f"c + c (primitive): gradient raises {exc_name(e)}", case)
        return
    gt, _ = c09deriv.grad_hess(doubled, theta, want_hess=False)
    if len(psr) == len(gt) and float(np.max(np.abs(psr - gt))) > 1e-3 and float(np.max(np.abs(psr - num))) > 1e-3:
        ctx.witness(FINDING_F6,
                    f"c + c for a plain ParametricQuantumCircuit (in_params={ins}, out_params={outs}): parameter-shift gradient "
                    f"{[f'{v.real:.6g}' for v in psr]} vs numerical {[f'{v.real:.6g}' for v in num]} vs analytic {[f'{v.real:.6g}' for v in gt]}",
                    case, {"psr": [str(v) for v in psr], "numerical": [str(v) for v in num], "analytic": [str(v) for v in gt]})
    ctx.evaluations += 1


def f6_check(ctx: Ctx, specs):
    import numpy as np

    from oracle import c09deriv
    from quri_parts.core.estimator.gradient import numerical_gradient_estimates, parameter_shift_gradient_estimates
    from quri_parts.core.state import quantum_state

    hits = 0
    for spec, x in specs:
        sub = build_linear(spec)
        c = sub + sub
        pm = c.param_mapping
        ins, outs, entries, _, _ = dump_mapping(pm)
        shared = len(set(outs)) < len(outs) or len(set(ins)) < len(ins)
        if not shared:
            ctx.extra["f6_sharing"] = "sub + sub no longer shares parameters"
            continue
        theta = x * len(pm.in_params)
        op = real_operator(spec)
        state = quantum_state(spec["n"], circuit=c)
        est = numpy_estimator(spec)
        try:
            psr = np.array([complex(v) for v in parameter_shift_gradient_estimates(op, state, theta, est).values])
            num = np.array([complex(v) for v in numerical_gradient_estimates(op, state, theta, est, 1e-5).values])
        except Exception as e:  # noqa: BLE001
            ctx.witness(FINDING_F6, f"sub + sub: gradient raises {exc_name(e)}", describe_case(spec, theta, "sub+sub"))
            hits += 1
            continue
        # analytic derivative of x ↦ E(sub(x); sub(x))
        doubled = {"n": spec["n"], "P": 1, "gates": spec["gates"] + spec["gates"], "op": spec["op"]}
        gt, _ = c09deriv.grad_hess(doubled, x, want_hess=False)
        # bind_parameters gives the shared parameter its LAST value: the function of the slots is (0, …, 0, dE/dx)
        true = np.zeros(len(theta), dtype=complex)
        true[-1] = gt[0]
        d_true = float(np.max(np.abs(psr - true)))
        d_num = float(np.max(np.abs(psr - num)))
        d_total = abs(complex(np.sum(psr)) - gt[0])
        if d_num > 1e-3 and d_true > 1e-3 and d_total > 1e-3:
            hits += 1
            ctx.witness(FINDING_F6,
                        f"sub + sub (in_params={ins}, out_params={outs}): parameter-shift gradient {[f'{v.real:.6g}' for v in psr]} vs "
                        f"numerical {[f'{v.real:.6g}' for v in num]} vs analytic dE/dx {gt[0].real:.6g}",
                        describe_case(spec, theta, "sub+sub"),
                        {"in_params": ins, "out_params": outs, "psr": [str(v) for v in psr], "numerical": [str(v) for v in num],
                         "analytic_dE_dx": str(gt[0])})
    prev = ctx.extra.get("f6_instances", {"tried": 0, "violating": 0})
    ctx.extra["f6_instances"] = {"tried": prev["tried"] + len(specs), "violating": prev["violating"] + hits}
    ctx.evaluations += len(specs)


# ---------------------------------------------------------------------------
def load_corpus():
    out = []
    for f in sorted(glob.glob(os.path.join(VERIF, "corpus", "C09", "*.json"))):
        with open(f) as fh:
            d = json.load(fh)
        for c in d if isinstance(d, list) else [d]:
            entries = []
            for r, v in c["entries"]:
                if v[0] == "P":
                    entries.append((r, ("P", v[1])))
                else:
                    entries.append((r, ("F", [(k, Fraction(*cc)) for k, cc in v[1]])))
            out.append((c["ins"], c["outs"], entries, [Fraction(*v) for v in c["vals"]]))
    return out


def parse_replay_mapping(menc: str, venc: str):
    ins_s, outs_s, ent_s = [x.strip() for x in menc.split("#")]
    li = lambda s: [int(x) for x in s.split(",")] if s and s != "-" else []  # noqa: E731
    entries = []
    if ent_s and ent_s != "-":
        for e in ent_s.split(";"):
            r, v = e.split("=")
            if v.startswith("P"):
                entries.append((int(r), ("P", int(v[1:]))))
            else:
                f = []
                for kc in v[1:].split(","):
                    if kc:
                        k, c = kc.split(":")
                        f.append(("c" if k == "c" else int(k), pfr(c)))
                entries.append((int(r), ("F", f)))
    vals = [pfr(x) for x in venc.split(",")] if venc and venc != "-" else []
    return li(ins_s), li(outs_s), entries, vals


def run(ctx: Ctx, replay=None) -> int:
    ctx.rule = ("cases = (LinearParameterMapping of a real circuit built through the public API — linear mapped, primitive, A + B, "
                "sub + sub — or built directly incl. malformed ones, dyadic parameter values): real get_derivatives of the mapping, "
                "first/second-order shift sets and coefficients, shifted raw parameter vectors (decoded as φ + k·π/2), and "
                "gradient.py / hessian.py / numerical gradient with an exact integer mock estimator vs the Lean model, all exact "
                "(rationals); distinct = distinct (mapping, values); nontrivial = at least one shift term. Plus oracle validation "
                "(counted in evaluations only): real gradient / Hessian / numerical gradient with an exact estimator vs "
                "generator-insertion derivatives of oracle/c09deriv.py, per entry RELATIVE to its natural size (coefficients / parameter values / operator rescaled over 1e-12 … 1e6 with O(1) angles), Hessian symmetry, δ² error bound for δ = 1e-2, ±1e-3, 1e-4; "
                "circuits by construction recipe (lazy / single parameter declaration, int coefficients, arbitrary float coefficients, "
                "A + B / extend / += / combine of linear-mapped and plain parametric parts, frozen / mutable copies), parameter points "
                "as list / tuple / ndarray / numpy scalars / ints / int arrays, operators as Operator / bare PauliLabel / identity / zero, "
                "four exact estimators returning list / iterator / tuple / real values, call histories (same state and create_* objects at "
                "three points, circuit extended in place between two gradients). Restated documentation: seq_mapper values and length "
                "check, is_trivial_mapping on well-formed mappings, NotImplementedError for a non-parametric primitive state")
    ctx.trusted = TRUSTED
    ctx.assumptions = ASSUMPTIONS
    mods = [PROPS, PROPS_LIFT] if ctx.quick() else [PROPS, PROPS_REAL, PROPS_LIFT]
    ok = ctx.prove(mods + ["QuriVerif.Driver.C09"], mods)
    if ok:
        names = [f"QV.{m.split('.', 1)[1]}.{n}" for m, n, _ in ctx.count_obligations(mods)]
        ctx.audit(names, mods + ["QuriVerif.Driver.C09"])
    else:
        ok_driver, _ = ctx.lake_build(["QuriVerif.Driver.C09"])
        if not ok_driver:
            raise InfraError("the C09 model/driver does not build: " + ctx.build_output_tail[-800:])
    if replay:
        with open(replay) as fh:
            rp = json.load(fh)
        cases = []
        for w in rp.get("disagreements", []) + rp.get("witnesses", []):
            inp = w.get("input")
            if isinstance(inp, dict) and "mapping" in inp:
                cases.append(parse_replay_mapping(inp["mapping"], inp.get("vals", "-")))
            elif isinstance(inp, dict) and "spec" in inp:
                replay_spec(ctx, inp)
        if cases:
            k_direct(ctx, 0, extra=cases)
        return ctx.finish()
    with ctx.timed("correspond"):
        k_direct(ctx, 0, extra=load_corpus())
        k_circuits(ctx, ctx.n(500, 8000))
        k_direct(ctx, ctx.n(500, 8000))
        k_numerical(ctx, ctx.n(150, 3000))
        if not ctx.quick():
            exhaustive_small(ctx)
    with ctx.timed("f6_replay"):
        f6_replay(ctx, ctx.n(5, 60))
    with ctx.timed("error_branches"):
        unsupported_state_check(ctx)
    broken = bool(ctx.failed_obligations or ctx.disagreements)
    if TARGETS:
        with ctx.timed("targeted_search"):
            targeted_search(ctx)
    with ctx.timed("oracle_validation"):
        budget = (25 if ctx.quick() else 280) * (2 if broken else 1)
        validate(ctx, budget, ctx.n(600, 50000) * (2 if broken else 1))
    keys = {}
    for w in ctx.witnesses:
        keys[w["key"]] = keys.get(w["key"], 0) + 1
    ctx.extra["witness_keys"] = keys
    return ctx.finish()
