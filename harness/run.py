"""Dispatcher: ./check <ID> --tier <tier>"""
import importlib
import os
import sys

sys.path.insert(0, os.path.dirname(os.path.abspath(__file__)))
sys.path.insert(0, os.path.dirname(os.path.dirname(os.path.abspath(__file__))))
import common  # noqa: E402


def main():
    if len(sys.argv) < 2:
        print("usage: check <ID> [--tier quick|thorough]")
        sys.exit(2)
    pid = sys.argv[1].upper()
    try:
        mod = importlib.import_module(pid.lower())
    except ModuleNotFoundError as e:
        print(f"INFRA-ERROR no check module for {pid}: {e}")
        sys.exit(2)
    common.main(mod.run, pid)


if __name__ == "__main__":
    main()
