"""Shared machinery for every check: overlay import of the working tree, PRNG,
Lean build / driver, evidence, known findings, verdicts.

Exit codes: 0 held, 1 violation (VIOLATION line printed), 2 infrastructure error.
"""
from __future__ import annotations

import fcntl
import glob
import json
import os
import random
import re
import subprocess
import sys
import time
import traceback

VERIF = os.path.dirname(os.path.dirname(os.path.abspath(__file__)))
REPO = os.environ.get("VERIF_REPO", "/repo")
LEAN = os.path.join(VERIF, "lean")
GEN = os.path.join(LEAN, "QuriVerif", "Generated")
# evidence / replay of runs against a scratch copy of the repository (mutation experiments) never overwrite the
# evidence of /repo itself
_SCRATCH = os.path.realpath(REPO) != "/repo"
EVID = os.environ.get("VERIF_EVIDENCE_DIR") or os.path.join("/var/tmp/qv-scratch-evidence" if _SCRATCH else VERIF, "evidence")
REPLAY = os.path.join(VERIF, "replay")
ALLOWED_AXIOMS = {"propext", "Classical.choice", "Quot.sound"}
FORBIDDEN = re.compile(
    r"\bsorry\b|\badmit\b|^axiom\s|native_decide|bv_decide|implemented_by|\bunsafe\s|maxHeartbeats\s+0\b"
)


class InfraError(Exception):
    pass


# --------------------------------------------------------------------------
# overlay import
# --------------------------------------------------------------------------
def overlay() -> None:
    pk = sorted(glob.glob(os.path.join(REPO, "packages", "*")))
    paths = [p for p in pk if os.path.basename(p) != "rust" and os.path.isdir(p)]
    for p in reversed(paths):
        if p not in sys.path:
            sys.path.insert(0, p)
    # a sub-package that is a namespace portion in the working tree (no __init__.py) but a regular package in
    # site-packages would be shadowed by the installed copy whatever sys.path says: pre-bind it to the working tree
    import types

    subs: dict[str, list[str]] = {}
    for p in paths:
        for d in sorted(glob.glob(os.path.join(p, "quri_parts", "*"))):
            if os.path.isdir(d) and not os.path.basename(d).startswith("__"):
                subs.setdefault(os.path.basename(d), []).append(d)
    for sub, dirs in subs.items():
        name = "quri_parts." + sub
        if name in sys.modules or any(os.path.exists(os.path.join(d, "__init__.py")) for d in dirs):
            continue
        mod = types.ModuleType(name)
        mod.__path__ = list(dirs)  # type: ignore[attr-defined]
        mod.__file__ = None
        mod.__package__ = name
        sys.modules[name] = mod
        import quri_parts  # namespace package: importing it loads nothing

        setattr(quri_parts, sub, mod)
    # make sure nothing was imported before the overlay
    stale = [
        m
        for m, v in sys.modules.items()
        if m.startswith("quri_parts.")
        and getattr(v, "__file__", None)
        and not v.__file__.startswith(REPO + "/")
        and not m.startswith("quri_parts.rust")
    ]
    if stale:
        raise InfraError(f"modules imported before overlay: {stale[:5]}")


def assert_overlay() -> int:
    """Every loaded quri_parts module except the Rust extension must come from
    the working tree.  Returns the number of working-tree modules loaded."""
    n = 0
    for m, v in list(sys.modules.items()):
        if not m.startswith("quri_parts"):
            continue
        f = getattr(v, "__file__", None)
        if not f:
            continue
        if m == "quri_parts.rust" or m.startswith("quri_parts.rust."):
            continue
        if not f.startswith(REPO + "/"):
            raise InfraError(f"module {m} loaded from {f}, not from the working tree")
        n += 1
    return n


def repo_file(rel: str) -> str:
    return os.path.join(REPO, rel)


def read_repo(rel: str) -> str:
    with open(repo_file(rel)) as f:
        return f.read()


# --------------------------------------------------------------------------
# known findings
# --------------------------------------------------------------------------
def load_known_findings():
    """lines:  `finding: property=C12 key=<key> <text>`  /  `fixed: property=C12 <commit> <text>`"""
    out = []
    p = os.path.join(VERIF, "known_findings.txt")
    if not os.path.exists(p):
        return out
    for line in open(p):
        line = line.strip()
        if not line or line.startswith("#"):
            continue
        m = re.match(r"finding:\s+property=(\S+)\s+key=(\S+)\s+(.*)", line)
        if m:
            out.append({"property": m.group(1), "key": m.group(2), "text": m.group(3)})
    return out


# --------------------------------------------------------------------------
# context
# --------------------------------------------------------------------------
_SCHEMA_TYPED = {"states": int, "transitions": int, "programs": int, "disagreements_checked": int, "obligations": int,
                 "discharged": int, "evaluations": int, "distinct_nontrivial": int, "traces_validated_against_impl": int,
                 "explanation": str, "rule": str, "checker_cmd": str, "exhaustive": bool, "samples": list, "trusted_base": list}


def _extra_ok(k, v) -> bool:
    """extra coverage keys must not shadow a schema-typed key with a value of another type"""
    t = _SCHEMA_TYPED.get(k)
    return t is None or (isinstance(v, t) and not (t is int and isinstance(v, bool)))


class Ctx:
    def __init__(self, pid: str, tier: str, seed: int):
        self.pid = pid
        self.tier = tier
        self.seed = seed
        self.rng = random.Random(f"{pid}:{seed}")
        self.t0 = time.time()
        self.timings: dict[str, float] = {}
        self.obligations: list[str] = []  # names
        self.failed_obligations: list[dict] = []
        self.disagreements: list[dict] = []  # correspondence disagreements
        self.witnesses: list[dict] = []  # property-falsifying inputs on the real code
        self.known_seen: list[str] = []
        self.samples: list = []
        self.evaluations = 0
        self.nontrivial: set = set()
        self.traces = 0
        self.rule = ""
        self.dist: dict = {}
        self.extra: dict = {}
        self.trusted: list[str] = []
        self.assumptions: list[str] = []
        self.generated_entries = 0
        self.axioms: dict[str, list[str]] = {}
        self.checker_cmd = ""
        self.notes: list[str] = []
        self.search_budget_s = 0.0

    # ---- bookkeeping -----------------------------------------------------
    def quick(self) -> bool:
        return self.tier == "quick"

    def n(self, quick: int, thorough: int) -> int:
        return quick if self.tier == "quick" else thorough

    def timed(self, name):
        ctx = self

        class T:
            def __enter__(self_inner):
                self_inner.t = time.time()

            def __exit__(self_inner, *a):
                ctx.timings[name] = round(ctx.timings.get(name, 0) + time.time() - self_inner.t, 3)

        return T()

    def count(self, key: str, sub: str | None = None, k: int = 1):
        if sub is None:
            self.dist[key] = self.dist.get(key, 0) + k
        else:
            d = self.dist.setdefault(key, {})
            d[sub] = d.get(sub, 0) + k

    def case(self, canon, nontrivial: bool = True, sample=None):
        """register one evaluated case; `canon` is a hashable canonical form"""
        self.evaluations += 1
        if nontrivial:
            self.nontrivial.add(canon if isinstance(canon, (str, int, tuple)) else repr(canon))
        if sample is not None and len(self.samples) < 6:
            self.samples.append(sample)

    def disagree(self, what: str, inp, real, model):
        self.disagreements.append({"correspondence": what, "input": inp, "real": real, "model": model})

    def witness(self, key: str, what: str, inp, detail=None):
        """a concrete input on which the REAL code falsifies the property"""
        if sum(1 for w in self.witnesses if w["key"] == key) < 20:
            self.witnesses.append({"key": key, "what": what, "input": inp, "detail": detail})
        self.witness_total = getattr(self, "witness_total", 0) + 1

    # ---- Lean ------------------------------------------------------------
    def write_generated(self, name: str, body: str) -> str:
        os.makedirs(GEN, exist_ok=True)
        path = os.path.join(GEN, name + ".lean")
        old = open(path).read() if os.path.exists(path) else None
        if old != body:
            with open(path, "w") as f:
                f.write(body)
        return path

    def lake_build(self, targets: list[str], timeout: int = 3000) -> tuple[bool, str]:
        os.makedirs(os.path.join(LEAN, ".lake"), exist_ok=True)
        lock = open(os.path.join(LEAN, ".lake", "verif.lock"), "w")
        fcntl.flock(lock, fcntl.LOCK_EX)
        try:
            cmd = ["lake", "build"] + targets
            self.checker_cmd = "cd lean && " + " ".join(cmd)
            p = subprocess.run(cmd, cwd=LEAN, capture_output=True, text=True, timeout=timeout)
            return p.returncode == 0, p.stdout + p.stderr
        finally:
            fcntl.flock(lock, fcntl.LOCK_UN)
            lock.close()

    def lean_files_for(self, modules: list[str]) -> list[str]:
        return [os.path.join(LEAN, m.replace(".", "/") + ".lean") for m in modules]

    def count_obligations(self, modules: list[str]) -> list[tuple[str, str, int]]:
        """(module, theorem name, line) for every theorem in the given modules"""
        out = []
        for m, f in zip(modules, self.lean_files_for(modules)):
            if not os.path.exists(f):
                continue
            for i, line in enumerate(open(f), 1):
                mm = re.match(r"\s*(?:private\s+|protected\s+)?theorem\s+([^\s:({\[]+)", line)
                if mm:
                    out.append((m, mm.group(1), i))
        return out

    def import_closure(self, modules: list[str]) -> set[str]:
        """QuriVerif modules reachable from `modules` through `import` lines (source files that exist)"""
        todo, seen = list(modules), set()
        while todo:
            m = todo.pop()
            if m in seen:
                continue
            seen.add(m)
            f = os.path.join(LEAN, m.replace(".", "/") + ".lean")
            if not os.path.exists(f):
                continue
            for line in open(f):
                mm = re.match(r"\s*import\s+(QuriVerif[\w.]*)", line)
                if mm:
                    todo.append(mm.group(1))
        return seen

    def regenerate_foreign(self, modules: list[str]) -> None:
        """Generated/*.lean files of OTHER properties that this check's build imports (e.g. Driver.All imports the C01
        tables) may be stale — left by an earlier run against another tree. Regenerate them from the current tree with
        their owners' translators, so that this check never reports someone else's leftovers."""
        import importlib

        owners = sorted({m.split(".")[-1][:3] for m in self.import_closure(modules)
                         if m.startswith("QuriVerif.Generated.") and re.match(r"C\d\d", m.split(".")[-1])})
        done = []
        for o in owners:
            if o == self.pid:
                continue
            try:
                mod = importlib.import_module(o.lower())
            except Exception:  # noqa: BLE001
                continue
            if hasattr(mod, "gen"):
                try:
                    mod.gen(Ctx(o, "quick", self.seed))
                    done.append(o)
                except Exception as e:  # noqa: BLE001 – the owner's own check reports translation problems
                    self.notes.append(f"could not regenerate Generated files of {o}: {type(e).__name__}: {e}"[:300])
        if done:
            self.extra["regenerated_foreign"] = done

    def prove(self, prop_modules: list[str], obligation_modules: list[str]) -> bool:
        """Build the property modules; record which obligations failed.
        obligation_modules: the modules whose `theorem`s count as obligations."""
        with self.timed("regenerate_foreign"):
            self.regenerate_foreign(prop_modules)
        with self.timed("lean_build"):
            obs = self.count_obligations(obligation_modules)
            self.obligations = [f"{m}.{n}" for m, n, _ in obs]
            ok, out = self.lake_build(prop_modules)
            self.build_output_tail = out[-4000:]
            if ok:
                return True
            # map errors to theorems
            errs = re.findall(r"error: ([^\s:]+\.lean):(\d+):(\d+): (.*)", out)
            per_file: dict[str, list[tuple[str, int]]] = {}
            for m, n, ln in obs:
                per_file.setdefault(m.replace(".", "/") + ".lean", []).append((f"{m}.{n}", ln))
            seen = set()
            unmatched = []
            for f, ln, col, msg in errs:
                ln = int(ln)
                key = None
                for rel, lst in per_file.items():
                    if f.endswith(rel):
                        cands = [x for x in lst if x[1] <= ln]
                        if cands:
                            key = cands[-1][0]
                if key and key not in seen:
                    seen.add(key)
                    self.failed_obligations.append({"obligation": key, "error": msg[:300], "at": f"{f}:{ln}"})
                elif not key:
                    unmatched.append(f"{f}:{ln}: {msg[:200]}")
            if not self.failed_obligations:
                # build failed for a reason we cannot attribute to an obligation
                self.failed_obligations.append(
                    {"obligation": "<build>", "error": (unmatched[:3] or [out[-600:]]).__repr__()}
                )
            return False

    def audit(self, theorem_names: list[str], imports: list[str]) -> None:
        """#print axioms for the given theorems + forbidden-token grep over lean/QuriVerif"""
        with self.timed("audit"):
            bad = []
            # every source file in the import closure of the audited modules (and the driver)
            todo = list(imports) + ["Driver"]
            seen = set()
            files = []
            while todo:
                mname = todo.pop()
                if mname in seen:
                    continue
                seen.add(mname)
                f = os.path.join(LEAN, mname.replace(".", "/") + ".lean")
                if not os.path.exists(f):
                    continue
                files.append(f)
                for line in open(f):
                    mm = re.match(r"\s*import\s+(QuriVerif[\w.]*)", line)
                    if mm:
                        todo.append(mm.group(1))
            self.extra["audited_files"] = len(files)
            for f in files:
                txt = open(f).read()
                txt = re.sub(r"/-.*?-/", "", txt, flags=re.S)
                for i, line in enumerate(txt.split("\n"), 1):
                    line = line.split("--")[0]
                    if FORBIDDEN.search(line):
                        bad.append(f"{os.path.relpath(f, LEAN)}:{i}: {line.strip()[:80]}")
            if bad:
                raise InfraError("forbidden tokens in Lean sources: " + "; ".join(bad[:5]))
            if not theorem_names:
                return
            src = "".join(f"import {m}\n" for m in imports) + "".join(
                f"#print axioms {t}\n" for t in theorem_names
            )
            tmp = os.path.join(LEAN, ".lake", f"audit_{self.pid}_{os.getpid()}.lean")
            with open(tmp, "w") as f:
                f.write(src)
            try:
                p = subprocess.run(
                    ["lake", "env", "lean", tmp], cwd=LEAN, capture_output=True, text=True, timeout=1200
                )
            finally:
                os.unlink(tmp)
            out = p.stdout + p.stderr
            for m in re.finditer(r"^'(.+?)' depends on axioms: \[([^\]]*)\]", out, flags=re.M):
                self.axioms[m.group(1)] = [a.strip() for a in m.group(2).split(",")]
            for m in re.finditer(r"^'(.+?)' does not depend on any axioms", out, flags=re.M):
                self.axioms[m.group(1)] = []
            missing = [t for t in theorem_names if t not in self.axioms and t.split(".")[-1] not in
                       {k.split(".")[-1] for k in self.axioms}]
            if p.returncode != 0 or missing:
                raise InfraError(f"axiom audit failed: rc={p.returncode} missing={missing[:5]} {out[-500:]}")
            for t, ax in self.axioms.items():
                extra = set(ax) - ALLOWED_AXIOMS
                if extra:
                    raise InfraError(f"theorem {t} depends on non-standard axioms {extra}")
            if self.tier == "thorough" and imports:
                # independent re-check of the compiled proofs
                t0 = time.time()
                p = subprocess.run(["lake", "env", "leanchecker"] + list(imports), cwd=LEAN, capture_output=True,
                                   text=True, timeout=3000)
                self.extra["leanchecker"] = {"modules": list(imports), "rc": p.returncode, "wall_s": round(time.time() - t0, 1)}
                if p.returncode != 0:
                    raise InfraError(f"leanchecker rejected {imports}: {(p.stdout + p.stderr)[-400:]}")

    def driver(self, lines: list[str], timeout: int = 1800, entry: str = "Driver.lean") -> list[str]:
        """run a Lean model driver (`lean/<entry>`) on request lines; one response per line
        (the driver prefixes each response with "> ")"""
        if not lines:
            return []
        with self.timed("lean_driver"):
            inp = "\n".join(lines) + "\n"
            p = subprocess.run(
                ["lake", "env", "lean", "--run", entry],
                cwd=LEAN,
                input=inp,
                capture_output=True,
                text=True,
                timeout=timeout,
            )
            if p.returncode != 0:
                raise InfraError(f"Lean driver failed rc={p.returncode}: {(p.stdout + p.stderr)[-1500:]}")
            out = [l[2:] for l in p.stdout.split("\n") if l.startswith("> ")]
            if len(out) != len(lines):
                raise InfraError(f"driver returned {len(out)} lines for {len(lines)} requests; tail={out[-3:]}")
            return out

    # ---- verdict ---------------------------------------------------------
    def finish(self, level_text_trusted: list[str] | None = None) -> int:
        known = [k for k in load_known_findings() if k["property"] == self.pid]
        known_keys = {k["key"]: k for k in known}
        new_witnesses = []
        for w in self.witnesses:
            if w["key"] in known_keys:
                if w["key"] not in self.known_seen:
                    self.known_seen.append(w["key"])
            else:
                new_witnesses.append(w)
        os.makedirs(EVID, exist_ok=True)
        os.makedirs(REPLAY, exist_ok=True)
        broken = bool(self.failed_obligations or self.disagreements)
        violation = bool(new_witnesses) or (broken and not self._explained_by_known())
        rc = 0
        lines = []
        for k in self.known_seen:
            lines.append(f"KNOWN-FINDING: property={self.pid} {k}: {known_keys[k]['text']}")
        replay_path = None
        stale = os.path.join(REPLAY, f"{self.pid}_{self.tier}_{self.seed}.json")
        if not violation and os.path.exists(stale):
            os.unlink(stale)
        if violation:
            rc = 1
            replay_path = os.path.join(REPLAY, f"{self.pid}_{self.tier}_{self.seed}.json")
            replay = {
                "property": self.pid,
                "seed": self.seed,
                "tier": self.tier,
                "witnesses": new_witnesses[:5],
                "failed_obligations": self.failed_obligations[:20],
                "disagreements": self.disagreements[:5],
            }
            with open(replay_path, "w") as f:
                json.dump(replay, f, indent=1, default=str)
            tail = "" if new_witnesses else " no-failing-input-found"
            lines.append(f"VIOLATION property={self.pid} replay={replay_path}{tail}")
        n_obl = len(self.obligations)
        failed_names = {f["obligation"] for f in self.failed_obligations}
        discharged = n_obl - len([o for o in self.obligations if o in failed_names])
        if "<build>" in failed_names:
            discharged = 0
        ev = {
            "property_id": self.pid,
            "tier": self.tier,
            "seed": self.seed,
            "level": "proof",
            "coverage": {
                "obligations": n_obl,
                "discharged": discharged,
                "checker_cmd": self.checker_cmd or "cd lean && lake build",
                "trusted_base": self.trusted,
                "evaluations": self.evaluations,
                "distinct_nontrivial": len(self.nontrivial),
                "rule": self.rule,
                "samples": self.samples[:6] + [{"obligations": self.obligations[:8]}],
                "traces_validated_against_impl": self.traces,
                "generated_entries": self.generated_entries,
                "input_distribution": self.dist,
                "axioms": self.axioms,
                "failed_obligations": self.failed_obligations[:20],
                "disagreements": len(self.disagreements),
                "known_findings_seen": self.known_seen,
                "search_budget_s": self.search_budget_s,
                "timings_s": self.timings,
                "notes": self.notes,
                **{(k if _extra_ok(k, v) else k + "_note"): v for k, v in self.extra.items()},
            },
            "assumptions": self.assumptions,
            "wall_s": round(time.time() - self.t0, 2),
            "violations": len(new_witnesses) + (1 if (violation and not new_witnesses) else 0),
        }
        with open(os.path.join(EVID, f"{self.pid}.json"), "w") as f:
            json.dump(ev, f, indent=1, default=str)
        for l in lines:
            print(l)
        print(
            f"[{self.pid}] tier={self.tier} seed={self.seed} obligations={n_obl} discharged={discharged} "
            f"evaluations={self.evaluations} distinct={len(self.nontrivial)} disagreements={len(self.disagreements)} "
            f"witnesses={len(self.witnesses)} known={len(self.known_seen)} wall={ev['wall_s']}s rc={rc}"
        )
        return rc

    def _explained_by_known(self) -> bool:
        """A broken obligation / disagreement that is tagged with the key of a known finding
        is explained by it (the tag is attached by the property module, never at run time by matching text)."""
        known = {k["key"] for k in load_known_findings() if k["property"] == self.pid}
        for f in self.failed_obligations:
            if f.get("known_key") not in known:
                return False
        for d in self.disagreements:
            if d.get("known_key") not in known:
                return False
        return True


def main(run_fn, pid: str) -> None:
    import argparse

    ap = argparse.ArgumentParser()
    ap.add_argument("--tier", default=os.environ.get("VERIF_TIER", "quick"))
    ap.add_argument("--replay", default=None)
    a, _ = ap.parse_known_args(sys.argv[2:])
    tier = a.tier if a.tier in ("quick", "thorough") else "quick"
    seed = int(os.environ.get("VERIF_SEED", "0") or 0)
    ctx = Ctx(pid, tier, seed)
    try:
        overlay()
        rc = run_fn(ctx, a.replay)
        assert_overlay()
    except InfraError as e:
        print(f"INFRA-ERROR property={pid}: {e}")
        sys.exit(2)
    except subprocess.TimeoutExpired as e:
        print(f"INFRA-ERROR property={pid}: timeout {e}")
        sys.exit(2)
    except Exception:
        traceback.print_exc()
        print(f"INFRA-ERROR property={pid}: unexpected exception in the check itself")
        sys.exit(2)
    sys.exit(rc)
