"""C05 — Operator arithmetic is a faithful image of matrix arithmetic."""
from __future__ import annotations

import gc
import os
import sys
import time

sys.path.insert(0, os.path.dirname(os.path.dirname(os.path.abspath(__file__))))

from common import Ctx, InfraError  # noqa: E402
from oracle import c05ref as ref  # noqa: E402
from translate import c05gen  # noqa: E402

ENTRY = "DriverC05.lean"
LEAN_TARGETS = ["QuriVerif.Props.C05", "QuriVerif.Props.C05Lift", "QuriVerif.Props.C05LiftTable", "QuriVerif.Driver.C05"]
LEAN_TARGETS_THOROUGH = ["QuriVerif.Props.C05Deep"]

TRUSTED = [
    "Lean 4.33 kernel; axioms audited ⊆ {propext, Classical.choice, Quot.sound}",
    "translator /verif/translate/c05gen.py (ast): SinglePauli values, _pauli_products_map, _sparse_pauli_x/y/z, _pauli_map, "
    "the placement subscript of sparse.py and the per-letter updates of pauli_label_to_bsv",
    "the hand model Model/C05.lean of pauli.py / operator.py / sparse.py / representation is tied to the code by the "
    "correspondence harness (same inputs, canonicalised outputs, order-sensitive dict views), not by proof",
    "Python dict / frozenset / re / str.split / complex arithmetic semantics as modelled (association lists, canonical sorted sets, "
    "Gaussian integers); scipy.sparse.kron/sum and numpy are outside the model: the export is compared entry by entry",
    "coefficients in the correspondence are integer-valued complex floats below 2^45 (binary floating point is exact on them); "
    "rounding for generic complex coefficients is not covered",
    "CPython reference counting for the WeakValueDictionary interning cache (eviction is modelled as arbitrary)",
]

ISUB_KEY = "isub-self-alias"
IDSTR_KEY = "str-roundtrip-identity"


# ---------------------------------------------------------------------------
# encodings
# ---------------------------------------------------------------------------
def enc_pairs(ps) -> str:
    ps = list(ps)
    return ",".join(f"{i}.{p}" for i, p in ps) if ps else "-"


def enc_k(c) -> str:
    return f"{c[0]}:{c[1]}"


def enc_items(items) -> str:
    items = list(items)
    return "&".join(f"{enc_k(c)}@{enc_pairs(l)}" for l, c in items) if items else "-"


def enc_chars(s: str) -> str:
    return ",".join(str(ord(ch)) for ch in s) if s else "-"


def canon_label(l):
    return tuple(sorted((int(i), int(p)) for i, p in l))


def gauss(c):
    """integer-valued python number -> (re, im) or None"""
    z = complex(c)
    if z.real != z.real or z.imag != z.imag or abs(z.real) > 2**52 or abs(z.imag) > 2**52:
        return None
    if z.real != int(z.real) or z.imag != int(z.imag):
        return None
    return (int(z.real), int(z.imag))


def show_k_real(c) -> str:
    g = gauss(c)
    return enc_k(g) if g is not None else f"nonint({c!r})"


def dump_op(op) -> str:
    items = [(canon_label(l), c) for l, c in op.items()]
    body = "&".join(f"{show_k_real(c)}@{enc_pairs(l)}" for l, c in items) if items else "-"
    return f"{body} {show_k_real(op.constant)}"


def dump_heap(heap) -> str:
    return " | ".join(dump_op(o) for o in heap)


def py_scalar(rng, k):
    """a Python scalar equal to the Gaussian integer k, of a random numeric type"""
    re, im = k
    r = rng.random()
    if r < 0.15:
        # numpy scalars that ARE Python floats / complex numbers (np.float64 <: float, np.complex128 <: complex)
        import numpy as np

        return np.float64(re) if im == 0 and rng.random() < 0.5 else np.complex128(complex(re, im))
    if im == 0:
        if re in (0, 1) and r < 0.2:
            return bool(re)  # bool <: int
        return rng.choice([int(re), float(re), complex(re, 0)])
    return complex(re, im)


ERRMAP = {
    "RuntimeError": "changedSize",
}


def err_kind(e: Exception) -> str:
    n, msg = type(e).__name__, str(e)
    if n == "ValueError":
        if msg.startswith("No valid Pauli label"):
            return "noLabel"
        if msg.startswith("Invalid Pauli label"):
            return "invalidTerm"
        if msg.startswith("Duplicate qubit index"):
            return "duplicateIndex"
        if "is not a valid SinglePauli" in msg:
            return "badId"
        if msg.startswith("Length of index and pauli unmatch"):
            return "lengthMismatch"
        if "max()" in msg:
            return "emptyMax"
        return "ValueError:" + msg[:40]
    if n == "AssertionError":
        return "assertion"
    if n == "TypeError" and "reduce()" in msg:
        return "emptyReduce"
    if n == "RuntimeError" and "changed size" in msg:
        return "changedSize"
    return "other:" + n


# ---------------------------------------------------------------------------
# label construction routes
# ---------------------------------------------------------------------------
class _Provider:
    def __init__(self, idx, ids):
        self._i, self._p = list(idx), list(ids)

    def get_index_list(self):
        return self._i

    def get_pauli_id_list(self):
        return self._p


SPACES = [" ", " ", " ", "  ", "\t", "\n", " \t ", "\x0b", "\x0c", "\r", "\x1c", "\x1f", "\x85", "\xa0", " ", "　", " "]


def label_string(rng, ps, fancy=True) -> str:
    ps = list(ps)
    rng.shuffle(ps)
    parts = []
    for i, p in ps:
        gap = rng.choice(["", "", "", " ", "  ", "\t"]) if fancy else ""
        idx = ("0" * rng.choice([0, 0, 0, 1, 2]) if fancy else "") + str(i)
        parts.append("XYZ"[p - 1] + gap + idx)
    s = ""
    if fancy:
        s += rng.choice(["", "", " ", "\n"])
    for k, t in enumerate(parts):
        if k:
            s += rng.choice(SPACES) if fancy else " "
        s += t
    if fancy:
        s += rng.choice(["", "", " ", "\t\n"])
    return s


# the first N_RAW_ROUTES routes hand the pair list over unchanged (also used for invalid pair lists);
# the others exist for valid labels only
ROUTES = ["set", "list", "gen", "ctor", "lists", "provider", "enum", "tuples", "of", "str", "strplain", "dictitems", "relabel",
          "pickle", "deepcopy"]
N_RAW_ROUTES = 9


BUILD_FAILURES = []


def build_label(rng, ps, route):
    """a real PauliLabel for the *valid* pair list ps through the named route; a route that raises is
    recorded (it becomes a witness) and the plain constructor is used instead, so that the case goes on"""
    try:
        return build_label_raw(rng, ps, route)
    except Exception as e:  # noqa: BLE001
        if len(BUILD_FAILURES) < 50:
            BUILD_FAILURES.append({"pairs": list(ps), "route": route, "error": f"{type(e).__name__}: {e}"})
        from quri_parts.core.operator import PauliLabel

        return PauliLabel(frozenset(ps))


def build_label_raw(rng, ps, route):
    """build a real PauliLabel for the pair list ps through the named route"""
    from quri_parts.core.operator import PauliLabel, SinglePauli, pauli_label

    ps = list(ps)
    sh = list(ps)
    rng.shuffle(sh)
    if route == "set":
        return pauli_label(set(ps))
    if route == "list":
        return pauli_label(sh)
    if route == "gen":
        return pauli_label(x for x in sh)
    if route == "ctor":
        return PauliLabel(frozenset(sh))
    if route == "lists":
        return PauliLabel.from_index_and_pauli_list([i for i, _ in sh], [p for _, p in sh])
    if route == "provider":
        return pauli_label(_Provider([i for i, _ in sh], [p for _, p in sh]))
    if route == "enum":
        return pauli_label({(i, SinglePauli(p)) for i, p in sh})
    if route == "tuples":  # Collections other than lists
        return PauliLabel.from_index_and_pauli_list(tuple(i for i, _ in sh), tuple(p for _, p in sh))
    if route == "of":  # the static entry point behind pauli_label(provider)
        return PauliLabel.of(_Provider(tuple(i for i, _ in sh), [p for _, p in sh]))
    if route == "dictitems":
        return pauli_label(dict(sh).items())
    if route == "relabel":  # a label handed to the factory / constructor again
        l0 = PauliLabel(frozenset(sh))
        return pauli_label(l0) if rng.random() < 0.5 else PauliLabel(l0)
    if route in ("pickle", "deepcopy"):
        import copy
        import pickle

        l0 = pauli_label(sh)
        return pickle.loads(pickle.dumps(l0)) if route == "pickle" else copy.deepcopy(l0)
    if route == "str":
        if not ps:
            return PauliLabel()
        return pauli_label(label_string(rng, ps, True))
    if route == "strplain":
        if not ps:
            return PauliLabel()
        return PauliLabel.from_str(label_string(rng, ps, False))
    raise AssertionError(route)


def rand_valid_pairs(rng, pool, maxlen=3):
    k = rng.choice([0, 1, 1, 2, 2, 3][: maxlen + 3]) if maxlen >= 3 else rng.randint(0, maxlen)
    k = min(k, len(pool))
    idx = rng.sample(pool, k)
    return [(i, rng.randint(1, 3)) for i in idx]


# ---------------------------------------------------------------------------
# translator
# ---------------------------------------------------------------------------
def gen(ctx: Ctx):
    with ctx.timed("translate"):
        txt, n, info = c05gen.gen()
        ctx.write_generated("C05Tables", txt)
        ctx.generated_entries += n
        return info


# ---------------------------------------------------------------------------
# correspondence: labels
# ---------------------------------------------------------------------------
def corr_labels(ctx: Ctx, reqs, metas):
    rng = ctx.rng
    n = ctx.n(600, 6000)
    for t in range(n):
        kind = rng.random()
        pool = rng.choice([[0, 1, 2, 3], [0, 1, 2, 3], list(range(12)), [0, 5, 9, 10, 11, 99, 100, 1234567]])
        ps = rand_valid_pairs(rng, pool)
        valid = True
        if kind < 0.12 and ps:  # second Pauli on an existing index / exact duplicate pair
            i, p = rng.choice(ps)
            ps.append((i, rng.randint(1, 3)))
            valid = len({i for i, _ in ps}) == len(set(ps))
        elif kind < 0.2:  # invalid id
            ps.append((rng.choice(pool), rng.choice([0, 4, 5, 7])))
            valid = False
        route = rng.choice(ROUTES[:N_RAW_ROUTES])
        ctx.count("label_route", route)
        ctx.count("label_kind", "valid" if valid else "dup-or-badid")
        from quri_parts.core.operator import pauli_label

        try:
            l = build_label_raw(rng, ps, route)
            s = str(l)
            real = f"ok {enc_pairs(canon_label(l))}"
            extra = {"str": s, "label": l}
        except Exception as e:  # noqa: BLE001
            real = "err " + err_kind(e)
            extra = None
        reqs.append(f"c05mk {enc_pairs(ps)}")
        metas.append(("mk", {"pairs": ps, "route": route}, real, extra, valid))
        if rng.random() < 0.3:
            # index / id lists of different length
            idx = [i for i, _ in ps] + ([rng.randint(0, 9)] if rng.random() < 0.5 else [])
            ids = [p for _, p in ps] + ([rng.randint(1, 3)] if rng.random() < 0.5 else [])
            from quri_parts.core.operator import PauliLabel

            try:
                l2 = PauliLabel.from_index_and_pauli_list(idx, ids) if rng.random() < 0.5 else pauli_label(_Provider(idx, ids))
                real2 = f"ok {enc_pairs(canon_label(l2))}"
                extra2 = {"str": str(l2), "label": l2}
            except Exception as e:  # noqa: BLE001
                real2 = "err " + err_kind(e)
                extra2 = None
            reqs.append(f"c05lists {','.join(map(str, idx)) or '-'} {','.join(map(str, ids)) or '-'}")
            v2 = len(idx) == len(ids) and len(set(idx)) == len(set(zip(idx, ids))) and all(1 <= p <= 3 for p in ids)
            metas.append(("lists", {"idx": idx, "ids": ids}, real2, extra2, v2))


ALPHABET = list("XYZXYZXYZ  \t0123456789019") + ["A", "I", "x", "-", "+", "\n", "\x0b", "\x1c", "\xa0", " ", "٣", "０", ".", "_", "​", "\x00"]


def corr_strings(ctx: Ctx, reqs, metas):
    from quri_parts.core.operator import pauli_label

    rng = ctx.rng
    fixed = ["X0 Y1 Z2", "X 0 Y 1 Z 2", "X0 Y1 A2", "X0Y1Z2", "X0 Y1 Z1", "X0 Y Z2", "X0 1 Z2", "", " ", "I", "X", "X0 X0", "X00 X0",
             "X1 Y01", "XY0", "X Y0", "0X", "X0\n", "X0\x0bY1", "X-1", "X+1", "X1_0", "X٣", "X０", "X 0 1", "Z12345678901234567890",
             "X0​Y1", "X0\x00Y1", "X\xa00", "x0", "X0 y1", "Y 0Z 1", "Z  \t 7   X\n3"]
    n = ctx.n(800, 8000)
    strs = list(fixed)
    # exhaustive small scope: every string over a 6-letter alphabet up to length 3 (thorough: 5)
    import itertools

    for ln in range(1, ctx.n(3, 5) + 1):
        for tup in itertools.product("XY 01A", repeat=ln):
            strs.append("".join(tup))
    for _ in range(n):
        r = rng.random()
        if r < 0.3:
            s = "".join(rng.choice(ALPHABET) for _ in range(rng.randint(0, 9)))
        elif r < 0.8:  # well-formed then mutated
            ps = rand_valid_pairs(rng, list(range(12)))
            s = label_string(rng, ps, True) if ps else "I"
            for _ in range(rng.choice([0, 0, 0, 1, 1, 2])):
                if s:
                    k = rng.randrange(len(s))
                    op = rng.random()
                    if op < 0.4:
                        s = s[:k] + s[k + 1:]
                    elif op < 0.8:
                        s = s[:k] + rng.choice(ALPHABET) + s[k:]
                    else:
                        s = s[:k] + rng.choice(ALPHABET) + s[k + 1:]
        else:  # duplicates
            ps = rand_valid_pairs(rng, [0, 1, 2])
            ps = ps + [(i, rng.randint(1, 3)) for i, _ in ps[:1]]
            s = " ".join("XYZ"[p - 1] + str(i) for i, p in ps)
        strs.append(s)
    for s in strs:
        try:
            l = pauli_label(s)
            real = f"ok {enc_pairs(canon_label(l))}"
            extra = {"str": str(l), "label": l}
        except Exception as e:  # noqa: BLE001
            real = "err " + err_kind(e)
            extra = None
        ctx.count("parser_outcome", real.split()[0] if real.startswith("ok") else real)
        reqs.append(f"c05str {enc_chars(s)}")
        metas.append(("str", {"string": s}, real, extra, True))


def check_label_responses(ctx: Ctx, metas, resp):
    """compare construction results; then equality / hash / string laws on the real objects"""
    from quri_parts.core.operator import pauli_label

    by_canon = {}
    for (what, inp, real, extra, valid), r in zip(metas, resp):
        ctx.traces += 1
        ctx.case((what, repr(inp)), nontrivial=real.startswith("ok"),
                 sample={"request": what, "input": repr(inp)[:120], "model": r[:80]} if len(ctx.samples) < 2 else None)
        if r.startswith("err"):
            if real != r:
                ctx.disagree(f"label-{what}", inp, real, r)
            continue
        parts = r.split(" ")
        mlabel, mstr, mvalid = parts[1], parts[2], parts[3]
        if real != f"ok {mlabel}":
            ctx.disagree(f"label-{what}", inp, real, r)
            continue
        if mvalid == "1":
            ms = "".join(chr(int(x)) for x in mstr.split(",")) if mstr != "-" else ""
            if extra["str"] != ms:
                ctx.disagree(f"label-str-{what}", inp, extra["str"], ms)
            # round trip on the real code
            try:
                back = pauli_label(extra["str"])
                if back != extra["label"] or hash(back) != hash(extra["label"]):
                    ctx.witness("str-roundtrip", "pauli_label(str(l)) differs from l", inp, {"str": extra["str"]})
            except Exception as e:  # noqa: BLE001
                if len(extra["label"]) == 0 and extra["str"] == "I":
                    ctx.witness(IDSTR_KEY, 'str(PAULI_IDENTITY) == "I" is rejected by pauli_label / PauliLabel.from_str', inp,
                                {"str": "I", "error": f"{type(e).__name__}: {e}"})
                else:
                    ctx.witness("str-roundtrip", f"pauli_label(str(l)) raises {type(e).__name__}", inp, {"str": extra["str"]})
            by_canon.setdefault(mlabel, []).append((extra["label"], extra["str"], inp))
        if (mvalid == "1") != bool(valid) and what != "str":
            ctx.disagree("label-validity", inp, f"harness expects valid={valid}", r)
    # equal maps <=> equal objects, equal hashes, equal strings; different maps <=> different strings
    groups = list(by_canon.items())
    for key, objs in groups:
        a = objs[0]
        for b in objs[1:]:
            if a[0] != b[0] or hash(a[0]) != hash(b[0]) or a[1] != b[1] or len({a[0], b[0]}) != 1:
                ctx.witness("label-eq", "same Pauli string built two ways is not equal / hash-equal", {"a": a[2], "b": b[2]})
    seen_str = {}
    for key, objs in groups:
        s = objs[0][1]
        if s in seen_str and seen_str[s] != key:
            ctx.witness("label-str-injective", "two different Pauli strings have the same str()", {"a": key, "b": seen_str[s], "str": s})
        seen_str[s] = key
    ctx.count("label_equality_groups", "groups", len(groups))
    ctx.count("label_equality_groups", "multi", sum(1 for _, o in groups if len(o) > 1))


def corr_interning(ctx: Ctx):
    """history dependence of the interning cache: build, drop, rebuild labels through different routes"""
    from quri_parts.core.operator import Operator, PauliLabel, pauli_label

    rng = ctx.rng
    live = []
    n = ctx.n(1000, 10000)
    for t in range(n):
        pool = rng.choice([[0, 1, 2], [0, 1, 2, 3, 10, 11, 100]])
        ps = rand_valid_pairs(rng, pool)
        route = rng.choice(ROUTES)
        try:
            l = build_label_raw(rng, ps, route)
        except Exception as e:  # noqa: BLE001
            ctx.witness("label-construct", f"valid label raises {type(e).__name__}: {e}", {"pairs": ps, "route": route})
            continue
        ctx.traces += 1
        want = tuple(sorted(ps))
        if canon_label(l) != want:
            ctx.witness("label-intern", "construction returned a label with a different Pauli map (interning cache?)",
                        {"pairs": ps, "route": route, "got": canon_label(l)})
        probe = frozenset(ps)
        if l != probe or hash(l) != hash(probe):
            ctx.witness("label-eq", "label is not equal / hash-equal to the frozenset of its pairs", {"pairs": ps, "route": route})
        d = Operator({l: 1.0})
        if PauliLabel(probe) not in d:
            ctx.witness("label-eq", "dict lookup with an equal label fails", {"pairs": ps, "route": route})
        r = rng.random()
        if r < 0.5:
            live.append(l)
        if r > 0.8 and live:
            del live[rng.randrange(len(live))]
        if t % 97 == 0:
            live.clear()
            gc.collect()
        del l, d
    ctx.count("interning", "constructions", n)


# ---------------------------------------------------------------------------
# correspondence: products, bsv
# ---------------------------------------------------------------------------
def corr_products(ctx: Ctx, reqs, metas):
    import itertools

    from quri_parts.core.operator import pauli_product
    from quri_parts.core.operator.representation import pauli_label_to_bsv

    rng = ctx.rng
    # exhaustive small scope: every pair of Pauli strings on 2 (thorough: 3) qubits
    nqx = ctx.n(2, 3)
    allp = [[(i, p) for i, p in enumerate(ids) if p] for ids in itertools.product(range(4), repeat=nqx)]
    phase_exp = {complex(1, 0): 0, complex(0, 1): 1, complex(-1, 0): 2, complex(0, -1): 3}
    for p in allp:
        lp = build_label(rng, p, "set")
        for q in allp:
            lq = build_label(rng, q, "list")
            try:
                r, ph = pauli_product(lp, lq)
                e = phase_exp.get(complex(ph))
                real = f"{enc_pairs(canon_label(r))} {e if e is not None else ph}"
            except Exception as ex:  # noqa: BLE001
                real = "err " + err_kind(ex)
            reqs.append(f"c05prod {enc_pairs(p)} {enc_pairs(q)}")
            metas.append(("prod", {"p": p, "q": q}, real))
    ctx.count("product_exhaustive_qubits", str(nqx), len(allp) ** 2)
    n = ctx.n(800, 10000)
    for _ in range(n):
        pool = rng.choice([[0, 1], [0, 1, 2], [0, 1, 2, 3, 4], [3, 7, 20, 21, 64, 65]])
        p = rand_valid_pairs(rng, pool, 4)
        q = rand_valid_pairs(rng, pool, 4)
        lp, lq = build_label(rng, p, rng.choice(ROUTES)), build_label(rng, q, rng.choice(ROUTES))
        try:
            r, ph = pauli_product(lp, lq)
            z = complex(ph)
            e = {complex(1, 0): 0, complex(0, 1): 1, complex(-1, 0): 2, complex(0, -1): 3}.get(z)
            real = f"{enc_pairs(canon_label(r))} {e if e is not None else ph}"
        except Exception as ex:  # noqa: BLE001
            real = "err " + err_kind(ex)
        ov = len({i for i, _ in p} & {i for i, _ in q})
        ctx.count("product_overlap", str(ov))
        reqs.append(f"c05prod {enc_pairs(p)} {enc_pairs(q)}")
        metas.append(("prod", {"p": p, "q": q}, real))
        if rng.random() < 0.4:
            try:
                b = pauli_label_to_bsv(lp)
                e = {complex(1, 0): 0, complex(0, 1): 1, complex(-1, 0): 2, complex(0, -1): 3}.get(complex(b.phase))
                realb = f"{b.x} {b.z} {e if e is not None else b.phase}"
            except Exception as ex:  # noqa: BLE001
                realb = "err " + err_kind(ex)
            reqs.append(f"c05bsv {enc_pairs(p)}")
            metas.append(("bsv", {"p": p}, realb))


# ---------------------------------------------------------------------------
# correspondence: operator programs
# ---------------------------------------------------------------------------
SCALARS = [(0, 0), (1, 0), (-1, 0), (2, 0), (-2, 0), (3, 0), (0, 1), (0, -1), (0, 2), (1, 1), (2, -1), (-3, 2), (4, 0)]
DIVISORS = [(2, 0), (-2, 0), (0, 2), (0, -2), (0, 1), (0, -1), (-1, 0), (1, 1), (1, -1), (4, 0), (3, 0), (2, 2), (1, 2)]


NEAR_OPPOSITE_INTS = [(10**9 + 1, 0), (-(10**9), 0), (10**9, 0), (-(10**9) - 1, 0), (0, 10**9 + 1), (0, -(10**9)), (2**31 + 1, 0), (-(2**31), 0),
                      (10**9 + 1, 10**9), (-(10**9), -(10**9))]


def rand_coef(rng, allow_zero=True, wide=False):
    """small Gaussian integers; wide=True (operator programs only: the model is exact and products are magnitude-guarded) adds large
    integers that are nearly but not exactly opposite to each other"""
    if wide and rng.random() < 0.12:
        return rng.choice(NEAR_OPPOSITE_INTS)
    r = rng.random()
    if allow_zero and r < 0.08:
        return (0, 0)
    if r < 0.5:
        return (rng.choice([-4, -3, -2, -1, 1, 2, 3, 4, 6, 8]), 0)
    if r < 0.7:
        return (0, rng.choice([-4, -2, -1, 1, 2, 3]))
    return (rng.randint(-6, 6), rng.randint(-6, 6))


def ref_set(r, l, c):
    l = frozenset(l)
    if c == (0, 0):
        r.pop(l, None)
    else:
        r[l] = c


class Program:
    """a random history over a heap of Operator objects, executed on the real code while an exact
    reference (oracle/c05ref.Ref) decides which divisions are exact and keeps magnitudes bounded"""

    def __init__(self, rng, pool, ncmd, alias_rate=0.04):
        self.rng, self.pool, self.ncmd, self.alias_rate = rng, pool, ncmd, alias_rate
        self.cmds = []  # model request fragments
        self.log = []  # human readable real-side choices
        self.heap = []
        self.refs = []
        self.error = None
        self.pure_mismatch = []
        self.features = set()

    def label(self):
        ps = rand_valid_pairs(self.rng, self.pool)
        route = self.rng.choice(ROUTES)
        return ps, build_label(self.rng, ps, route), route

    def known_label(self, i):
        """a label already present in object i (to provoke cancellations) or a fresh one"""
        if self.refs[i] and self.rng.random() < 0.6:
            l = self.rng.choice(sorted(self.refs[i].keys(), key=lambda s: sorted(s)))
            ps = sorted(l)
            return ps, build_label(self.rng, ps, self.rng.choice(ROUTES)), "existing"
        return self.label()

    def new(self):
        from quri_parts.core.operator import Operator

        rng = self.rng
        k = rng.choice([0, 1, 2, 2, 3, 3, 4])
        items, real_items = [], []
        for _ in range(k):
            ps, l, _ = self.label()
            if items and rng.random() < 0.15:
                ps = items[rng.randrange(len(items))][0]
                l = build_label(rng, ps, rng.choice(ROUTES))
            c = rand_coef(rng, wide=True)
            items.append((ps, c))
            real_items.append((l, py_scalar(rng, c)))
        style = rng.random()
        if style < 0.4 or len({tuple(sorted(p)) for p, _ in items}) < len(items):
            op = Operator(real_items)  # pair list: later pairs overwrite
        elif style < 0.7:
            op = Operator(dict(real_items))
        else:
            op = Operator()
            if rng.random() < 0.5:
                try:
                    from quri_parts.core.operator import zero

                    op = zero()
                except ImportError:
                    self.log.append("zero() is missing")
            for l, c in real_items:
                op[l] = c
        if rng.random() < 0.1:
            op = Operator(op)
        r = ref.Ref()
        for ps, c in items:
            ref_set(r, ps, c)
        self.heap.append(op)
        self.refs.append(r)
        self.cmds.append(f"new {enc_items(items)}")

    def step(self):
        from quri_parts.core.operator import commutator

        rng = self.rng
        nv = len(self.heap)
        i = rng.randrange(nv)
        j = rng.randrange(nv)
        kind = rng.choice(["add", "sub", "mul", "mul", "comm", "smul", "div", "herm", "copy", "iadd", "iadd", "isub", "isub",
                           "idiv", "addterm", "addterm", "addterm", "setconst", "setitem", "cancel", "new"])
        big = max(self.refs[i].maxabs(), self.refs[j].maxabs())
        H, R = self.heap, self.refs
        if kind == "new":
            self.new()
            return
        if kind in ("mul", "comm"):
            if big > 2**14 or len(R[i]) * len(R[j]) > 40:
                return
            self.features.add(kind)
            if kind == "mul":
                H.append(H[i] * H[j])
                R.append(R[i].mul(R[j]))
            else:
                H.append(commutator(H[i], H[j]))
                R.append(R[i].mul(R[j]).add(R[j].mul(R[i]), -1))
            self.cmds.append(f"{kind} {i} {j}")
            return
        if kind in ("add", "sub"):
            H.append(H[i] + H[j] if kind == "add" else H[i] - H[j])
            R.append(R[i].add(R[j], 1 if kind == "add" else -1))
            self.cmds.append(f"{kind} {i} {j}")
            self.features.add(kind)
            return
        if kind == "smul":
            k = rng.choice(SCALARS)
            if big > 2**30:
                return
            s = py_scalar(rng, k)
            H.append(H[i] * s if rng.random() < 0.5 else s * H[i])
            R.append(R[i].smul(k))
            self.cmds.append(f"smul {i} {enc_k(k)}")
            self.log.append(f"scalar {s!r}")
            return
        if kind in ("div", "idiv"):
            cands = [d for d in DIVISORS if self._divisible(i, d)]
            if not cands:
                return
            k = rng.choice(cands)
            s = py_scalar(rng, k)
            self.features.add(kind)
            if kind == "div":
                H.append(H[i] / s)
                R.append(R[i].div(k))
            else:
                pure = H[i] / s
                before = H[i]
                H[i] /= s
                self._cmp_pure(pure, H[i], f"idiv {i}", before)
                R[i] = R[i].div(k)
            self.cmds.append(f"{kind} {i} {enc_k(k)}")
            self.log.append(f"divisor {s!r}")
            return
        if kind == "herm":
            H.append(H[i].hermitian_conjugated())
            R.append(R[i].dagger())
            self.cmds.append(f"herm {i}")
            return
        if kind == "copy":
            H.append(H[i].copy())
            R.append(ref.Ref(R[i]))
            self.cmds.append(f"copy {i}")
            return
        if kind in ("iadd", "isub"):
            if i == j and rng.random() > self.alias_rate * 3:
                j = (i + 1) % nv
            if i == j:
                self.features.add("alias-" + kind)
            self.cmds.append(f"{kind} {i} {j}")
            self.features.add(kind)
            pure = (H[i] + H[j]) if kind == "iadd" else (H[i] - H[j])
            newref = R[i].add(R[j], 1 if kind == "iadd" else -1)
            before = H[i]
            if kind == "iadd":
                H[i] += H[j]
            else:
                H[i] -= H[j]
            self._cmp_pure(pure, H[i], f"{kind} {i} {j}", before)
            R[i] = newref
            return
        if kind in ("addterm", "cancel"):
            ps, l, route = self.known_label(i)
            if kind == "cancel" and frozenset(ps) in R[i]:
                c = ref.gneg(R[i][frozenset(ps)])
                self.features.add("cancel")
            else:
                c = rand_coef(rng, wide=True)
            H[i].add_term(l, py_scalar(rng, c))
            R[i] = ref.Ref(R[i])
            R[i].acc(frozenset(ps), c)
            self.cmds.append(f"addterm {i} {enc_pairs(ps)} {enc_k(c)}")
            return
        if kind == "setconst":
            c = rand_coef(rng, wide=True)
            H[i].constant = py_scalar(rng, c)
            R[i] = ref.Ref(R[i])
            ref_set(R[i], [], c)
            self.cmds.append(f"setconst {i} {enc_k(c)}")
            return
        if kind == "setitem":
            ps, l, route = self.known_label(i)
            c = rand_coef(rng, wide=True)
            H[i][l] = py_scalar(rng, c)
            R[i] = ref.Ref(R[i])
            ref_set(R[i], ps, c)
            self.cmds.append(f"setitem {i} {enc_pairs(ps)} {enc_k(c)}")
            return

    def _divisible(self, i, d):
        # the real dict may hold explicit zeros as well – they divide exactly
        return self.refs[i].div(d) is not None

    def _cmp_pure(self, pure, inplace, what, before):
        a = [(canon_label(l), gauss(c)) for l, c in pure.items()]
        b = [(canon_label(l), gauss(c)) for l, c in inplace.items()]
        if a != b:
            self.pure_mismatch.append((what, a, b))
        if inplace is not before:
            # the augmented assignment rebound the name: other references to the object miss the update
            self.pure_mismatch.append((what + " (returns a new object instead of updating in place)", a,
                                       [(canon_label(l), gauss(c)) for l, c in before.items()]))

    def run(self):
        for _ in range(self.rng.choice([1, 2, 2, 3])):
            self.new()
        try:
            for _ in range(self.ncmd):
                self.step()
        except Exception as e:  # noqa: BLE001
            self.error = e
        return self

    def request(self):
        return "c05prog " + " ; ".join(self.cmds)

    def real_result(self):
        if self.error is None:
            return "ok " + dump_heap(self.heap)
        return f"err {err_kind(self.error)} " + dump_heap(self.heap)


def dec_pairs(t: str):
    t = t.strip()
    return [] if t in ("-", "") else [tuple(int(x) for x in e.split(".")) for e in t.split(",")]


def dec_k(t: str):
    a, b = t.split(":")
    return (int(a), int(b))


def dec_items(t: str):
    t = t.strip()
    if t in ("-", ""):
        return []
    out = []
    for e in t.split("&"):
        c, l = e.split("@")
        out.append((dec_pairs(l), dec_k(c)))
    return out


def real_program(text: str) -> str:
    """deterministic interpreter of a `c05prog` request on the real code (corpus / replay)"""
    from quri_parts.core.operator import Operator, commutator, pauli_label

    H = []
    lab = lambda ps: pauli_label(set(ps))  # noqa: E731
    sc = lambda k: complex(*k)  # noqa: E731
    err = None
    try:
        for cmd in [c.strip() for c in text.split(";") if c.strip()]:
            w = cmd.split()
            op = w[0]
            if op == "new":
                H.append(Operator([(lab(ps), sc(c)) for ps, c in dec_items(w[1])]))
            elif op == "copy":
                H.append(H[int(w[1])].copy())
            elif op == "add":
                H.append(H[int(w[1])] + H[int(w[2])])
            elif op == "sub":
                H.append(H[int(w[1])] - H[int(w[2])])
            elif op == "mul":
                H.append(H[int(w[1])] * H[int(w[2])])
            elif op == "comm":
                H.append(commutator(H[int(w[1])], H[int(w[2])]))
            elif op == "smul":
                H.append(H[int(w[1])] * sc(dec_k(w[2])))
            elif op == "div":
                H.append(H[int(w[1])] / sc(dec_k(w[2])))
            elif op == "herm":
                H.append(H[int(w[1])].hermitian_conjugated())
            elif op == "iadd":
                H[int(w[1])] += H[int(w[2])]
            elif op == "isub":
                H[int(w[1])] -= H[int(w[2])]
            elif op == "idiv":
                H[int(w[1])] /= sc(dec_k(w[2]))
            elif op == "addterm":
                H[int(w[1])].add_term(lab(dec_pairs(w[2])), sc(dec_k(w[3])))
            elif op == "setconst":
                H[int(w[1])].constant = sc(dec_k(w[2]))
            elif op == "setitem":
                H[int(w[1])][lab(dec_pairs(w[2]))] = sc(dec_k(w[3]))
            else:
                raise InfraError(f"unknown program command {cmd!r}")
    except InfraError:
        raise
    except Exception as e:  # noqa: BLE001
        err = e
    return ("ok " if err is None else f"err {err_kind(err)} ") + dump_heap(H)


def real_request(req: str):
    """real-code answer to one driver request of the kinds stored in corpus / replay files"""
    from quri_parts.core.operator import PauliLabel, pauli_label, pauli_product

    cmd, _, arg = req.partition(" ")
    try:
        if cmd == "c05prog":
            return real_program(arg)
        if cmd == "c05mk":
            l = PauliLabel(dec_pairs(arg))
            return f"ok {enc_pairs(canon_label(l))}"
        if cmd == "c05str":
            st = "" if arg.strip() == "-" else "".join(chr(int(x)) for x in arg.split(","))
            return f"ok {enc_pairs(canon_label(pauli_label(st)))}"
        if cmd == "c05prod":
            a, b = arg.split()
            r, ph = pauli_product(pauli_label(set(dec_pairs(a))), pauli_label(set(dec_pairs(b))))
            e = {complex(1, 0): 0, complex(0, 1): 1, complex(-1, 0): 2, complex(0, -1): 3}.get(complex(ph))
            return f"{enc_pairs(canon_label(r))} {e if e is not None else ph}"
    except InfraError:
        raise
    except Exception as e:  # noqa: BLE001
        return "err " + err_kind(e)
    return None


def run_requests(ctx: Ctx, reqs, origin: str):
    """corpus / replay: requests are answered by the real code and by the model and compared"""
    reqs = [r for r in reqs if real_request(r) is not None]
    if not reqs:
        return
    resp = ctx.driver(reqs, entry=ENTRY)
    for rq, m in zip(reqs, resp):
        real = real_request(rq)
        ctx.traces += 1
        ctx.case((origin, rq), sample=None)
        mm = m
        if rq.startswith(("c05mk", "c05str")) and m.startswith("ok"):
            mm = " ".join(m.split(" ")[:2])
        if real != mm:
            ctx.disagree(origin, {"request": rq}, real[:600], m[:600])
        print(f"[{origin}] {rq[:100]}\n    real : {real[:200]}\n    model: {m[:200]}") if origin == "replay" else None


def corpus_requests():
    import glob
    import json

    out = []
    for f in sorted(glob.glob(os.path.join(os.path.dirname(os.path.dirname(os.path.abspath(__file__))), "corpus", "C05", "*.json"))):
        with open(f) as fh:
            out += json.load(fh).get("requests", [])
    return out


def replay_requests(path):
    """driver requests that can be rebuilt from a replay file written by Ctx.finish"""
    import json

    with open(path) as fh:
        r = json.load(fh)
    out = []
    for it in r.get("witnesses", []) + r.get("disagreements", []):
        inp = it.get("input") or {}
        if isinstance(inp, dict):
            if "program" in inp:
                out.append(inp["program"])
            elif "request" in inp:
                out.append(inp["request"])
            elif "string" in inp:
                out.append("c05str " + enc_chars(inp["string"]))
            elif "pairs" in inp:
                out.append("c05mk " + enc_pairs([tuple(x) for x in inp["pairs"]]))
            elif "p" in inp and "q" in inp:
                out.append(f"c05prod {enc_pairs([tuple(x) for x in inp['p']])} {enc_pairs([tuple(x) for x in inp['q']])}")
    return out


def unordered(view: str):
    """order-insensitive view of a heap dump"""
    out = []
    for o in view.split(" | "):
        body = o.strip().split(" ")[0]
        out.append(tuple(sorted(body.split("&"))))
    return out


def corr_programs(ctx: Ctx, reqs, metas, mats):
    rng = ctx.rng
    n = ctx.n(900, 20000)
    for t in range(n):
        small = rng.random() < 0.6
        pool = rng.choice([[0, 1], [0, 1, 2]]) if small else rng.choice([[0, 1, 2, 3, 4], [2, 5, 31, 32, 63, 64, 200]])
        pr = Program(rng, pool, rng.randint(2, 9)).run()
        real = pr.real_result()
        reqs.append(pr.request())
        metas.append(("prog", {"program": pr.request(), "real_choices": pr.log}, real))
        for f in pr.features:
            ctx.count("program_features", f)
        ctx.count("program_outcome", "ok" if pr.error is None else err_kind(pr.error))
        for what, a, b in pr.pure_mismatch:
            if pr.error is not None and "alias-isub" in pr.features:
                continue
            ctx.witness("inplace-vs-pure", f"{what}: in-place update leaves a different dict than the pure operation",
                        {"program": pr.request()}, {"pure": str(a)[:300], "inplace": str(b)[:300]})
        if pr.error is not None and err_kind(pr.error) == "changedSize":
            ctx.witness(ISUB_KEY, "`op -= op` raises RuntimeError (dictionary changed size during iteration) and leaves op partially updated",
                        {"program": pr.request()}, {"heap_after": dump_heap(pr.heap)[:300]})
        if pr.error is None and small:
            mats.append(pr)


def corr_matrices(ctx: Ctx, progs, reqs, metas):
    """sparse export / transition amplitudes of the objects the programs ended with"""
    from quri_parts.core.operator import get_sparse_matrix, transition_amp_comp_basis, transition_amp_representation

    rng = ctx.rng
    budget = ctx.n(600, 8000)
    fmts = ["csc", "csr", "coo", "csc", "lil", "dok", "bsr", "dia"]
    for pr in progs:
        if budget <= 0:
            break
        k = rng.randrange(len(pr.heap))
        op = pr.heap[k]
        items = [(canon_label(l), gauss(c)) for l, c in op.items()]
        if any(c is None for _, c in items):
            continue
        need = max([i + 1 for l, _ in items for i, _ in l] + [0])
        for nq in {None, need, rng.choice([need + 1, need, max(need - 1, 0), 0])}:
            budget -= 1
            fmt = rng.choice(fmts)
            try:
                m = get_sparse_matrix(op, nq, fmt) if fmt != "csc" or rng.random() < 0.5 else get_sparse_matrix(op, nq)
                arr = m.toarray()
                dim = arr.shape[0]
                ent = [show_k_real(arr[a][b]) for a in range(dim) for b in range(dim)]
                kq = dim.bit_length() - 1
                real = f"ok {kq} " + ",".join(ent)
            except Exception as e:  # noqa: BLE001
                real = "err " + err_kind(e)
            ctx.count("sparse_outcome", real.split(" ")[0] + ("" if real.startswith("ok") else " " + real.split(" ")[1]))
            reqs.append(f"c05mat {enc_items(items)} {'-' if nq is None else nq}")
            metas.append(("mat", {"op": enc_items(items), "n_qubits": nq, "format": fmt}, real))
        if need <= 3:
            kq = max(need, 1)
            dim = 1 << kq
            try:
                rep = transition_amp_representation(op)
                ent = [show_k_real(transition_amp_comp_basis(rep, a, b)) for a in range(dim) for b in range(dim)]
                real = "ok " + ",".join(ent)
            except Exception as e:  # noqa: BLE001
                real = "err " + err_kind(e)
            reqs.append(f"c05tamp {enc_items(items)} {kq}")
            metas.append(("tamp", {"op": enc_items(items), "k": kq}, real))
            # the specification itself against the real export (when it exists)
            try:
                arr = get_sparse_matrix(op, kq).toarray()
                real = "ok " + ",".join(show_k_real(arr[a][b]) for a in range(dim) for b in range(dim))
                reqs.append(f"c05amp {enc_items(items)} {kq}")
                metas.append(("amp", {"op": enc_items(items), "k": kq}, real))
            except Exception:  # noqa: BLE001
                pass
            budget -= 2
    # single labels
    from quri_parts.core.operator import PAULI_IDENTITY  # noqa: F401

    for _ in range(ctx.n(120, 1500)):
        ps = rand_valid_pairs(rng, [0, 1, 2, 3])
        l = build_label(rng, ps, rng.choice(ROUTES))
        need = max([i + 1 for i, _ in ps] + [0])
        nq = rng.choice([None, need, need + 1, max(need - 1, 0), 0])
        fmt = rng.choice([None, None] + fmts)
        try:
            if fmt is None:
                arr = get_sparse_matrix(l, nq).toarray()
            elif rng.random() < 0.5:
                arr = get_sparse_matrix(l, nq, fmt).toarray()
            else:
                arr = get_sparse_matrix(l, n_qubits=nq, format=fmt).toarray()
            dim = arr.shape[0]
            real = f"ok {dim.bit_length() - 1} " + ",".join(show_k_real(arr[a][b]) for a in range(dim) for b in range(dim))
        except Exception as e:  # noqa: BLE001
            real = "err " + err_kind(e)
        reqs.append(f"c05labmat {enc_pairs(ps)} {'-' if nq is None else nq}")
        metas.append(("labmat", {"pairs": ps, "n_qubits": nq, "format": fmt}, real))


def compare_simple(ctx: Ctx, metas, resp):
    for (what, inp, real), r in zip(metas, resp):
        ctx.traces += 1
        nontrivial = not real.startswith("err") and real not in ("ok -",)
        seen_kinds = {x.get("request") for x in ctx.samples if isinstance(x, dict)}
        ctx.case((what, repr(inp)), nontrivial=nontrivial,
                 sample={"request": what, "input": repr(inp)[:200], "real": real[:120], "model": r[:120]} if what not in seen_kinds else None)
        if real != r:
            if what == "prog" and real.split(" ")[0] == r.split(" ")[0] and unordered(real.split(" ", 1)[1] if " " in real else "") == unordered(
                r.split(" ", 1)[1] if " " in r else ""
            ):
                ctx.disagree("program-dict-order (same terms, different insertion order / constant)", inp, real[:600], r[:600])
            else:
                ctx.disagree(what, inp, real[:600], r[:600])


# ---------------------------------------------------------------------------
# trotter-suzuki: only through the terms it forms
# ---------------------------------------------------------------------------
def check_trotter(ctx: Ctx):
    from quri_parts.core.operator import Operator, trotter_suzuki_decomposition

    rng = ctx.rng
    for _ in range(ctx.n(30, 400)):
        items = {}
        for _ in range(rng.randint(1, 4)):
            ps = rand_valid_pairs(rng, [0, 1, 2])
            items[tuple(sorted(ps))] = rand_coef(rng, False)
        op = Operator({build_label(rng, list(l), rng.choice(ROUTES)): complex(*c) for l, c in items.items()})
        param = rng.choice([1.0, 0.5, -2.0, 0.25])
        try:
            lst = trotter_suzuki_decomposition(op, param, 1)
        except Exception as e:  # noqa: BLE001
            ctx.witness("trotter", f"order-1 decomposition raises {type(e).__name__}", {"op": enc_items([(list(l), c) for l, c in items.items()])})
            continue
        ctx.traces += 1
        acc = {}
        for e in lst:
            acc[canon_label(e.pauli)] = acc.get(canon_label(e.pauli), 0) + e.coefficient
        want = {l: complex(*c) * param for l, c in items.items()}
        if acc != want or [canon_label(e.pauli) for e in lst] != [canon_label(e.pauli) for e in lst][::-1]:
            ctx.witness("trotter", "first-order exponents do not sum to param·coefficient per label or are not palindromic",
                        {"op": enc_items([(list(l), c) for l, c in items.items()]), "param": param})


# ---------------------------------------------------------------------------
# oracle: failing-input search on the REAL code
# ---------------------------------------------------------------------------
def real_items(op):
    out = []
    for l, c in op.items():
        g = gauss(c)
        if g is None:
            return None
        out.append((canon_label(l), g))
    return out


def real_dense(op, nq):
    it = real_items(op)
    if it is None:
        return None
    try:
        return ref.op_matrix(it, nq)
    except Exception as e:  # noqa: BLE001  (a label the real code should never have produced)
        return f"not-an-operator-on-the-register: {type(e).__name__}: {e}"


def rand_real_op(rng, pool, maxterms=4):
    from quri_parts.core.operator import Operator

    op = Operator()
    want = ref.Ref()
    for _ in range(rng.randint(0, maxterms)):
        ps = rand_valid_pairs(rng, pool)
        c = rand_coef(rng)
        op.add_term(build_label(rng, ps, rng.choice(ROUTES)), py_scalar(rng, c))
        want.acc(frozenset(ps), c)
    return op, want


_GRAMMAR = None


def ref_parse(s: str):
    """the documented grammar: terms `[XYZ]\\s*[0-9]+` separated by white space, no index twice"""
    import re

    global _GRAMMAR
    if _GRAMMAR is None:
        _GRAMMAR = re.compile(r"\s*[XYZ]\s*[0-9]+(?:\s+[XYZ]\s*[0-9]+)*\s*")
    if not _GRAMMAR.fullmatch(s):
        return None
    out = {}
    for m in re.finditer(r"([XYZ])\s*([0-9]+)", s):
        i = int(m.group(2))
        if i in out:
            return None
        out[i] = "XYZ".index(m.group(1)) + 1
    return tuple(sorted(out.items()))


def replay_isub_witness(ctx: Ctx):
    from quri_parts.core.operator import Operator, pauli_label

    a = Operator({pauli_label("X0"): 1.0, pauli_label("Y1"): 2.0})
    try:
        a -= a
        if len(a) != 0:
            ctx.witness("isub-self-wrong", "`op -= op` does not give the zero operator", {"op": "1*X0 + 2*Y1"}, {"after": dump_op(a)})
    except RuntimeError as e:
        if "changed size" not in str(e):
            ctx.witness("raises", f"`op -= op` raises RuntimeError: {e}", {"op": "1*X0 + 2*Y1"})
            return
        ctx.witness(ISUB_KEY, "`op -= op` raises RuntimeError (dictionary changed size during iteration) and leaves op partially updated",
                    {"op": "1*X0 + 2*Y1", "statement": "op -= op", "program": "c05prog new 1:0@0.1&2:0@1.2 ; isub 0 0"},
                    {"error": str(e), "after": dump_op(a)})
    ctx.traces += 1


def replay_identity_witness(ctx: Ctx):
    from quri_parts.core.operator import PAULI_IDENTITY, PauliLabel, pauli_label

    s = str(PAULI_IDENTITY)
    try:
        back = pauli_label(s)
        if back != PauliLabel():
            ctx.witness("str-roundtrip", "pauli_label(str(PAULI_IDENTITY)) is not the identity label", {"str": s})
    except ValueError as e:
        ctx.witness(IDSTR_KEY, 'str(PAULI_IDENTITY) == "I" is rejected by pauli_label / PauliLabel.from_str',
                    {"label": "PAULI_IDENTITY", "str": s}, {"error": f"ValueError: {e}"})
    ctx.traces += 1


def validate(ctx: Ctx, budget_s: float):
    from quri_parts.core.operator import (
        commutator,
        get_sparse_matrix,
        pauli_label,
        pauli_product,
        transition_amp_comp_basis,
        transition_amp_representation,
    )

    rng = ctx.rng
    t0 = time.time()
    n_eval = 0
    nq = 3
    pool = [0, 1, 2]
    while time.time() - t0 < budget_s:
        (a, ra), (b, rb) = rand_real_op(rng, pool), rand_real_op(rng, pool)
        A = ref.op_matrix([(tuple(sorted(l)), c) for l, c in ra.items()], nq)
        B = ref.op_matrix([(tuple(sorted(l)), c) for l, c in rb.items()], nq)
        n_eval += 1
        desc = {"a": enc_items([(sorted(l), c) for l, c in ra.items()]), "b": enc_items([(sorted(l), c) for l, c in rb.items()])}
        if real_dense(a, nq) != A or real_dense(b, nq) != B:
            ctx.witness("add-term", "an operator accumulated with add_term does not denote the sum of its terms", desc,
                        {"a": dump_op(a)[:200], "b": dump_op(b)[:200]})
            continue

        clean_inputs = not any(gauss(v) == (0, 0) for v in list(a.values()) + list(b.values()))

        def chk(key, what, got_op, want):
            got = real_dense(got_op, nq)
            if got != want:
                ctx.witness(key, what, desc, {"result": dump_op(got_op)[:300]})
            # "terms whose coefficients cancel exactly disappear": no result of an operation on zero-free operands
            # stores an exact zero coefficient
            # (sums of contributions only: a scalar multiple by 0 is not a cancellation and keeps explicit zero terms)
            if clean_inputs and key.split("-")[0] in ("mul", "add", "sub", "commutator", "iadd", "isub") and any(
                    gauss(v) == (0, 0) for v in got_op.values()):
                ctx.witness("zero-stored", f"{key.split('-')[0]}: the result stores an exact zero coefficient", desc, {"result": dump_op(got_op)[:300]})

        try:
            chk("mul-homomorphism", "matrix of a*b differs from matrix(a) @ matrix(b)", a * b, ref.mat_mul(A, B))
            chk("add-homomorphism", "matrix of a+b differs from matrix(a) + matrix(b)", a + b, ref.mat_add(A, B))
            chk("sub-homomorphism", "matrix of a-b differs from matrix(a) - matrix(b)", a - b, ref.mat_add(A, B, -1))
            chk("commutator", "matrix of commutator(a,b) differs from AB - BA", commutator(a, b),
                ref.mat_add(ref.mat_mul(A, B), ref.mat_mul(B, A), -1))
            k = rng.choice(SCALARS)
            chk("smul-homomorphism", f"matrix of {k}*a differs", py_scalar(rng, k) * a, ref.mat_scale(A, k))
            chk("herm", "matrix of hermitian_conjugated differs from the conjugate transpose", a.hermitian_conjugated(), ref.mat_dagger(A))
            c = a.copy()
            c += b
            chk("iadd", "a += b differs from matrix(a)+matrix(b)", c, ref.mat_add(A, B))
            c = a.copy()
            c -= b
            chk("isub", "a -= b differs", c, ref.mat_add(A, B, -1))
            # constant getter / setter
            ident = {canon_label(l): gauss(v) for l, v in a.items()}.get((), (0, 0))
            if gauss(a.constant) != ident:
                ctx.witness("constant", "op.constant differs from the coefficient of the identity term", desc, {"constant": str(a.constant)})
            c = a.copy()
            kc = rand_coef(rng)
            c.constant = py_scalar(rng, kc)
            eye = ref.op_matrix([((), (1, 0))], nq)
            chk("constant", "setting op.constant does not replace the identity coefficient", c,
                ref.mat_add(ref.mat_add(A, ref.mat_scale(eye, ident), -1), ref.mat_scale(eye, kc)))
            # division by an exact divisor
            dd = [d for d in DIVISORS if all(ref.gdiv_exact(gauss(v), d) is not None for v in a.values())]
            if dd:
                d = rng.choice(dd)
                q = a / py_scalar(rng, d)
                chk("div", f"matrix of a/{d} times {d} differs from matrix(a)", py_scalar(rng, d) * q, A)
                c = a.copy()
                alias = c
                c /= py_scalar(rng, d)
                if c is not alias or real_dense(alias, nq) != real_dense(q, nq):
                    ctx.witness("idiv", "a /= d does not update a in place to a/d", desc, {"d": str(d)})
            # exact cancellation: a + b - b - a has no terms at all
            z = a + b - b - a
            if len(z) != 0:
                ctx.witness("cancel-removes", "a+b-b-a keeps terms", desc, {"result": dump_op(z)[:300]})
            s = a + b
            if any(gauss(v) == (0, 0) for v in s.values()) and not any(gauss(v) == (0, 0) for v in a.values()):
                ctx.witness("zero-stored", "a+b stores an exact zero coefficient", desc, {"result": dump_op(s)[:300]})
            # export
            if len(a):
                arr = get_sparse_matrix(a, nq).toarray()
                got = [[gauss(arr[i][j]) for j in range(8)] for i in range(8)]
                if got != A:
                    ctx.witness("sparse-export", "get_sparse_matrix differs from the tensor-product matrix", desc)
                need = max([i + 1 for l in ra for i, _ in l] + [0])
                if need:
                    arr = get_sparse_matrix(a).toarray()
                    dim = 1 << need
                    got = [[gauss(x) for x in row] for row in arr.tolist()]
                    if arr.shape != (dim, dim) or got != ref.op_matrix([(tuple(sorted(l)), c) for l, c in ra.items()], need):
                        ctx.witness("sparse-export", "get_sparse_matrix(op) (n_qubits inferred) differs from the tensor-product matrix", desc,
                                    {"shape": str(arr.shape), "expected_qubits": need})
                rep = transition_amp_representation(a)
                got = [[gauss(transition_amp_comp_basis(rep, i, j)) for j in range(8)] for i in range(8)]
                if got != A:
                    ctx.witness("transition-amp", "transition_amp_comp_basis differs from <m|O|n>", desc)
            # label product
            p, q = rand_valid_pairs(rng, pool), rand_valid_pairs(rng, pool)
            r, ph = pauli_product(build_label(rng, p, rng.choice(ROUTES)), build_label(rng, q, rng.choice(ROUTES)))
            g = gauss(ph)
            P, Q = ref.op_matrix([(p, (1, 0))], nq), ref.op_matrix([(q, (1, 0))], nq)
            if g is None or ref.op_matrix([(canon_label(r), g)], nq) != ref.mat_mul(P, Q):
                ctx.witness("pauli-product", "phase·matrix(product label) differs from matrix(p) @ matrix(q)", {"p": p, "q": q},
                            {"label": canon_label(r), "phase": str(ph)})
            # parser against the documented grammar (independent regular expression)
            ps = rand_valid_pairs(rng, [0, 1, 2, 3, 12])
            st = label_string(rng, ps, True) if ps else ""
            if rng.random() < 0.3 and ps:
                st += " " + "XYZ"[rng.randint(0, 2)] + str(rng.choice([i for i, _ in ps]))
            for _ in range(rng.choice([0, 0, 1, 2])):
                if st:
                    kk = rng.randrange(len(st))
                    st = st[:kk] + rng.choice(["", rng.choice(ALPHABET)]) + st[kk + rng.choice([0, 1]):]
            want = ref_parse(st)
            try:
                got = canon_label(pauli_label(st))
            except ValueError:
                got = None
            if got != want:
                key = "parser-accepts-malformed" if want is None else ("parser-rejects-wellformed" if got is None else "parser-wrong-label")
                ctx.witness(key, "pauli_label(string) disagrees with the documented grammar", {"string": st, "codepoints": enc_chars(st)},
                            {"real": got, "grammar": want})
            # strings
            l = build_label(rng, p, rng.choice(ROUTES))
            if p and (pauli_label(str(l)) != l or canon_label(pauli_label(str(l))) != tuple(sorted(p))):
                ctx.witness("str-roundtrip", "pauli_label(str(l)) differs from l", {"pairs": p})
        except Exception as e:  # noqa: BLE001
            ctx.witness("raises", f"valid operator arithmetic raises {type(e).__name__}: {e}", desc)
    ctx.evaluations += n_eval
    ctx.extra["oracle_validation"] = {"evaluations": n_eval, "register": nq}
    ctx.search_budget_s = budget_s


# ---------------------------------------------------------------------------
# argument forms, alternative entry points, histories, documented error branches (independent oracle, REAL code only)
# ---------------------------------------------------------------------------
def _desc(r):
    return enc_items([(sorted(l), c) for l, c in r.items()])


def _ref_matrix(r, nq):
    return ref.op_matrix([(tuple(sorted(l)), c) for l, c in r.items()], nq)


def _api(ctx: Ctx, module: str, names):
    """public names of the real code; a missing one is a correspondence difference, not a crash of the check"""
    import importlib

    out = []
    try:
        mod = importlib.import_module(module)
    except Exception as e:  # noqa: BLE001
        ctx.disagree("api", {"module": module}, f"import fails: {type(e).__name__}: {e}", "module exists")
        return None
    for n in names:
        if not hasattr(mod, n):
            ctx.disagree("api", {"module": module, "name": n}, "missing", "public name exists")
            return None
        out.append(getattr(mod, n))
    return out


def _section(ctx: Ctx, name: str, fn):
    """run one group of checks; an exception that escapes the group (a helper renamed, an unexpected return type) is recorded as a
    correspondence difference so that the rest of the check still runs"""
    with ctx.timed("forms_" + name):
        try:
            fn(ctx)
        except InfraError:
            raise
        except Exception as e:  # noqa: BLE001
            import traceback

            ctx.disagree("forms-" + name, {"section": name}, f"{type(e).__name__}: {e}", "the section runs to completion",)
            ctx.notes.append("forms-" + name + ": " + traceback.format_exc()[-600:])


def forms_operands(ctx: Ctx):
    """`op (+|-|*|/) x` for an x that is not an Operator / not a number: rejected with an error and `op` left unchanged, or - should the
    library ever accept the operand - the result must be the matrix operation on what x denotes (scalar s -> s*I, label -> its matrix,
    plain dict -> the operator with these terms)"""
    import operator as pyop

    from quri_parts.core.operator import Operator

    rng = ctx.rng
    nq, pool = 3, [0, 1, 2]
    eye = ref.op_matrix([((), (1, 0))], nq)
    for _ in range(ctx.n(60, 600)):
        (a, ra), (b, rb) = rand_real_op(rng, pool), rand_real_op(rng, pool)
        A, B = _ref_matrix(ra, nq), _ref_matrix(rb, nq)
        ps = rand_valid_pairs(rng, pool)
        lab = build_label(rng, ps, rng.choice(ROUTES))
        L = ref.op_matrix([(tuple(sorted(ps)), (1, 0))], nq)
        k = rng.choice(SCALARS)
        others = [
            ("scalar", py_scalar(rng, k), ref.mat_scale(eye, k)),
            ("label", lab, L),
            ("dict", dict(b), B),
            ("pairlist", list(b.items()), None),
            ("None", None, None),
            ("str", "X0", None),
        ]
        for oname, x, X in others:
            for sym in ["+", "-", "r+", "r-", "+=", "-=", "*", "r*", "/", "r/", "/="]:
                if oname == "scalar" and sym in ("*", "r*", "/", "/="):
                    continue  # genuine scalar operations, judged elsewhere
                if oname in ("str", "pairlist") and sym in ("*", "r*"):
                    continue  # sequence repetition protocol of str / list answers first
                target = a.copy()
                before = dump_op(target)
                inp = {"a": _desc(ra), "operand": oname, "value": repr(x)[:80], "op": sym}
                ctx.count("operand_forms", f"{oname} {sym}")
                ctx.traces += 1
                try:
                    if sym == "+":
                        r = target + x
                    elif sym == "-":
                        r = target - x
                    elif sym == "r+":
                        r = x + target
                    elif sym == "r-":
                        r = x - target
                    elif sym == "+=":
                        r = pyop.iadd(target, x)
                    elif sym == "-=":
                        r = pyop.isub(target, x)
                    elif sym == "*":
                        r = target * x
                    elif sym == "r*":
                        r = x * target
                    elif sym == "/":
                        r = target / x
                    elif sym == "r/":
                        r = x / target
                    else:
                        r = pyop.itruediv(target, x)
                except Exception:  # noqa: BLE001  rejected: the left operand must be untouched
                    if dump_op(target) != before:
                        ctx.witness("rejected-operand-mutates", f"`a {sym} <{oname}>` raises but leaves a changed", inp,
                                    {"before": before, "after": dump_op(target)})
                    continue
                # accepted: judge by denotation
                want = None
                if X is not None:
                    if sym in ("+", "r+", "+="):
                        want = ref.mat_add(A, X)
                    elif sym in ("-", "-="):
                        want = ref.mat_add(A, X, -1)
                    elif sym == "r-":
                        want = ref.mat_add(X, A, -1)
                    elif sym == "*":
                        want = ref.mat_mul(A, X)
                    elif sym == "r*":
                        want = ref.mat_mul(X, A)
                got = real_dense(r, nq) if isinstance(r, Operator) else None
                if want is None or got != want:
                    ctx.witness("operand-form-mishandled", f"`a {sym} <{oname}>` is accepted and the result is not the matrix operation", inp,
                                {"result": (dump_op(r) if isinstance(r, Operator) else repr(r))[:300]})


def forms_errors(ctx: Ctx):
    """documented rejections: anything that is not a string / provider / iterable for pauli_label, anything that is not a label or an
    Operator for the export, an unknown sparse format, a Trotter order below 1"""
    from quri_parts.core.operator import Operator, get_sparse_matrix, pauli_label, trotter_suzuki_decomposition

    rng = ctx.rng
    for bad in [5, None, 1.5, object(), True, 3 + 0j]:
        ctx.traces += 1
        try:
            r = pauli_label(bad)
        except Exception:  # noqa: BLE001
            continue
        ctx.witness("pauli-label-accepts-non-label", "pauli_label(x) returns a label for an x that is no string, provider or iterable",
                    {"x": repr(bad)}, {"result": repr(r)[:100]})
    x0 = pauli_label("X0")
    op = Operator({x0: 2.0, pauli_label("Z1"): 1.0})
    A = ref.op_matrix([(((0, 1),), (2, 0)), (((1, 3),), (1, 0))], 2)
    for bad in [dict(op), frozenset({(0, 1)}), None, "X0", [(x0, 1.0)], 2.0]:
        ctx.traces += 1
        try:
            r = get_sparse_matrix(bad, 2)
        except Exception:  # noqa: BLE001
            continue
        ctx.witness("export-accepts-non-operator", "get_sparse_matrix(x) returns a matrix for an x that is neither a PauliLabel nor an Operator",
                    {"x": repr(bad)[:100]}, {"result": repr(r)[:100]})
    for fmt in ["xyz", "", "CSC", "array", None, 0]:
        for obj, what in [(op, "operator"), (x0, "label")]:
            ctx.traces += 1
            try:
                arr = get_sparse_matrix(obj, 2, fmt).toarray()
            except Exception:  # noqa: BLE001
                continue
            want = A if obj is op else ref.op_matrix([(((0, 1),), (1, 0))], 2)
            got = [[gauss(v) for v in row] for row in arr.tolist()]
            if got != want:
                ctx.witness("export-unknown-format", "get_sparse_matrix with an unsupported format name returns a wrong matrix instead of raising",
                            {"format": repr(fmt), "object": what})
    for order in [0, -1, -7]:
        for o in [op, Operator({x0: 1.0}), Operator()]:
            ctx.traces += 1
            try:
                r = trotter_suzuki_decomposition(o, rng.choice([1.0, 0.5j]), order)
            except Exception:  # noqa: BLE001
                continue
            ctx.witness("trotter-order-not-rejected", "trotter_suzuki_decomposition accepts an order below 1", {"order": order, "terms": len(o)},
                        {"result": repr(r)[:200]})


def forms_accessors(ctx: Ctx):
    """pauli_at / qubit_indices / index_and_pauli_id_list / pauli_name / n_terms agree with the finite map the label (operator) is"""
    from quri_parts.core.operator import Operator, PauliLabel, SinglePauli, pauli_label

    got = _api(ctx, "quri_parts.core.operator.pauli", ["pauli_name"])
    rng = ctx.rng
    if got:
        (pauli_name,) = got
        for p in (1, 2, 3):
            for arg in (p, SinglePauli(p)):
                try:
                    nm = pauli_name(arg)
                except Exception as e:  # noqa: BLE001
                    nm = f"{type(e).__name__}"
                if nm != "XYZ"[p - 1] or str(pauli_label([(7, p)])) != "XYZ"[p - 1] + "7":
                    ctx.witness("pauli-name", "pauli_name(p) is not the letter of the Pauli matrix p", {"p": repr(arg)}, {"got": nm})
    for _ in range(ctx.n(300, 3000)):
        pool = rng.choice([[0, 1, 2, 3], [0, 5, 9, 63, 64, 65, 1234567]])
        ps = rand_valid_pairs(rng, pool)
        route = rng.choice(ROUTES)
        l = build_label(rng, ps, route)
        d = dict(ps)
        inp = {"pairs": ps, "route": route}
        ctx.traces += 1
        ctx.count("accessor_label_size", str(len(ps)))
        try:
            at = {i: l.pauli_at(i) for i in set(pool) | {max(pool) + 1}}
            if any(at[i] != d.get(i) for i in at):
                ctx.witness("pauli-at", "label.pauli_at(i) differs from the Pauli the label carries on qubit i (None where it carries none)",
                            inp, {"pauli_at": {i: (None if v is None else int(v)) for i, v in at.items()}})
            qi = list(l.qubit_indices())
            if sorted(qi) != sorted(d):
                ctx.witness("qubit-indices", "label.qubit_indices() is not the set of qubits the label acts on", inp, {"got": sorted(qi)})
            if ps:
                il, pl = l.index_and_pauli_id_list
                if len(il) != len(pl) or sorted(zip(il, pl)) != sorted(ps):
                    ctx.witness("index-id-lists", "label.index_and_pauli_id_list is not the pair list of the label", inp,
                                {"got": [list(map(int, il)), list(map(int, pl))]})
                back = PauliLabel.from_index_and_pauli_list(il, pl)
                if back != l or hash(back) != hash(l) or str(back) != str(l):
                    ctx.witness("index-id-lists", "from_index_and_pauli_list(*l.index_and_pauli_id_list) differs from l", inp)
        except Exception as e:  # noqa: BLE001
            ctx.witness("raises", f"a label accessor raises {type(e).__name__}: {e}", inp)
        if rng.random() < 0.3:
            op, want = rand_real_op(rng, pool)
            try:
                nt = op.n_terms
            except Exception as e:  # noqa: BLE001
                nt = f"{type(e).__name__}"
            if nt != len(op) or nt != len(list(op.items())):
                ctx.witness("n-terms", "op.n_terms is not the number of stored terms", {"op": _desc(want)}, {"n_terms": nt, "len": len(op)})
    # the identity label has no index / id list form in the unchanged tree (zip(*()) cannot be unpacked); recorded, not judged:
    # the property statement speaks of constructing labels from lists, not of exporting them
    try:
        r = PauliLabel().index_and_pauli_id_list
        ctx.extra["identity_index_id_lists"] = repr(r)[:60]
    except Exception as e:  # noqa: BLE001
        ctx.extra["identity_index_id_lists"] = f"raises {type(e).__name__}: {e}"[:100]


def forms_predicates(ctx: Ctx):
    """is_ops_close / is_hermitian / truncate on exactly representable coefficients: equality and hermiticity of the denoted
    matrices, removal of exactly the terms below the threshold"""
    got = _api(ctx, "quri_parts.core.operator", ["is_ops_close", "is_hermitian", "truncate", "Operator"])
    if not got:
        return
    is_ops_close, is_hermitian, truncate, Operator = got
    rng = ctx.rng
    nq, pool = 3, [0, 1, 2]
    for _ in range(ctx.n(250, 3000)):
        a, ra = rand_real_op(rng, pool)
        # explicit zero entries are legal stored values and denote nothing
        if rng.random() < 0.3:
            ps = rand_valid_pairs(rng, pool)
            if frozenset(ps) not in ra:
                a[build_label(rng, ps, rng.choice(ROUTES))] = py_scalar(rng, (0, 0))
        kind = rng.choice(["same-reordered", "one-coefficient", "extra-term", "missing-term", "random", "herm-made"])
        items = list(ra.items())
        rng.shuffle(items)
        rb = ref.Ref(dict(items))
        if kind == "one-coefficient" and items:
            l, c = rng.choice(items)
            rb[l] = ref.gadd(c, rng.choice([(1, 0), (0, 1), (-1, 0), (0, -1), (1, 1)]))
            if rb[l] == (0, 0):
                del rb[l]
        elif kind == "extra-term":
            rb.acc(frozenset(rand_valid_pairs(rng, pool)), rand_coef(rng, False))
        elif kind == "missing-term" and items:
            del rb[rng.choice(items)[0]]
        elif kind == "random":
            rb = rand_real_op(rng, pool)[1]
        b = Operator()
        order = list(rb.items())
        rng.shuffle(order)
        for l, c in order:
            b[build_label(rng, sorted(l), rng.choice(ROUTES))] = py_scalar(rng, c)
        if rng.random() < 0.3:
            b[build_label(rng, [(0, 1), (1, 1), (2, 1)], "set")] = b.get(build_label(rng, [(0, 1), (1, 1), (2, 1)], "set"), 0)
        if kind == "herm-made":
            a = a + a.hermitian_conjugated() if rng.random() < 0.5 else a * a.hermitian_conjugated()
            ra = ref.Ref.of((canon_label(l), gauss(c)) for l, c in a.items())
        A, B = _ref_matrix(ra, nq), _ref_matrix(rb, nq)
        inp = {"a": dump_op(a)[:200], "b": dump_op(b)[:200], "kind": kind}
        ctx.traces += 1
        ctx.count("predicate_cases", kind)
        try:
            for x, y, X, Y, nm in [(a, b, A, B, "a,b"), (b, a, B, A, "b,a"), (a, a.copy(), A, A, "a,copy")]:
                r = is_ops_close(x, y)
                if bool(r) != (X == Y):
                    ctx.witness("is-ops-close", f"is_ops_close({nm}) = {r} but the denoted matrices are {'equal' if X == Y else 'different'}", inp)
            h = is_hermitian(a)
            if bool(h) != (A == ref.mat_dagger(A)):
                ctx.witness("is-hermitian", f"is_hermitian(a) = {h} but matrix(a) {'equals' if A == ref.mat_dagger(A) else 'differs from'} "
                            "its conjugate transpose", inp)
            # truncate: default threshold removes exactly the stored zeros; an integer threshold t keeps |c| >= t
            t = rng.choice([None, None, 1, 2, 3, 5])
            before = dump_op(a)
            tr = truncate(a) if t is None else (truncate(a, t) if rng.random() < 0.5 else truncate(a, atol=float(t)))
            keep = [(canon_label(l), gauss(c)) for l, c in a.items() if (gauss(c)[0] ** 2 + gauss(c)[1] ** 2) >= (1 if t is None else t * t)]
            gotk = [(canon_label(l), gauss(c)) for l, c in tr.items()]
            if gotk != keep:
                ctx.witness("truncate", f"truncate(a{'' if t is None else ', ' + str(t)}) does not keep exactly the terms with |coefficient| >= threshold "
                            "(in stored order)", inp, {"got": str(gotk)[:300], "want": str(keep)[:300]})
            tr.add_term(build_label(rng, [(0, 3), (1, 3), (2, 3)], "set"), 5)
            tr.constant = 9
            if tr is a or dump_op(a) != before:
                ctx.witness("result-aliases-operand", "truncate(a) shares state with a", inp)
        except Exception as e:  # noqa: BLE001
            ctx.witness("raises", f"is_ops_close / is_hermitian / truncate raises {type(e).__name__}: {e}", inp)


def _split_operator_string(s: str):
    """terms of `str(op)` as documented: `<coefficient>*<label>` joined by ` + `"""
    out = []
    for t in s.split(" + "):
        c, star, l = t.partition("*")
        if not star:
            return None
        out.append((c, l))
    return out


def forms_operator_str(ctx: Ctx):
    """str(op): documented form `0.1j*X0 + 0.2*X1 Y2` - every stored term once, in stored order, coefficient and label readable back"""
    from quri_parts.core.operator import Operator, pauli_label

    rng = ctx.rng
    doc = Operator({pauli_label("X0"): 0.1j})
    doc[pauli_label("X1 Y2")] = 0.2
    if str(doc) != "0.1j*X0 + 0.2*X1 Y2":
        ctx.witness("operator-str", "str(op) differs from the documented example", {"op": "0.1j*X0 + 0.2*X1 Y2"}, {"got": str(doc)})
    for _ in range(ctx.n(150, 2000)):
        pool = rng.choice([[0, 1, 2], [3, 10, 11, 64, 100]])
        op, want = rand_real_op(rng, pool)
        if rng.random() < 0.3:
            op.constant = py_scalar(rng, rand_coef(rng))
        ctx.traces += 1
        inp = {"op": dump_op(op)[:300]}
        try:
            s = str(op)
            terms = _split_operator_string(s) if len(op) else ([] if s == "" else None)
            ok = terms is not None and len(terms) == len(op)
            if ok:
                for (cs, ls), (l, c) in zip(terms, op.items()):
                    back = {"True": 1, "False": 0}[cs] if cs in ("True", "False") else complex(cs)  # bool <: int is a legal coefficient
                    if back != complex(c) or ls != str(l) or (len(l) and pauli_label(ls) != l):
                        ok = False
            if not ok:
                ctx.witness("operator-str", "str(op) is not the stored terms `coefficient*label` joined by ' + ' in stored order", inp, {"str": s[:300]})
        except Exception as e:  # noqa: BLE001
            ctx.witness("operator-str", f"reading str(op) back fails: {type(e).__name__}: {e}", inp)


def forms_commute(ctx: Ctx):
    """bsv_bitwise_commute(bsv(p), bsv(q)) <=> on every qubit the two single-qubit factors commute (2x2 matrices), which implies
    that the operators commute"""
    got = _api(ctx, "quri_parts.core.operator.representation", ["bsv_bitwise_commute", "pauli_label_to_bsv", "BinarySymplecticVector"])
    if not got:
        return
    bsv_bitwise_commute, pauli_label_to_bsv, BSV = got
    from quri_parts.core.operator import Operator, commutator

    comm1 = {(x, y): ref._mm(ref.M1[x], ref.M1[y]) == ref._mm(ref.M1[y], ref.M1[x]) for x in range(4) for y in range(4)}
    rng = ctx.rng
    import itertools

    cases = []
    for ids_p in itertools.product(range(4), repeat=2):
        for ids_q in itertools.product(range(4), repeat=2):
            cases.append(([(i, p) for i, p in enumerate(ids_p) if p], [(i, p) for i, p in enumerate(ids_q) if p]))
    for _ in range(ctx.n(300, 4000)):
        pool = rng.choice([[0, 1, 2], [0, 1, 2, 3, 4], [5, 31, 32, 63, 64, 65, 130]])
        cases.append((rand_valid_pairs(rng, pool, 4), rand_valid_pairs(rng, pool, 4)))
    for p, q in cases:
        dp, dq = dict(p), dict(q)
        want = all(comm1[(dp.get(i, 0), dq.get(i, 0))] for i in set(dp) | set(dq))
        lp, lq = build_label(rng, p, rng.choice(ROUTES)), build_label(rng, q, rng.choice(ROUTES))
        inp = {"p": p, "q": q}
        ctx.traces += 1
        ctx.count("bitwise_commute", str(want))
        try:
            bp, bq = pauli_label_to_bsv(lp), pauli_label_to_bsv(lq)
            if rng.random() < 0.3:  # hand-made vectors (default phase), tuples compare equal to what the converter returns
                bp = BSV(x=sum(1 << i for i, o in p if o in (1, 2)), z=sum(1 << i for i, o in p if o in (2, 3)))
            r1, r2 = bsv_bitwise_commute(bp, bq), bsv_bitwise_commute(bq, bp)
            if bool(r1) != want or bool(r2) != want:
                ctx.witness("bitwise-commute", f"bsv_bitwise_commute = {r1}/{r2} (both argument orders) but the single-qubit factors "
                            f"{'all commute' if want else 'do not all commute'}", inp)
            if want and len(commutator(Operator({lp: 1.0}), Operator({lq: 2.0}))) != 0:
                ctx.witness("commutator", "qubit-wise commuting Pauli strings have a non-zero commutator", inp)
        except Exception as e:  # noqa: BLE001
            ctx.witness("raises", f"bsv_bitwise_commute / pauli_label_to_bsv raises {type(e).__name__}: {e}", inp)


def forms_fresh_results(ctx: Ctx):
    """every pure operation returns a new object: updating the result in place never changes an operand (special operands that invite
    a fast path: empty operators, scalars 0 / 1 / -1, the same object on both sides)"""
    from quri_parts.core.operator import Operator, commutator

    zero = (_api(ctx, "quri_parts.core.operator", ["zero"]) or [Operator])[0]
    rng = ctx.rng
    pool = [0, 1, 2]
    mark = [(0, 3), (1, 3), (2, 3)]
    for _ in range(ctx.n(120, 1500)):
        a, ra = rand_real_op(rng, pool)
        b, rb = rand_real_op(rng, pool)
        r = rng.random()
        if r < 0.25:
            a, ra = zero(), ref.Ref()
        elif r < 0.5:
            b, rb = zero(), ref.Ref()
        elif r < 0.6:
            b, rb = a, ra
        one = rng.choice([1, 1.0, 1 + 0j, True])
        ops = [
            ("a+b", lambda: a + b), ("a-b", lambda: a - b), ("a*b", lambda: a * b), ("commutator(a,b)", lambda: commutator(a, b)),
            ("a*1", lambda: a * one), ("1*a", lambda: one * a), ("a/1", lambda: a / one), ("a*0", lambda: a * 0), ("a*-1", lambda: a * -1),
            ("a.copy()", lambda: a.copy()), ("a.hermitian_conjugated()", lambda: a.hermitian_conjugated()), ("Operator(a)", lambda: Operator(a)),
        ]
        for name, f in ops:
            da, db = dump_op(a), dump_op(b)
            inp = {"a": _desc(ra), "b": "a itself" if b is a else _desc(rb), "operation": name, "scalar one": repr(one)}
            ctx.traces += 1
            try:
                res = f()
                dres = dump_op(res)
                if res is a or res is b:
                    ctx.witness("result-aliases-operand", f"{name} returns one of its operands (the same object)", inp)
                    continue
                res.add_term(build_label(rng, mark, "set"), 5)
                res.constant = 9
                if rng.random() < 0.5:
                    res += res
                if dump_op(a) != da or dump_op(b) != db:
                    ctx.witness("result-aliases-operand", f"updating the result of {name} in place changes an operand", inp,
                                {"a_before": da, "a_after": dump_op(a), "b_before": db, "b_after": dump_op(b)})
                    continue
                # and the other direction: updating an operand afterwards leaves an earlier result alone
                res2 = f()
                d2 = dump_op(res2)
                a.add_term(build_label(rng, mark, "list"), 3)
                b.add_term(build_label(rng, [(0, 2)], "list"), 1j)
                if dump_op(res2) != d2 or d2 != dres:
                    ctx.witness("result-aliases-operand", f"the result of {name} changes when an operand is updated afterwards (or the same call "
                                "gives two different results)", inp, {"first": dres, "second": d2, "second_after": dump_op(res2)})
                a.add_term(build_label(rng, mark, "list"), -3)
                b.add_term(build_label(rng, [(0, 2)], "list"), -1j)
            except Exception as e:  # noqa: BLE001
                ctx.witness("raises", f"{name} raises {type(e).__name__}: {e}", inp)


def forms_histories(ctx: Ctx):
    """exports and representations are functions of the CURRENT content: export, update the operator in place, export again;
    change a returned matrix / representation and export again; the same for label products and bsv"""
    from quri_parts.core.operator import get_sparse_matrix, pauli_product, transition_amp_comp_basis, transition_amp_representation
    from quri_parts.core.operator.representation import pauli_label_to_bsv

    rng = ctx.rng
    nq, pool = 3, [0, 1, 2]
    fmts = ["csc", "csr", "coo", "lil", "dok", "bsr", "dia"]

    def export_ok(op, r, inp, stage):
        want = _ref_matrix(r, nq)
        fmt = rng.choice(fmts)
        if len(op):
            arr = (get_sparse_matrix(op, nq, fmt) if rng.random() < 0.7 else get_sparse_matrix(op, n_qubits=nq)).toarray()
            if [[gauss(v) for v in row] for row in arr.tolist()] != want:
                ctx.witness("sparse-export", f"get_sparse_matrix ({stage}) differs from the tensor-product matrix of the current terms",
                            dict(inp, stage=stage, format=fmt))
        rep = transition_amp_representation(op)
        got = [[gauss(transition_amp_comp_basis(rep, i, j)) for j in range(8)] for i in range(8)]
        if got != want:
            ctx.witness("transition-amp", f"transition amplitudes ({stage}) differ from <m|O|n> of the current terms", dict(inp, stage=stage))
        return rep

    for _ in range(ctx.n(120, 1500)):
        op, r = rand_real_op(rng, pool)
        inp = {"op": _desc(r)}
        ctx.traces += 1
        try:
            rep = export_ok(op, r, inp, "first call")
            m1 = get_sparse_matrix(op, nq) if len(op) else None
            steps = []
            for _ in range(rng.randint(1, 3)):
                k = rng.random()
                ps = sorted(rng.choice(sorted(r.keys(), key=sorted))) if r and rng.random() < 0.5 else rand_valid_pairs(rng, pool)
                c = rand_coef(rng, False)
                r = ref.Ref(r)
                if k < 0.4:
                    op.add_term(build_label(rng, ps, rng.choice(ROUTES)), py_scalar(rng, c))
                    r.acc(frozenset(ps), c)
                    steps.append(f"add_term {enc_pairs(ps)} {enc_k(c)}")
                elif k < 0.6:
                    op[build_label(rng, ps, rng.choice(ROUTES))] = py_scalar(rng, c)
                    ref_set(r, ps, c)
                    steps.append(f"setitem {enc_pairs(ps)} {enc_k(c)}")
                elif k < 0.75:
                    op.constant = py_scalar(rng, c)
                    ref_set(r, [], c)
                    steps.append(f"constant {enc_k(c)}")
                elif k < 0.9:
                    o2, r2 = rand_real_op(rng, pool, 2)
                    if rng.random() < 0.5:
                        op += o2
                        r = r.add(r2)
                    else:
                        op -= o2
                        r = r.add(r2, -1)
                    steps.append(f"+=/-= {_desc(r2)}")
                elif r:
                    l = rng.choice(sorted(r.keys(), key=sorted))
                    del op[build_label(rng, sorted(l), rng.choice(ROUTES))]
                    del r[l]
                    steps.append(f"del {enc_pairs(sorted(l))}")
            inp2 = dict(inp, updates=steps)
            export_ok(op, r, inp2, "after in-place updates")
            # a caller changing what it was handed must not change later answers
            rep.clear() if rng.random() < 0.5 else [v.clear() for v in rep.values()]
            if m1 is not None:
                m1 *= 2
                m1.data[:] = 7
            export_ok(op, r, inp2, "after the caller changed the previously returned matrix / representation")
            # label functions: same arguments, same answers, however often and in whatever order they are asked
            p, q = rand_valid_pairs(rng, pool + [64]), rand_valid_pairs(rng, pool + [64])
            lp, lq = build_label(rng, p, rng.choice(ROUTES)), build_label(rng, q, rng.choice(ROUTES))
            first = (pauli_product(lp, lq), pauli_product(lq, lp), tuple(pauli_label_to_bsv(lp)))
            again = (pauli_product(lp, lq), pauli_product(lq, lp), tuple(pauli_label_to_bsv(lp)))
            if first != again or canon_label(lp) != tuple(sorted(p)) or canon_label(lq) != tuple(sorted(q)):
                ctx.witness("pauli-product", "pauli_product / pauli_label_to_bsv answer differently on the second call or change their arguments",
                            {"p": p, "q": q})
        except Exception as e:  # noqa: BLE001
            ctx.witness("raises", f"export / representation raises {type(e).__name__}: {e}", inp)


def forms_big_register(ctx: Ctx):
    """transition amplitudes and bsv on registers beyond 32 / 64 qubits against the definition of the tensor product"""
    from quri_parts.core.operator import transition_amp_comp_basis, transition_amp_representation
    from quri_parts.core.operator.representation import pauli_label_to_bsv

    rng = ctx.rng
    for _ in range(ctx.n(150, 2000)):
        pool = rng.choice([[0, 30, 31, 32, 33], [0, 31, 32, 62, 63, 64, 65, 127, 128, 200], [63, 64]])
        op, r = rand_real_op(rng, pool, 5)
        if not r:
            continue
        inp = {"op": _desc(r)}
        ctx.traces += 1
        try:
            rep = transition_amp_representation(op)
            for _ in range(4):
                m = 0
                for i in pool + [1, 2, 66]:
                    if rng.random() < 0.5:
                        m |= 1 << i
                l = rng.choice(sorted(r.keys(), key=sorted))
                n = m
                for i, o in l:
                    if o in (1, 2):
                        n ^= 1 << i
                if rng.random() < 0.2:
                    n ^= 1 << rng.choice(pool)
                want = (0, 0)
                for l2, c in r.items():
                    want = ref.gadd(want, ref.gmul(c, ref.label_entry(sorted(l2), m, n)))
                got = gauss(transition_amp_comp_basis(rep, m, n))
                if got != want:
                    ctx.witness("transition-amp", "transition_amp_comp_basis differs from <m|O|n> on a large register", dict(inp, m=m, n=n),
                                {"got": str(got), "want": str(want)})
            l = rng.choice(sorted(r.keys(), key=sorted))
            b = pauli_label_to_bsv(build_label(rng, sorted(l), rng.choice(ROUTES)))
            wx = sum(1 << i for i, o in l if o in (1, 2))
            wz = sum(1 << i for i, o in l if o in (2, 3))
            ny = sum(1 for _, o in l if o == 2)
            if (int(b.x), int(b.z)) != (wx, wz) or gauss(b.phase) != ref.I_UNIT[(3 * ny) % 4]:
                ctx.witness("bsv", "pauli_label_to_bsv: x / z bit masks or the phase (-i)^#Y are wrong", {"pairs": sorted(l)},
                            {"got": [int(b.x), int(b.z), str(b.phase)], "want": [wx, wz, str(ref.I_UNIT[(3 * ny) % 4])]})
        except Exception as e:  # noqa: BLE001
            ctx.witness("raises", f"transition amplitude / bsv raises {type(e).__name__}: {e}", inp)


def forms_trotter(ctx: Ctx):
    """Trotter-Suzuki lists of every order against the documented recursion S_2, S_2k evaluated on matrices (floating point, relative
    tolerance): the product of the listed exponentials must be S_2k(param)"""
    import numpy as np

    from quri_parts.core.operator import Operator, trotter_suzuki_decomposition

    rng = ctx.rng
    nq = 2
    dim = 1 << nq

    def pm(pairs):
        return np.array([[complex(*v) for v in row] for row in ref.op_matrix([(tuple(sorted(pairs)), (1, 0))], nq)])

    def expo(c, P):  # P*P = 1
        return np.cosh(c) * np.eye(dim) + np.sinh(c) * P

    def s2(terms, x):
        m = np.eye(dim, dtype=complex)
        for P, c in terms:
            m = m @ expo(c * x / 2, P)
        for P, c in terms[::-1]:
            m = m @ expo(c * x / 2, P)
        return m

    def s2k(terms, x, k):
        if k == 1:
            return s2(terms, x)
        pk = 1 / (4 - 4 ** (1 / (2 * k - 1)))
        a = s2k(terms, pk * x, k - 1)
        return a @ a @ s2k(terms, (1 - 4 * pk) * x, k - 1) @ a @ a

    for _ in range(ctx.n(200, 2500)):
        items = {}
        for _ in range(rng.choice([0, 1, 1, 2, 2, 3, 3, 4])):
            items[tuple(sorted(rand_valid_pairs(rng, [0, 1])))] = rand_coef(rng, False)
        order_items = list(items.items())
        op = Operator()
        for l, c in order_items:
            op[build_label(rng, list(l), rng.choice(ROUTES))] = py_scalar(rng, c)
        param = rng.choice([0.125, -0.25, 0.1j, 0.0625 + 0.125j, 1, 0.5])
        big = max([abs(complex(*c)) for _, c in order_items] + [1])
        if abs(param) * big > 1.5:
            param = param / 8
        order = rng.choice([1, 1, 2, 2, 3, 4] if len(items) <= 3 else [1, 2, 2, 3])
        inp = {"op": enc_items([(list(l), c) for l, c in order_items]), "param": repr(param), "order": order}
        ctx.traces += 1
        ctx.count("trotter_cases", f"order={order} terms={len(items)}")
        try:
            lst = trotter_suzuki_decomposition(op, param, order)
        except Exception as e:  # noqa: BLE001
            ctx.witness("trotter", f"decomposition raises {type(e).__name__}: {e}", inp)
            continue
        try:
            terms = [(pm(l), complex(*c)) for l, c in order_items]
            want = s2k(terms, complex(param), order) if terms else np.eye(dim, dtype=complex)
            got = np.eye(dim, dtype=complex)
            known = {l for l, _ in order_items}
            for e in lst:
                if canon_label(e.pauli) not in known:
                    raise ValueError(f"exponent of a Pauli string that is not a term of the operator: {e.pauli}")
                got = got @ expo(complex(e.coefficient), pm(canon_label(e.pauli)))
            scale = max(1.0, float(np.abs(want).max()), float(np.abs(got).max()))
            if not np.allclose(got, want, rtol=0, atol=1e-9 * scale):
                ctx.witness("trotter", "the product of the listed exponentials differs from the documented S_2k(param)", inp,
                            {"max_abs_difference": float(np.abs(got - want).max()), "n_exponentials": len(lst)})
        except Exception as e:  # noqa: BLE001
            ctx.witness("trotter", f"the returned list cannot be evaluated: {type(e).__name__}: {e}", inp)


# ---------------------------------------------------------------------------
# exactness over the whole range of exactly representable coefficients: nearly (but not exactly) opposite coefficients,
# very small and very large magnitudes.  Oracle: Fractions; a case is judged only when every intermediate value of the
# documented computation is itself a binary floating point number, so that `==` is the right comparison.
# ---------------------------------------------------------------------------
class _Inexact(Exception):
    pass


def _frep(q):
    try:
        from fractions import Fraction

        return Fraction(float(q)) == q
    except OverflowError:
        return False


def _fx(q):
    if not _frep(q):
        raise _Inexact()
    return q


def _fadd(a, b):
    return (_fx(a[0] + b[0]), _fx(a[1] + b[1]))


def _fmul(a, b):
    return (_fx(_fx(a[0] * b[0]) - _fx(a[1] * b[1])), _fx(_fx(a[0] * b[1]) + _fx(a[1] * b[0])))


def _fneg(a):
    return (-a[0], -a[1])


def _fz(a):
    return a[0] == 0 and a[1] == 0


class FOp(dict):
    """exact operator {frozenset(pairs): (Fraction, Fraction)}; arithmetic raises _Inexact when binary floating point would round"""

    def acc(self, l, c):
        if _fz(c):
            return
        v = _fadd(self.get(l, (0, 0)), c)
        if _fz(v):
            self.pop(l, None)
        else:
            self[l] = v

    def plus(self, o, sign=1):
        r = FOp(self)
        for l, c in o.items():
            r.acc(l, c if sign == 1 else _fneg(c))
        return r

    def times(self, o):
        from fractions import Fraction

        r = FOp()
        for p, c in self.items():
            for q, d in o.items():
                l, e = ref.label_mul(p, q)
                u = ref.I_UNIT[e]
                r.acc(l, _fmul(_fmul(c, d), (Fraction(u[0]), Fraction(u[1]))))
        return r

    def scaled(self, k):
        r = FOp()
        for l, c in self.items():
            r[l] = _fmul(c, k)
        return r


def _f_scalar(rng, c):
    """a Python number equal to the exact value c = (Fraction, Fraction)"""
    re, im = c
    if im == 0:
        if re.denominator == 1 and abs(re) < 2**53 and rng.random() < 0.5:
            return int(re)
        return float(re) if rng.random() < 0.7 else complex(float(re), 0.0)
    return complex(float(re), float(im))


def _f_of(c):
    """exact value of a stored coefficient, None when it is not a finite number"""
    from fractions import Fraction

    try:
        if isinstance(c, int):
            return (Fraction(int(c)), Fraction(0))
        z = complex(c)
        return (Fraction(z.real), Fraction(z.imag))
    except (ValueError, OverflowError, TypeError):
        return None


def _f_show(c):
    def one(q):
        if q == 0:
            return "0"
        f = float(q)
        return repr(int(q)) if q.denominator == 1 and abs(q) < 10**18 else f.hex()
    return one(c[0]) if c[1] == 0 else f"({one(c[0])}, {one(c[1])}j)"


def _f_desc(o):
    return " + ".join(f"{_f_show(c)}*[{enc_pairs(sorted(l))}]" for l, c in o.items()) or "0"


def near_opposite_pair(rng):
    """(family, c, d): exactly representable coefficients whose exact sum is zero, tiny relative to them, tiny in absolute terms, or ordinary"""
    from fractions import Fraction as F

    while True:
        fam = rng.choice(["int", "int", "dyadic", "dyadic", "complex", "exact", "tiny", "tiny-vs-big", "ordinary"])
        if fam == "int":
            n = rng.choice([10**9, 10**9, 2**31, 2**32, 10**12, 2**40, 10**15, 2**52])
            c, d = (F(n + rng.choice([1, 1, 2, -1, 3])), F(0)), (F(-n), F(0))
        elif fam == "dyadic":
            k = rng.choice([20, 28, 30, 31, 31, 32, 35, 40, 48, 52])
            m = F(rng.choice([1, 1, 1, 3, 5])) * F(2) ** rng.choice([0, 0, 0, -1, 1, -20, 20, -200, 300])
            c, d = (m * (1 + F(1, 2**k)), F(0)), (-m, F(0))
            if rng.random() < 0.3:  # the same relation on the imaginary axis
                c, d = (F(0), c[0]), (F(0), d[0])
        elif fam == "complex":
            k = rng.choice([24, 28, 31, 36, 44])
            e = F(1, 2**k)
            base = rng.choice([(3, 4), (1, 1), (-2, 5), (8, -6)])
            bump = rng.choice([(e, 0), (0, e), (e, e), (-e, 2 * e)])
            c, d = (F(base[0]) + bump[0], F(base[1]) + bump[1]), (F(-base[0]), F(-base[1]))
        elif fam == "exact":
            _, c, _ = near_opposite_pair(rng)
            d = _fneg(c)
        elif fam == "tiny":
            j = rng.choice([30, 40, 60, 100, 200, 500, 1000, 1022, 1070, 1074])
            t = F(1, 2**j)
            c, d = (t * rng.choice([1, 1, 3, -1]), F(0)), (t * rng.choice([1, -3, 2]) / rng.choice([1, 1, 2] if j < 1074 else [1]), F(0))
        elif fam == "tiny-vs-big":  # the sum is representable: few significant bits on both sides
            j = rng.choice([20, 30, 40, 50])
            c, d = (F(rng.choice([1, 2, -4])), F(0)), (F(rng.choice([1, -1]), 2**j), F(0))
        else:
            c, d = tuple(map(F, rand_coef(rng, False))), tuple(map(F, rand_coef(rng, False)))
        if rng.random() < 0.5:
            c, d = _fneg(c), _fneg(d)
        if rng.random() < 0.5:
            c, d = d, c
        if all(_frep(x) for x in c + d) and not _fz(c) and not _fz(d):
            return fam, c, d


def forms_exact_range(ctx: Ctx):
    """sums / differences / in-place histories / products / commutators / scalar multiples and both exports on coefficients whose exact
    sum is zero, nearly zero or far from zero: the stored result must be EXACTLY the sum (a term whose coefficients do not cancel exactly
    stays, with the exact residual; a term whose coefficients cancel exactly disappears)"""
    from fractions import Fraction as F

    from quri_parts.core.operator import Operator, commutator, get_sparse_matrix, transition_amp_comp_basis, transition_amp_representation

    rng = ctx.rng
    pool, nq = [0, 1, 2], 3

    def real_of(fo, shuffle=True):
        op = Operator()
        items = list(fo.items())
        if shuffle:
            rng.shuffle(items)
        for l, c in items:
            op[build_label(rng, sorted(l), rng.choice(ROUTES))] = _f_scalar(rng, c)
        return op

    def judge(route, got_op, want, inp):
        got = {}
        for l, c in got_op.items():
            got[frozenset(canon_label(l))] = _f_of(c)
        if got != dict(want):
            lost = [l for l in want if l not in got]
            kept = [l for l in got if l not in want]
            what = ("loses a term whose coefficients do not cancel exactly" if lost else
                    "keeps a term whose coefficients cancel exactly" if kept else "stores a coefficient that is not the exact sum")
            ctx.witness("sum-not-exact", f"{route}: the result {what} (every intermediate value is exactly representable)", dict(inp, route=route),
                        {"result": " + ".join(f"{'?' if c is None else _f_show(c)}*[{enc_pairs(sorted(l))}]" for l, c in got.items()) or "0",
                         "exact": _f_desc(want)})
            return False
        return True

    def exports(route, op, want, inp):
        """the exports of an exactly known operator: entries whose contributions sum exactly in any order"""
        if not want or rng.random() < 0.8:
            return
        try:
            rep = transition_amp_representation(op)
            arr = get_sparse_matrix(op, nq).toarray() if len(op) else None
        except Exception as e:  # noqa: BLE001
            ctx.witness("raises", f"export raises {type(e).__name__}: {e}", dict(inp, route=route))
            return
        import itertools

        for m in range(8):
            for n in range(8):
                contrib = []
                for l, c in want.items():
                    e = ref.label_entry(sorted(l), m, n)
                    if e != (0, 0):
                        contrib.append(_fmul(c, (F(e[0]), F(e[1]))))
                try:
                    for k in range(2, len(contrib) + 1):
                        for sub in itertools.combinations(contrib, k):
                            t = (F(0), F(0))
                            for x in sub:
                                t = _fadd(t, x)
                except _Inexact:
                    continue
                tot = (sum((x[0] for x in contrib), F(0)), sum((x[1] for x in contrib), F(0)))
                g1 = _f_of(transition_amp_comp_basis(rep, m, n))
                g2 = _f_of(arr[m][n]) if arr is not None else tot
                if g1 != tot or g2 != tot:
                    ctx.witness("export-not-exact", f"{'transition amplitude' if g1 != tot else 'sparse export'} <{m}|O|{n}> differs from the exact entry",
                                dict(inp, route=route, m=m, n=n), {"operator": _f_desc(want), "exact": _f_show(tot),
                                                                   "got": _f_show(g1 if g1 != tot else g2) if (g1 if g1 != tot else g2) else "nan"})
                    return

    for _ in range(ctx.n(250, 4000)):
        fam, c, d = near_opposite_pair(rng)
        lab = frozenset(rand_valid_pairs(rng, pool))
        fill = FOp()
        for _ in range(rng.choice([0, 1, 2])):
            l2 = frozenset(rand_valid_pairs(rng, pool))
            if l2 != lab:
                fill[l2] = tuple(map(F, rand_coef(rng, False)))
        fa, fb = FOp(fill), FOp()
        fa[lab] = c
        fb[lab] = d
        if rng.random() < 0.5:
            _, c2, d2 = near_opposite_pair(rng)
            l2 = frozenset(rand_valid_pairs(rng, pool))
            if l2 != lab:
                fa[l2], fb[l2] = c2, d2
        inp = {"family": fam, "a": _f_desc(fa), "b": _f_desc(fb)}
        ctx.traces += 1
        ctx.count("exact_range_family", fam)
        routes = []
        # accumulation routes
        routes.append(("a.add_term(label, d)", lambda: fa.plus(FOp({lab: d})), lambda a, b: (a.add_term(build_label(rng, sorted(lab), rng.choice(ROUTES)), _f_scalar(rng, d)), a)[1]))
        routes.append(("a + b", lambda: fa.plus(fb), lambda a, b: a + b))
        routes.append(("b + a", lambda: fb.plus(fa), lambda a, b: b + a))
        routes.append(("a - (-b)", lambda: fa.plus(fb), None))
        routes.append(("a += b", lambda: fa.plus(fb), lambda a, b: a.__iadd__(b)))
        routes.append(("a -= (-b)", lambda: fa.plus(fb), None))
        routes.append(("a += b/2 ; a += b/2", lambda: fa.plus(fb.scaled((F(1, 2), F(0)))).plus(fb.scaled((F(1, 2), F(0)))), None))
        routes.append(("(a + b) + b - b", lambda: fa.plus(fb).plus(fb).plus(fb, -1), lambda a, b: (a + b) + b - b))
        routes.append(("(a + b) * 2^k", None, None))
        routes.append(("(P+Q) * (cP + dQ)", None, None))
        routes.append(("commutator", None, None))
        for name, exact, run_real in routes:
            a, b = real_of(fa), real_of(fb)
            ctx.count("exact_range_route", name)
            try:
                if name == "a - (-b)":
                    nb = real_of(fb.scaled((F(-1), F(0))))
                    want, got = exact(), a - nb
                elif name == "a -= (-b)":
                    nb = real_of(fb.scaled((F(-1), F(0))))
                    want = exact()
                    a -= nb
                    got = a
                elif name == "a += b/2 ; a += b/2":
                    hb = fb.scaled((F(1, 2), F(0)))
                    want = exact()
                    a += real_of(hb)
                    a += real_of(hb)
                    got = a
                elif name == "(a + b) * 2^k":
                    k = (F(2) ** rng.choice([-40, -3, -1, 1, 10, 60]) * rng.choice([1, -1]), F(0))
                    want = fa.plus(fb).scaled(k)
                    ks = _f_scalar(rng, k)
                    got = rng.choice([lambda: (a + b) * ks, lambda: ks * (a + b), lambda: (a + b) / _f_scalar(rng, (1 / k[0], F(0)))])()
                elif name == "(P+Q) * (cP + dQ)":
                    P = frozenset(rand_valid_pairs(rng, pool))
                    Q = frozenset(rand_valid_pairs(rng, pool))
                    if P == Q:
                        continue
                    u = rng.choice([(F(1), F(0)), (F(-1), F(0)), (F(2), F(0)), (F(1, 2), F(0)), (F(0), F(1))])
                    f1, f2 = FOp({P: u, Q: u}), FOp({P: c, Q: d})
                    if rng.random() < 0.5:
                        f1, f2 = f2, f1
                    inp = dict(inp, a=_f_desc(f1), b=_f_desc(f2))
                    want = f1.times(f2)
                    got = real_of(f1, False) * real_of(f2, False)
                elif name == "commutator":
                    P = frozenset(rand_valid_pairs(rng, pool))
                    Q = frozenset(rand_valid_pairs(rng, pool))
                    R = frozenset(rand_valid_pairs(rng, pool))
                    f1, f2 = FOp({P: c}), FOp({Q: (F(1), F(0))})
                    f1.acc(R, d)
                    f2.acc(frozenset(ref.label_mul(ref.label_mul(R, P)[0], Q)[0]), (F(1), F(0)))  # R*S lands on the label of P*Q
                    inp = dict(inp, a=_f_desc(f1), b=_f_desc(f2))
                    want = f1.times(f2).plus(f2.times(f1), -1)
                    got = commutator(real_of(f1, False), real_of(f2, False))
                else:
                    want = exact()
                    got = run_real(a, b)
            except _Inexact:
                ctx.count("exact_range_route", name + " (rounds: not judged)")
                continue
            except Exception as e:  # noqa: BLE001
                ctx.witness("raises", f"{name} raises {type(e).__name__}: {e}", inp)
                continue
            if judge(name, got, want, inp):
                try:
                    exports(name, got, want, inp)
                except _Inexact:
                    pass


# ---------------------------------------------------------------------------
# operations that involve NO arithmetic rounding by definition (assignment through the constant setter / item assignment, construction,
# copy, conjugation, negation, multiplication by 1 / -1 / powers of two, accumulation onto an absent label, sums with the empty
# operator) are judged BIT FOR BIT on arbitrary binary floating point values: non-dyadic (0.1, 1/3, pi), of very different magnitudes
# (1e16 next to 0.5, 1e-300), complex, and in histories where the slot that is written already holds a different non-zero value.
# ---------------------------------------------------------------------------
GENERIC_REALS = [0.1, 0.3, 0.7, 1 / 3, 2 / 3, 0.5, 1.0, 3.141592653589793, 1e16, 1e15 + 0.3, 1e-16, 1e300, 1e-300, 5e-324, 123456789.12345679,
                 0.09999999999999998, 0.30000000000000004, 2.0**53, 1e9 + 0.1, 7, 10**9 + 1]


def generic_real(rng, allow_zero=False):
    r = rng.random()
    if allow_zero and r < 0.08:
        return rng.choice([0, 0.0])
    if r < 0.5:
        v = rng.choice(GENERIC_REALS)
    elif r < 0.8:
        v = rng.uniform(-2, 2)
    else:
        v = rng.random() * 10.0 ** rng.randint(-20, 20)
    return -v if rng.random() < 0.4 else v


def generic_coef(rng, allow_zero=False):
    """an arbitrary finite Python number (int, float, complex); no rounding-free structure is assumed"""
    r = rng.random()
    if r < 0.5:
        return generic_real(rng, allow_zero)
    if r < 0.6:
        return complex(0.0, generic_real(rng))
    return complex(generic_real(rng), generic_real(rng))


def _same_number(a, b) -> bool:
    """bit-for-bit equality of two finite numbers (as complex values; the sign of a zero is not part of the property)"""
    try:
        za, zb = complex(a), complex(b)
    except Exception:  # noqa: BLE001
        return False
    return za.real == zb.real and za.imag == zb.imag


def _hexnum(c) -> str:
    try:
        z = complex(c)
        return f"{z.real.hex()}" + (f" {z.imag.hex()}j" if z.imag != 0 else "") + f" ({c!r})"
    except Exception:  # noqa: BLE001
        return repr(c)


def _snapshot(op):
    return [(canon_label(l), v) for l, v in op.items()]


def _show_snapshot(sn) -> str:
    return " + ".join(f"{v!r}*[{enc_pairs(l)}]" for l, v in sn) or "0"


def generic_real_op(rng, pool, with_constant=None, maxterms=3):
    from quri_parts.core.operator import Operator

    op = Operator()
    for _ in range(rng.randint(0, maxterms)):
        op[build_label(rng, rand_valid_pairs(rng, pool), rng.choice(ROUTES))] = generic_coef(rng)
    if with_constant is not None:
        op[build_label(rng, [], rng.choice(["set", "ctor", "list"]))] = with_constant
    return op


def forms_bit_exact(ctx: Ctx):
    from quri_parts.core.operator import PAULI_IDENTITY, Operator, get_sparse_matrix, transition_amp_comp_basis, transition_amp_representation

    zero = (_api(ctx, "quri_parts.core.operator", ["zero"]) or [Operator])[0]
    rng = ctx.rng
    pool = [0, 1, 2]

    def diff_others(before, op, skip):
        """entries other than `skip` that are not bit-for-bit what they were"""
        now = dict(_snapshot(op))
        bad = []
        for l, v in before:
            if l == skip:
                continue
            if l not in now or not _same_number(now[l], v):
                bad.append((l, v, now.get(l)))
        for l in now:
            if l != skip and l not in dict(before):
                bad.append((l, None, now[l]))
        return bad

    # ---- (1) assignment histories: the constant setter and item assignment over an existing, different value
    for _ in range(ctx.n(400, 5000)):
        c0 = generic_coef(rng) if rng.random() < 0.85 else None  # None: no identity term yet
        op = generic_real_op(rng, pool, c0)
        hist = [f"op = {_show_snapshot(_snapshot(op))}"]
        alias = op
        rebinding = False
        try:
            for _ in range(rng.choice([0, 0, 1, 2, 3])):
                k = rng.choice(["+=", "-=", "*=", "/=", "add_term"])
                if k in ("+=", "-="):
                    o2 = generic_real_op(rng, pool, generic_coef(rng) if rng.random() < 0.7 else None, 2)
                    hist.append(f"op {k} {_show_snapshot(_snapshot(o2))}")
                    if k == "+=":
                        op += o2
                    else:
                        op -= o2
                elif k == "*=":
                    sc = rng.choice([2, 0.5, -1, 3, 0.1, 1j, 1e8])
                    hist.append(f"op *= {sc!r}")
                    op *= sc  # no __imul__: rebinds the name (plain Python semantics)
                    rebinding = True
                elif k == "/=":
                    sc = rng.choice([2, 0.5, -1, 3, 10, 1j, 1e-8, 7.0])
                    hist.append(f"op /= {sc!r}")
                    op /= sc
                else:
                    cc = generic_coef(rng)
                    hist.append(f"op.add_term(I, {cc!r})")
                    op.add_term(PAULI_IDENTITY, cc)
            import cmath

            if not all(cmath.isfinite(complex(v0)) for _, v0 in _snapshot(op)):
                ctx.count("bit_exact_assign", "history overflowed: not judged")
                continue
            obj = op
            n_sets = rng.choice([1, 1, 2, 3])
            for si in range(n_sets):
                use_item = rng.random() < 0.3
                if use_item:
                    keys = sorted({l for l, _ in _snapshot(op)} | {()})
                    tgt = rng.choice(keys) if rng.random() < 0.7 else tuple(sorted(rand_valid_pairs(rng, pool)))
                else:
                    tgt = ()
                v = generic_coef(rng, allow_zero=True)
                if rng.random() < 0.15 and dict(_snapshot(op)).get(tgt) is not None:
                    # a value next to the stored one, and one dwarfed by it
                    old = complex(dict(_snapshot(op))[tgt])
                    v = rng.choice([old.real * 1e-17 if old.imag == 0 else old * 1e-17, old * (1 + 2.0**-30), 0.5, 0.1])
                before = _snapshot(op)
                old_v = dict(before).get(tgt)
                stmt = f"op.constant = {v!r}" if not use_item else f"op[{enc_pairs(tgt)}] = {v!r}"
                hist.append(stmt)
                if use_item:
                    op[build_label(rng, list(tgt), rng.choice(ROUTES))] = v
                else:
                    op.constant = v
                ctx.traces += 1
                ctx.count("bit_exact_assign", ("constant" if not use_item else "item") + (" over-existing" if old_v is not None and complex(old_v) != 0
                                                                                           else " fresh"))
                inp = {"history": list(hist), "statement": stmt, "stored_before": None if old_v is None else _hexnum(old_v)}
                now = dict(_snapshot(op))
                zero_v = complex(v) == 0
                stored = now.get(tgt)
                ok = (stored is not None and _same_number(stored, v)) or (zero_v and stored is None)
                if not ok:
                    ctx.witness("assignment-not-exact", f"after `{stmt}` the stored coefficient is not the value assigned, bit for bit "
                                "(an assignment involves no arithmetic)", inp,
                                {"assigned": _hexnum(v), "stored": "term absent" if stored is None else _hexnum(stored)})
                    break
                if tgt == ():
                    try:
                        rb = op.constant
                    except Exception as e:  # noqa: BLE001
                        rb = f"{type(e).__name__}"
                    if not _same_number(rb, v):
                        ctx.witness("assignment-not-exact", f"after `{stmt}` op.constant reads back a different value", inp,
                                    {"assigned": _hexnum(v), "read": _hexnum(rb)})
                        break
                bad = diff_others(before, op, tgt)
                if bad or op is not obj:
                    ctx.witness("assignment-not-exact", f"`{stmt}` changes another term (or replaces the object)", inp, {"changed": str(bad)[:300]})
                    break
                # the export sees the assigned constant exactly when no other diagonal term contributes
                if tgt == () and not zero_v and rng.random() < 0.3 and not any(l != () and all(o == 3 for _, o in l) for l in now):
                    arr = get_sparse_matrix(op, 3).toarray()
                    rep = transition_amp_representation(op)
                    m = rng.randrange(8)
                    if not _same_number(arr[m][m], v) or not _same_number(transition_amp_comp_basis(rep, m, m), v):
                        ctx.witness("assignment-not-exact", f"after `{stmt}` the exported diagonal entry <{m}|O|{m}> is not the constant", inp,
                                    {"assigned": _hexnum(v), "sparse": _hexnum(arr[m][m]), "amplitude": _hexnum(transition_amp_comp_basis(rep, m, m))})
                        break
            if not rebinding and op is not alias:
                ctx.witness("assignment-not-exact", "an in-place update replaced the object", {"history": hist})
        except Exception as e:  # noqa: BLE001
            ctx.witness("raises", f"in-place history raises {type(e).__name__}: {e}", {"history": hist})

    # ---- (2) rounding-free operations on arbitrary values
    def same_map(got, want):
        g = dict(_snapshot(got))
        return set(g) == set(want) and all(_same_number(g[l], want[l]) for l in want)

    for _ in range(ctx.n(300, 4000)):
        a = generic_real_op(rng, pool, generic_coef(rng) if rng.random() < 0.6 else None)
        sa = _snapshot(a)
        da = dict(sa)
        fresh = tuple(sorted(rand_valid_pairs(rng, [3, 4])) or [(3, 1)])
        cf = generic_coef(rng)
        k2 = rng.choice([-3, -1, 1, 2, 10, 40])
        # disjoint operand: labels on qubits 3, 4 only (never the identity)
        b = Operator()
        for _ in range(rng.randint(0, 2)):
            b[build_label(rng, sorted(rand_valid_pairs(rng, [3, 4])) or [(4, 2)], rng.choice(ROUTES))] = generic_coef(rng)
        db = dict(_snapshot(b))
        neg = lambda d: {l: -complex(v) for l, v in d.items()}  # noqa: E731  (negation is exact)
        cases = [
            ("a.copy()", lambda: a.copy(), da), ("Operator(a)", lambda: Operator(a), da), ("Operator(dict(a))", lambda: Operator(dict(a)), da),
            ("Operator(list(a.items()))", lambda: Operator(list(a.items())), da),
            ("a.hermitian_conjugated()", lambda: a.hermitian_conjugated(), {l: complex(v).conjugate() for l, v in da.items()}),
            ("a.hermitian_conjugated().hermitian_conjugated()", lambda: a.hermitian_conjugated().hermitian_conjugated(), da),
            ("a * 1", lambda: a * rng.choice([1, 1.0, 1 + 0j, True]), da), ("1 * a", lambda: rng.choice([1, 1.0, 1 + 0j]) * a, da),
            ("a / 1", lambda: a / rng.choice([1, 1.0]), da), ("a * -1", lambda: a * rng.choice([-1, -1.0]), neg(da)),
            ("a / -1", lambda: a / rng.choice([-1, -1.0]), neg(da)),
            ("a + zero()", lambda: a + zero(), da), ("zero() + a", lambda: zero() + a, da), ("a - zero()", lambda: a - zero(), da),
            ("zero() - a", lambda: zero() - a, neg(da)),
            ("a + b (disjoint labels)", lambda: a + b, {**da, **db}), ("a - b (disjoint labels)", lambda: a - b, {**da, **neg(db)}),
            ("b + a (disjoint labels)", lambda: b + a, {**da, **db}),
            ("a += b (disjoint labels)", lambda: a.copy().__iadd__(b), {**da, **db}),
            ("a -= b (disjoint labels)", lambda: a.copy().__isub__(b), {**da, **neg(db)}),
            (f"a.add_term([{enc_pairs(fresh)}], {cf!r})", None, {**da, fresh: cf}),
        ]
        # scaling by a power of two is exact unless it leaves the normal range
        big = [abs(x) for v in da.values() for x in (complex(v).real, complex(v).imag) if x != 0]
        if all(1e-280 < x < 1e280 for x in big):
            sc = 2.0**k2
            cases.append((f"a * {sc!r}", lambda: a * sc, {l: complex(v) * sc for l, v in da.items()}))
            cases.append((f"a / {sc!r}", lambda: a / sc, {l: complex(v) / sc for l, v in da.items()}))
        # zero coefficients are never accumulated; everything above has none
        cases = [c for c in cases if all(complex(v) != 0 for v in c[2].values())]
        for name, f, want in cases:
            inp = {"a": _show_snapshot(sa), "b": _show_snapshot(_snapshot(b)), "operation": name}
            ctx.traces += 1
            ctx.count("bit_exact_ops", name.split("(")[0].strip()[:24])
            try:
                if f is None:
                    got = a.copy()
                    got.add_term(build_label(rng, list(fresh), rng.choice(ROUTES)), cf)
                else:
                    got = f()
                if not same_map(got, want) or not same_map(a, da):
                    ctx.witness("exact-operation-rounds", f"{name}: the result is not bit for bit the input values (the operation involves no rounding)",
                                inp, {"result": _show_snapshot(_snapshot(got))[:400],
                                      "expected": " + ".join(f"{v!r}*[{enc_pairs(l)}]" for l, v in want.items())[:400]})
            except Exception as e:  # noqa: BLE001
                ctx.witness("raises", f"{name} raises {type(e).__name__}: {e}", inp)


# ---------------------------------------------------------------------------
# results are VALUES: every mutable object the library hands out (sparse matrices of each format, the transition-amplitude
# representation, index lists, Trotter lists) is changed in place by the caller, and every later call with equal or related
# arguments - and every result handed out earlier - must still be right.
# ---------------------------------------------------------------------------
SHARED_1Q_KEY = "sparse-export-1qubit-label-is-shared-table"


def _mutate_sparse(rng, m):
    """change the sparse matrix m in place; returns (description, undo) or None when no in-place change could be made"""
    import operator as pyop

    import numpy as np

    before = m.toarray().copy()
    fmt = getattr(m, "format", "?")
    nz = list(zip(*np.nonzero(before)))
    if not nz:
        return None
    if fmt in ("lil", "dok"):
        r, c = map(int, rng.choice(nz))
        old = complex(before[r][c])
        m[r, c] = old + 5

        def undo():
            m[r, c] = old

        what = f"m[{r},{c}] += 5"
    else:
        how = rng.choice(["imul", "data"])
        done = False
        if how == "imul":
            try:
                res = pyop.imul(m, 2)
                done = res is m and not np.array_equal(m.toarray(), before)
                if res is not m and not np.array_equal(m.toarray(), before):
                    done = True
            except Exception:  # noqa: BLE001
                done = False
            what = "m *= 2"
        if not done:
            if not hasattr(m, "data") or not hasattr(m.data, "__imul__"):
                return None
            m.data *= 2
            what = "m.data *= 2"

        def undo():
            m.data *= 0.5

    if np.array_equal(m.toarray(), before):
        return None
    return what, undo


def _sparse_tables_ok():
    """1- and 2-qubit exports of X, Y, Z through the public entry point are right (default format)"""
    from quri_parts.core.operator import get_sparse_matrix, pauli_label

    try:
        for p in (1, 2, 3):
            for ps, n in (([(0, p)], 1), ([(0, p), (1, p)], 2)):
                arr = get_sparse_matrix(pauli_label(ps), n).toarray()
                if [[gauss(v) for v in row] for row in arr.tolist()] != ref.op_matrix([(tuple(ps), (1, 0))], n):
                    return False
        return True
    except Exception:  # noqa: BLE001
        return False


def _repair_sparse_tables(ctx: Ctx):
    """last resort after a detected sharing defect: rebuild the module table so that the rest of the check judges a sane library"""
    if _sparse_tables_ok():
        return
    try:
        import numpy as np
        import scipy.sparse as ssp

        import quri_parts.core.operator.sparse as sp

        for k in list(sp._pauli_map):
            mat = np.array([[complex(*v) for v in row] for row in ref.M1[int(k)]], dtype=np.complex128)
            sp._pauli_map[k] = ssp.csc_matrix(mat)
    except Exception as e:  # noqa: BLE001
        ctx.disagree("forms-result-mutation", {"stage": "repair"}, f"{type(e).__name__}: {e}", "module table can be rebuilt")
    if not _sparse_tables_ok():
        ctx.notes.append("sparse Pauli table could not be restored after the sharing test: later export checks run on a corrupted table")


def forms_result_mutation(ctx: Ctx):
    import numpy as np

    from quri_parts.core.operator import Operator, get_sparse_matrix, trotter_suzuki_decomposition

    rng = ctx.rng
    fmts = ["csc", "csr", "coo", "lil", "dok", "bsr", "dia"]

    def arr_of(m):
        return [[gauss(v) for v in row] for row in m.toarray().tolist()]

    def export(obj, n, fmt, style):
        if fmt is None:
            return get_sparse_matrix(obj, n)
        return get_sparse_matrix(obj, n, fmt) if style else get_sparse_matrix(obj, n_qubits=n, format=fmt)

    try:
        for t in range(ctx.n(220, 2500)):
            pool = [0, 1, 2]
            ps = rand_valid_pairs(rng, pool)
            is_op = rng.random() < 0.35
            need = max([i + 1 for i, _ in ps] + [0])
            if t % 6 == 0 and not is_op:  # the one-qubit exports of a single Pauli matrix
                ps, need = [(0, rng.randint(1, 3))], 1
            n = rng.choice([need, need, need + 1, 3]) if need else rng.choice([1, 2, 3])
            n = max(n, need, 1)
            fmt = rng.choice([None, None] + fmts)
            style = rng.random() < 0.5
            lab = build_label(rng, ps, rng.choice(ROUTES))
            coef = rand_coef(rng, False)
            if is_op:
                other = [p for p in rand_valid_pairs(rng, pool) if p[0] < n]
                r = ref.Ref()
                r.acc(frozenset(ps), coef)
                r.acc(frozenset(other), rand_coef(rng, False))
                if not r:
                    continue
                obj = Operator()
                for l, c in r.items():
                    obj[build_label(rng, sorted(l), rng.choice(ROUTES))] = py_scalar(rng, c)
                want = _ref_matrix(r, n)
                desc = f"Operator {_desc(r)}"
            else:
                obj, want, desc = lab, ref.op_matrix([(tuple(sorted(ps)), (1, 0))], n), f"label [{enc_pairs(sorted(ps))}]"
            one_qubit_label = (not is_op) and n == 1 and len(ps) == 1
            inp = {"object": desc, "n_qubits": n, "format": fmt}
            ctx.traces += 1
            ctx.count("result_mutation", ("operator" if is_op else ("label-1q" if one_qubit_label else "label")) + f" {fmt}")
            try:
                first = export(obj, n, fmt, style)
                earlier = export(obj, n, fmt, style)
                if arr_of(first) != want or arr_of(earlier) != want:
                    continue  # a wrong export as such is judged elsewhere
                mu = _mutate_sparse(rng, first)
                if mu is None:
                    ctx.count("result_mutation", "no in-place change possible")
                    continue
                what, undo = mu
                inp = dict(inp, caller_edit=f"m = get_sparse_matrix({desc}, {n}{'' if fmt is None else ', ' + repr(fmt)}); {what}")
                bad = []
                if arr_of(earlier) != want:
                    bad.append("a matrix returned by an EARLIER call with the same arguments changed as well")
                again = export(obj, n, fmt, style)
                if arr_of(again) != want:
                    bad.append("the same export called again returns a wrong matrix")
                # exports that contain the label: an operator with this term, same register / format
                c2 = rand_coef(rng, False)
                r2 = ref.Ref()
                r2.acc(frozenset(ps), c2)
                o2 = Operator({build_label(rng, ps, rng.choice(ROUTES)): py_scalar(rng, c2)})
                if ps or n:
                    got2 = arr_of(export(o2, n, fmt, style))
                    if got2 != _ref_matrix(r2, n):
                        bad.append(f"the export of the operator {enc_k(c2)}*[{enc_pairs(sorted(ps))}] is wrong afterwards")
                # a product label that contains the same single-qubit factors, larger register (same format: see the window note below)
                if ps and not is_op:
                    big = sorted(ps) + [(n, rng.randint(1, 3))]
                    got3 = arr_of(export(build_label(rng, big, "set"), n + 1, fmt, style))
                    if got3 != ref.op_matrix([(tuple(big), (1, 0))], n + 1):
                        bad.append(f"the export of [{enc_pairs(big)}] on {n + 1} qubits is wrong afterwards")
                # (between the caller's edit and its undo only the SAME format is requested: the unchanged tree hands out its own table
                #  entry for a one-qubit label, and a request in another format would convert the edited entry into new table entries)
                undo()
                if bad:
                    key = SHARED_1Q_KEY if one_qubit_label else "export-result-shared"
                    ctx.witness(key, "get_sparse_matrix hands out an object it keeps using: after the caller edits the returned matrix in place, "
                                + "; ".join(bad), inp)
                    if not _sparse_tables_ok():
                        _repair_sparse_tables(ctx)
            except Exception as e:  # noqa: BLE001
                ctx.witness("raises", f"export raises {type(e).__name__}: {e}", inp)
                _repair_sparse_tables(ctx)
    finally:
        _repair_sparse_tables(ctx)

    # lists handed out by labels and by the Trotter decomposition
    for _ in range(ctx.n(100, 1000)):
        ps = rand_valid_pairs(rng, [0, 1, 2, 70])
        if not ps:
            continue
        l = build_label(rng, ps, rng.choice(ROUTES))
        inp = {"pairs": ps}
        ctx.traces += 1
        try:
            q = l.qubit_indices()
            il, pl = l.index_and_pauli_id_list
            for lst in (q, il, pl):
                if hasattr(lst, "append"):
                    lst.append(99)
                    lst[0] = 98
            q2 = list(l.qubit_indices())
            il2, pl2 = l.index_and_pauli_id_list
            if sorted(q2) != sorted(i for i, _ in ps) or sorted(zip(il2, pl2)) != sorted(ps) or canon_label(l) != tuple(sorted(ps)):
                ctx.witness("label-result-shared", "editing the list returned by qubit_indices() / index_and_pauli_id_list changes later answers", inp)
            items = {}
            for _ in range(rng.randint(2, 3)):
                items[tuple(sorted(rand_valid_pairs(rng, [0, 1])))] = rand_coef(rng, False)
            op = Operator({build_label(rng, list(k), "set"): complex(*c) for k, c in items.items()})
            order = rng.choice([1, 2])
            a = trotter_suzuki_decomposition(op, 0.5, order)
            ref_a = [(canon_label(e.pauli), e.coefficient) for e in a]
            earlier = trotter_suzuki_decomposition(op, 0.5, order)
            a.reverse()
            del a[: len(a) // 2]
            a.append(a[0] if a else None)
            b = trotter_suzuki_decomposition(op, 0.5, order)
            if [(canon_label(e.pauli), e.coefficient) for e in b] != ref_a or [(canon_label(e.pauli), e.coefficient) for e in earlier] != ref_a:
                ctx.witness("trotter-result-shared", "editing the list returned by trotter_suzuki_decomposition changes later / earlier results",
                            {"op": enc_items([(list(k), c) for k, c in items.items()]), "order": order})
        except Exception as e:  # noqa: BLE001
            ctx.witness("raises", f"{type(e).__name__}: {e}", inp)


# ---------------------------------------------------------------------------
# SIZE thresholds: operators with 0, 1, 2, 63-65, 127-129, 255-257, 511-513, 1023-1025, 1500, 2047-2049, 4097 distinct terms (and
# labels with that many factors) through every operation whose cost grows with the term count, judged by the exact oracle.
# ---------------------------------------------------------------------------
SIZE_LADDER = [0, 1, 2, 63, 64, 65, 127, 128, 129, 255, 256, 257, 511, 512, 513, 1023, 1024, 1025, 1500, 2047, 2048, 2049, 4097]


def size_operator_terms(k: int, nq: int, sub_seed: int):
    """deterministic list of k distinct Pauli strings on nq qubits with small Gaussian-integer coefficients:
    [(pairs, (re, im))], reproducible from (k, nq, sub_seed) alone"""
    import random

    r = random.Random(f"C05-size:{k}:{nq}:{sub_seed}")
    codes = r.sample(range(4**nq), k)
    out = []
    for code in codes:
        ps = []
        for q in range(nq):
            o = (code >> (2 * q)) & 3
            if o:
                ps.append((q, o))
        c = (0, 0)
        while c == (0, 0):
            c = (r.randint(-5, 5), r.choice([0, 0, r.randint(-3, 3)]))
        out.append((ps, c))
    return out


def _qubits_for(k: int) -> int:
    nq = 1
    while 4**nq < max(k, 1):
        nq += 1
    return nq


def forms_sizes(ctx: Ctx):
    from quri_parts.core.operator import (
        Operator,
        PauliLabel,
        commutator,
        get_sparse_matrix,
        pauli_label,
        pauli_product,
        transition_amp_comp_basis,
        transition_amp_representation,
    )
    from quri_parts.core.operator.representation import pauli_label_to_bsv

    opt = _api(ctx, "quri_parts.core.operator", ["truncate", "is_ops_close", "is_hermitian"])
    rng = ctx.rng
    fast_routes = ["set", "ctor", "lists", "tuples", "list", "enum"]

    def build(terms, how):
        op = Operator()
        if how == "dict":
            return Operator({build_label(rng, ps, rng.choice(fast_routes)): py_scalar(rng, c) for ps, c in terms})
        if how == "pairs":
            return Operator([(build_label(rng, ps, rng.choice(fast_routes)), py_scalar(rng, c)) for ps, c in terms])
        for ps, c in terms:
            l = build_label(rng, ps, rng.choice(fast_routes))
            if how == "add_term":
                op.add_term(l, py_scalar(rng, c))
            else:
                op[l] = py_scalar(rng, c)
        return op

    def as_ref(op):
        out = {}
        for l, c in op.items():
            out[frozenset(canon_label(l))] = gauss(c)
        return out

    def judge(key, what, got_op, want: "ref.Ref", spec, zero_free=True):
        g = as_ref(got_op)
        if zero_free:
            ok = g == dict(want)
        else:
            ok = {l: c for l, c in g.items() if c != (0, 0)} == dict(want)
        if not ok:
            miss = [l for l in want if l not in g]
            extra = [l for l in g if l not in want and g[l] != (0, 0)]
            wrong = [l for l in want if l in g and g[l] != want[l]]
            ctx.witness(key, f"{what} on an operator with {spec['n_terms']} terms differs from the exact result", spec,
                        {"result_terms": len(g), "exact_terms": len(want), "missing": [enc_pairs(sorted(l)) for l in miss[:3]],
                         "extra": [enc_pairs(sorted(l)) for l in extra[:3]],
                         "wrong_coefficient": [f"{enc_pairs(sorted(l))}: {g[l]} vs {want[l]}" for l in wrong[:3]]})
        return ok

    # which sizes: linear-cost operations see the whole ladder in both tiers; the export (about 1 ms per term and format) sees the ladder
    # sparsely in the quick tier: one size past every power-of-two boundary up to 1024, plus one of the sizes beyond
    if ctx.quick():
        export_sizes = [0, 1, 2, rng.choice([63, 64, 65]), 129, 257, 1025, rng.choice([1500, 1500, 2047, 2049])]
    else:
        export_sizes = list(SIZE_LADDER)
    for k in SIZE_LADDER:
        nq = _qubits_for(k)
        if k <= 257 and rng.random() < 0.5:
            nq += 1
        sub = rng.randrange(10**6)
        terms = size_operator_terms(k, nq, sub)
        how = rng.choice(["dict", "pairs", "add_term", "setitem"])
        spec = {"n_terms": k, "n_qubits": nq, "operator": f"harness.c05.size_operator_terms({k}, {nq}, {sub})", "built_by": how}
        ctx.traces += 1
        ctx.count("size_probe_terms", str(k))
        budget = 4200 if not ctx.quick() else 2600
        kc = max(1, min(66, budget // max(k, 1), 4**nq))
        kc = rng.choice([1, 2, kc]) if k else 3
        kc = min(kc, 4**nq)
        cterms = size_operator_terms(kc, nq, sub + 2)
        kb = rng.choice([0, 1, k // 3, k])
        pool_codes = size_operator_terms(min(4**nq, kb + 5), nq, sub + 1)[:kb] if kb else []
        try:
            a = build(terms, how)
            ra = ref.Ref.of((ps, c) for ps, c in terms)
            if not judge("add-term", f"construction ({how})", a, ra, spec):
                continue
            if a.n_terms != k or len(a) != k:
                ctx.witness("n-terms", "n_terms differs from the number of distinct labels inserted", spec, {"n_terms": a.n_terms})
            # b: half of a's labels (some with exactly opposite coefficients), plus new ones
            bterms = []
            for ps, c in terms[: k // 2 + 1]:
                bterms.append((ps, ref.gneg(c) if rng.random() < 0.5 else rand_coef(rng, False)))
            seen = {frozenset(ps) for ps, _ in bterms}
            for ps, c in pool_codes:
                if frozenset(ps) not in seen:
                    seen.add(frozenset(ps))
                    bterms.append((ps, c))
            rng.shuffle(bterms)
            b = build(bterms, rng.choice(["dict", "add_term", "setitem"]))
            rb = ref.Ref.of(bterms)
            spec2 = dict(spec, b=f"{len(bterms)} terms: the first {k // 2 + 1} labels of a (about half with the opposite coefficient) and "
                                 f"size_operator_terms(.., {nq}, {sub + 1})[:{kb}], shuffled")
            judge("add-homomorphism", "a + b", a + b, ra.add(rb), spec2)
            judge("sub-homomorphism", "a - b", a - b, ra.add(rb, -1), spec2)
            judge("add-homomorphism", "b + a", b + a, rb.add(ra), spec2)
            c1 = a.copy()
            c1 += b
            judge("iadd", "a += b", c1, ra.add(rb), spec2)
            c1 -= b
            judge("isub", "a += b ; a -= b", c1, ra, spec2)
            c1 = a.copy()
            c1 -= a.copy()
            judge("cancel-removes", "a -= copy of a", c1, ref.Ref(), spec)
            judge("herm", "a.hermitian_conjugated()", a.hermitian_conjugated(), ra.dagger(), spec)
            kk = rng.choice([(2, 0), (0, 1), (-3, 2), (-1, 0)])
            judge("smul-homomorphism", f"{kk} * a", py_scalar(rng, kk) * a, ra.smul(kk), spec)
            judge("smul-homomorphism", f"a * {kk}", a * py_scalar(rng, kk), ra.smul(kk), spec)
            judge("div", "(4*a) / 4", (a * 4) / rng.choice([4, 4.0]), ra, spec)
            c1 = a * 2
            c1 /= 2
            judge("idiv", "a *= 2 ; a /= 2", c1, ra, spec)
            judge("copy", "a.copy()", a.copy(), ra, spec)
            if opt:
                truncate, is_ops_close, is_hermitian = opt
                z = a + b
                z[build_label(rng, [(nq + 1, 1)], "set")] = 0.0
                judge("truncate", "truncate(a + b with one explicit zero)", truncate(z), ra.add(rb), spec2)
                thr = 3
                keep = ref.Ref({l: c for l, c in ra.items() if c[0] ** 2 + c[1] ** 2 >= thr * thr})
                judge("truncate", f"truncate(a, {thr})", truncate(a, thr), keep, spec)
                if not is_ops_close(a, a.copy()) or (k and is_ops_close(a, a + Operator({build_label(rng, terms[-1][0], 'set'): 1}))):
                    ctx.witness("is-ops-close", "is_ops_close(a, copy of a) is False, or True after the last term was changed by 1", spec)
                hh = a + a.hermitian_conjugated()
                if not is_hermitian(hh) or bool(is_hermitian(a)) != (ra == ra.dagger()):
                    ctx.witness("is-hermitian", "is_hermitian disagrees with the exact conjugate", spec)
            # products on moderately sized inputs: |a| * |c| <= about 4200
            cop, rc = build(cterms, "dict"), ref.Ref.of(cterms)
            spec3 = dict(spec, c=f"harness.c05.size_operator_terms({kc}, {nq}, {sub + 2})")
            if k * kc <= budget + 100:
                judge("mul-homomorphism", "a * c", a * cop, ra.mul(rc), spec3)
                judge("mul-homomorphism", "c * a", cop * a, rc.mul(ra), spec3)
                if k * kc <= budget // 2:
                    judge("commutator", "commutator(a, c)", commutator(a, cop), ra.mul(rc).add(rc.mul(ra), -1), spec3)
            # transition amplitudes: sampled entries against the definition
            if k:
                rep = transition_amp_representation(a)
                for _ in range(12):
                    m = rng.randrange(1 << nq)
                    ps0 = rng.choice(terms)[0]
                    n = m
                    for i, o in ps0:
                        if o in (1, 2):
                            n ^= 1 << i
                    want = (0, 0)
                    for ps, c in terms:
                        e = ref.label_entry(ps, m, n)
                        if e != (0, 0):
                            want = ref.gadd(want, ref.gmul(c, e))
                    got = gauss(transition_amp_comp_basis(rep, m, n))
                    if got != want:
                        ctx.witness("transition-amp", f"transition_amp_comp_basis differs from <m|O|n> on an operator with {k} terms",
                                    dict(spec, m=m, n=n), {"got": str(got), "want": str(want)})
                        break
            # the export
            if k in export_sizes:
                A = ref.op_matrix([(tuple(sorted(ps)), c) for ps, c in terms], nq)
                if k <= 2 or (k <= 300 and not ctx.quick()):
                    fl = [None, rng.choice(["csr", "coo", "lil", "dok", "bsr", "dia"])]
                elif k <= 300:
                    fl = [rng.choice([None, "csr", "coo", "lil", "dok", "bsr", "dia"])]
                elif ctx.quick():
                    fl = [rng.choice([None, "csc", "csr", "coo"])]
                else:
                    fl = [None, rng.choice(["csr", "coo", "lil", "dok", "bsr", "dia"])] if k <= 2049 else [rng.choice([None, "coo"])]
                for fmt in fl:
                    infer = k > 0 and rng.random() < 0.3 and any(i == nq - 1 for ps, _ in terms for i, _ in ps)
                    ctx.count("size_probe_export", f"{k} {fmt}")
                    try:
                        if fmt is None:
                            mtx = get_sparse_matrix(a) if infer else get_sparse_matrix(a, nq)
                        else:
                            mtx = get_sparse_matrix(a, None if infer else nq, fmt)
                        arr = mtx.toarray()
                    except Exception as e:  # noqa: BLE001
                        if k == 0 and infer:
                            continue
                        ctx.witness("raises", f"get_sparse_matrix raises {type(e).__name__}: {e}", dict(spec, format=fmt))
                        continue
                    dim = 1 << nq
                    if arr.shape != (dim, dim):
                        if k == 0:
                            continue
                        ctx.witness("sparse-export", f"export of an operator with {k} terms has shape {arr.shape}", dict(spec, format=fmt))
                        continue
                    bad = None
                    rows = arr.tolist()
                    for mi in range(dim):
                        for ni in range(dim):
                            if gauss(rows[mi][ni]) != A[mi][ni]:
                                bad = (mi, ni, rows[mi][ni], A[mi][ni])
                                break
                        if bad:
                            break
                    if bad:
                        # which prefix of the term list explains what was exported (dropped tail / dropped block)?
                        ctx.witness("sparse-export", f"get_sparse_matrix of an operator with {k} distinct terms differs from the sum of the term matrices",
                                    dict(spec, format=fmt, n_qubits_argument=None if infer else nq),
                                    {"entry": [bad[0], bad[1]], "got": str(bad[2]), "exact": str(bad[3])})
        except Exception as e:  # noqa: BLE001
            ctx.witness("raises", f"size probe raises {type(e).__name__}: {e}", spec)

    # labels with many factors
    for k in [1, 2, 31, 32, 33, 63, 64, 65, 127, 128, 129, 257] + ([] if ctx.quick() else [511, 513, 1025]):
        try:
            ids = [rng.randint(1, 3) for _ in range(k)]
            idx = rng.sample(range(k + 5), k)
            ps = list(zip(idx, ids))
            qs = [(i, rng.randint(1, 3)) for i in rng.sample(range(k + 5), max(1, k - 1))]
            inp = {"factors": k, "p": enc_pairs(sorted(ps))[:200], "q": enc_pairs(sorted(qs))[:200]}
            ctx.traces += 1
            labs = [build_label(rng, ps, r) for r in ["set", "lists", "str", "provider", "pickle", "dictitems"]]
            if any(l != labs[0] or hash(l) != hash(labs[0]) or canon_label(l) != tuple(sorted(ps)) for l in labs):
                ctx.witness("label-eq", f"a label with {k} factors built through different routes is not equal / hash-equal", inp)
            if pauli_label(str(labs[0])) != labs[0] or len(str(labs[0]).split()) != k:
                ctx.witness("str-roundtrip", f"the string form of a label with {k} factors does not round-trip", inp)
            r, ph = pauli_product(labs[0], build_label(rng, qs, "set"))
            wl, we = ref.label_mul(frozenset(ps), frozenset(qs))
            if frozenset(canon_label(r)) != wl or gauss(ph) != ref.I_UNIT[we]:
                ctx.witness("pauli-product", f"product of labels with {k} and {len(qs)} factors differs from the factor-wise product", inp,
                            {"phase": str(ph), "exact_phase": str(ref.I_UNIT[we])})
            bv = pauli_label_to_bsv(labs[0])
            ny = sum(1 for o in ids if o == 2)
            if (int(bv.x), int(bv.z)) != (sum(1 << i for i, o in ps if o in (1, 2)), sum(1 << i for i, o in ps if o in (2, 3))) or gauss(
                    bv.phase) != ref.I_UNIT[(3 * ny) % 4]:
                ctx.witness("bsv", f"pauli_label_to_bsv of a label with {k} factors is wrong", inp)
        except Exception as e:  # noqa: BLE001
            ctx.witness("raises", f"label size probe raises {type(e).__name__}: {e}", {"factors": k})


def check_forms(ctx: Ctx):
    for name, fn in [("operands", forms_operands), ("errors", forms_errors), ("accessors", forms_accessors), ("predicates", forms_predicates),
                     ("operator_str", forms_operator_str), ("commute", forms_commute), ("fresh_results", forms_fresh_results),
                     ("histories", forms_histories), ("big_register", forms_big_register), ("trotter", forms_trotter),
                     ("exact_range", forms_exact_range), ("bit_exact", forms_bit_exact), ("result_mutation", forms_result_mutation), ("sizes", forms_sizes)]:
        _section(ctx, name, fn)


# ---------------------------------------------------------------------------
PROP_MODULES = ["QuriVerif.Props.C05"]
OBL_MODULES = ["QuriVerif.Props.C05", "QuriVerif.Generated.C05Tables"]


def run(ctx: Ctx, replay=None) -> int:
    ctx.rule = (
        "cases = one request to the Lean model with the real code run on the same input: label constructions (9 routes), parser inputs "
        "(well-formed, mutated, malformed), label products, bsv, operator programs (random histories of new/+/-/*/scalar*/÷/herm/commutator/"
        "copy/+=/-=/÷=/add_term/constant/setitem over a heap, incl. aliasing), sparse exports and transition amplitudes (all entries); "
        "plus oracle-judged runs of the real code alone (non-operator operands, documented rejections, label accessors, is_ops_close / "
        "is_hermitian / truncate, str(op), bsv_bitwise_commute, freshness of results, export-update-export histories, registers beyond "
        "64 qubits, Trotter-Suzuki lists of order 1-4 against the documented recursion); "
        "distinct = distinct canonical request; compared: order-sensitive dict dumps, strings, error kinds, every matrix entry (exact integers)"
    )
    ctx.trusted = TRUSTED
    ctx.assumptions = [
        "labels are valid (one Pauli per qubit index); pair / index-list constructors accept two Paulis on one index without error",
        "coefficients are exactly representable (Gaussian integers); divisions are by exact divisors",
        "qubit indices are non-negative",
    ]
    gen(ctx)
    deep = [] if ctx.quick() else LEAN_TARGETS_THOROUGH
    lift = ["QuriVerif.Props.C05Lift", "QuriVerif.Props.C05LiftTable"]
    ok = ctx.prove(PROP_MODULES + lift + deep + ["QuriVerif.Driver.C05"], OBL_MODULES + lift + deep)
    if ok:
        names = [f"QV.Props.C05.{n}" for _, n, _ in ctx.count_obligations(["QuriVerif.Props.C05"])]
        names += [f"QV.Props.C05Deep.{n}" for m in deep for _, n, _ in ctx.count_obligations([m])]
        names += [f"QV.Props.C05Lift.{n}" for _, n, _ in ctx.count_obligations(lift)]  # both files share the namespace
        ctx.audit(names, PROP_MODULES + lift + deep)
    with ctx.timed("witness_replay"):
        replay_isub_witness(ctx)
        replay_identity_witness(ctx)
    driver_ok = ok or _driver_builds(ctx)
    if driver_ok:
        with ctx.timed("corpus"):
            run_requests(ctx, corpus_requests(), "corpus")
            if replay:
                run_requests(ctx, replay_requests(replay), "replay")
        with ctx.timed("correspond"):
            reqs, metas = [], []
            corr_labels(ctx, reqs, metas)
            corr_strings(ctx, reqs, metas)
            resp = ctx.driver(reqs, entry=ENTRY)
            check_label_responses(ctx, metas, resp)
            corr_interning(ctx)
            reqs, metas, progs = [], [], []
            corr_products(ctx, reqs, metas)
            corr_programs(ctx, reqs, metas, progs)
            corr_matrices(ctx, progs, reqs, metas)
            resp = ctx.driver(reqs, entry=ENTRY)
            compare_simple(ctx, metas, resp)
            check_trotter(ctx)
    check_forms(ctx)
    with ctx.timed("oracle_validation"):
        broken = (not ok) or bool(ctx.disagreements)
        validate(ctx, (10 if ctx.quick() else 180) * (4 if broken else 1))
    for bf in BUILD_FAILURES:
        ctx.witness("label-construct", "constructing a valid label raises " + bf["error"], {"pairs": bf["pairs"], "route": bf["route"]})
    # witnesses of the two recorded findings last: a replay file shows the first few witnesses only
    ctx.witnesses.sort(key=lambda w: w["key"] in (ISUB_KEY, IDSTR_KEY))
    return ctx.finish()


def _driver_builds(ctx: Ctx) -> bool:
    okb, _ = ctx.lake_build(["QuriVerif.Driver.C05"])
    return okb
