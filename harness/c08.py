"""C08 — Sampling estimation is exact under ideal sampling and stays within budget."""
from __future__ import annotations

import glob
import itertools
import json
import math
import numbers
import os
import sys
from fractions import Fraction

sys.path.insert(0, os.path.dirname(os.path.dirname(os.path.abspath(__file__))))

from common import VERIF, Ctx, InfraError  # noqa: E402

LEAN_TARGETS = ["QuriVerif.Props.C08", "QuriVerif.Props.C08Lift", "QuriVerif.Props.C08Partition", "QuriVerif.Driver.C08"]
ENTRY = "DriverC08.lean"
PROPS = "QuriVerif.Props.C08"

# finding on the unchanged tree (DESIGN §10 F2): zero-shot groups are skipped when circuits are prepared but
# every group is zipped with the returned counts
KEY_F2 = "sampling_estimate.zero-shot-group-pairing"

TRUSTED = [
    "Lean 4.33 kernel incl. `decide +kernel` on the concrete witness instance; axioms audited ⊆ {propext, Classical.choice, Quot.sound}",
    "core `Rat` (Init) is the exact field the model computes in; counts/coefficients handed to the model are the exact rational values of the Python floats",
    "float round-off of the real code is NOT modelled: `_rounddown_to_unit(total * (w / W), unit)` may land one unit below/above the exact "
    "rational floor when total·w/(W·unit) is within 1e-9 of an integer (e.g. 49 equal weights, 49 shots → every group 0); such cases are "
    "counted (`float_boundary`), accepted only when |real − model| = unit, and the budget law is still checked on the real output",
    "numpy `Generator.multinomial` returns a vector of naturals of the given length summing to n (checked on every call); the RNG itself is "
    "universally quantified in the theorems, the seed → draw map is replayed with an independent `default_rng(seed)`",
    "measurement circuits / reconstructors (C07's subject) are INPUTS of the model: the reconstructor table is read off the real factory and "
    "validated per case against the parity-on-support formula; `ideal` counts come from oracle/c08ideal.py (dense state vector)",
    "correspondence harness harness/c08.py, driver Driver/C08.lean (parsing/printing), oracle/c08ideal.py + oracle/dense.py",
    "sqrt in the proportional weights: the documented weight sqrt(Σ|c_P|²) is recomputed by the harness (exactly when the sum is a rational square, "
    "else as the double nearest to the real square root)",
]

ASSUMPTIONS = [
    "total_shots, shot_unit are non-negative ints (negative / non-integer arguments are not modelled)",
    "measurement groups handed to `_Estimate` are distinct frozensets (a partition), as every factory in the repo produces",
    "an ideal sampler returns, for a requested (circuit, shots>0), counts proportional to the exact outcome distribution of that circuit",
    "the standard error (`.error`, sample variance / covariance helpers) is outside the property: it is read (before the value, on a quarter of "
    "the cases) only to check that doing so does not disturb the value",
    "concurrent / history kernels judge values only when every group received shots (then the demanded value is the exact expectation, "
    "independent of the allocation); a numpy array of weights with zero sum may fail with another exception class than ZeroDivisionError",
]

PN = {1: "X", 2: "Y", 3: "Z"}

# Tolerances, all RELATIVE to scale = 1 + Σ|c_P|.  The model evaluates the delivered (float) counts as exact rationals, the real code in
# doubles: per Pauli the error is a few ulp of 1 (≤ 16 outcomes), so the estimate is within ~1e-14·Σ|c_P| of the model.  The oracle's
# demanded value comes from the state vector directly (no counts): round-off of the amplitudes, again ~1e-15 per term.
MODEL_RTOL = 1e-12
ORACLE_RTOL = 1e-11
# a single expectation from float-valued counts: cancellation leaves an ABSOLUTE error of a few ulp of 1
FLOAT_COUNTS_ATOL = 1e-14


# ---------------------------------------------------------------------------
# small helpers
# ---------------------------------------------------------------------------
def exc_name(e: BaseException) -> str:
    return type(e).__name__


def lab_str(p) -> str:
    return " ".join(f"{PN[i]}{q}" for q, i in p)


def frac(x) -> Fraction:
    return Fraction(x)


def fr_s(f: Fraction) -> str:
    return f"{f.numerator}/{f.denominator}"


def isqrt_frac(s: Fraction):
    """exact square root of a non-negative rational if it is a rational square, else None"""
    n, d = s.numerator, s.denominator
    rn, rd = math.isqrt(n), math.isqrt(d)
    if rn * rn == n and rd * rd == d:
        return Fraction(rn, rd)
    return None


def common_numerators(ws: list[Fraction]) -> list[int]:
    den = 1
    for w in ws:
        den = den * w.denominator // math.gcd(den, w.denominator)
    return [int(w * den) for w in ws]


def spec_weight(coefs) -> Fraction:
    """documented weight of a group: Euclidean norm of its coefficients"""
    s = Fraction(0)
    for c in coefs:
        c = complex(c)
        s += Fraction(c.real) ** 2 + Fraction(c.imag) ** 2
    r = isqrt_frac(s)
    if r is not None:
        return r
    return Fraction(math.sqrt(float(s)))


def generic_weight(w) -> Fraction:
    c = complex(w)
    s = Fraction(c.real) ** 2 + Fraction(c.imag) ** 2
    r = isqrt_frac(s)
    return r if r is not None else Fraction(abs(c))


# ---------------------------------------------------------------------------
# budget law on a real allocation (the property itself, evaluated on the real output)
# ---------------------------------------------------------------------------
def budget_defect(shots, n_groups, total, unit):
    if len(shots) != n_groups:
        return f"{len(shots)} allocations for {n_groups} groups"
    for s in shots:
        if isinstance(s, bool) or not isinstance(s, numbers.Integral):
            return f"allocation {s!r} is {type(s).__name__}, not an integer"
        if s < 0:
            return f"negative allocation {s}"
        if unit > 0 and s % unit != 0:
            return f"allocation {s} is not a multiple of the unit {unit}"
    if sum(shots) > total:
        return f"sum of allocations {sum(shots)} exceeds total {total}"
    return None


def near_boundary(q: Fraction) -> bool:
    return abs(q - round(q)) <= Fraction(1, 10**9) * max(1, q)


def compare_prop(ctx, what, inp, real, model, ws: list[Fraction], total, unit):
    """real vs model proportional allocation with the float guard band; returns the allocation to continue with"""
    if real == model:
        return True
    if len(real) == len(model) and unit > 0 and sum(ws) > 0:
        W = sum(ws)
        ok = True
        for r, m, w in zip(real, model, ws):
            if r == m:
                continue
            q = Fraction(total) * w / (W * unit)
            if isinstance(r, numbers.Integral) and abs(r - m) == unit and near_boundary(q):
                ctx.count("float_boundary", what)
                continue
            ok = False
        if ok:
            return True
    ctx.disagree(what, inp, str(real)[:300], str(model)[:300])
    return False


def parse_r(resp: str):
    """driver response `ok a,b,c` / `err Name` → ('ok', [ints]) / ('err', name)"""
    if resp == "bad-request":
        raise InfraError("C08 driver rejected a request")
    if resp.startswith("err "):
        return ("err", resp[4:].strip())
    body = resp[2:].strip()
    return ("ok", [int(x) for x in body.split(",")] if body else [])


# ---------------------------------------------------------------------------
# K1: the six allocators, called directly
# ---------------------------------------------------------------------------
def gen_weights(rng, n):
    kind = rng.choice(["int", "int", "dyadic", "pow2sum", "zeros", "tiny", "complex", "float", "equal"])
    if kind == "int":
        return kind, [rng.randint(0, 9) for _ in range(n)]
    if kind == "dyadic":
        return kind, [rng.randint(0, 64) / 16 for _ in range(n)]
    if kind == "pow2sum":  # ratios are exact dyadics: float arithmetic is exact
        tot = 2 ** rng.randint(2, 6)
        cuts = sorted(rng.randint(0, tot) for _ in range(max(n - 1, 0)))
        ws = [b - a for a, b in zip([0] + cuts, cuts + [tot])] if n else []
        return kind, ws
    if kind == "zeros":
        return kind, [0 if rng.random() < 0.7 else rng.randint(1, 3) for _ in range(n)]
    if kind == "tiny":
        return kind, [rng.choice([1e-12, 1e-9, 3e-7, 1.0, 2.5, 0.0]) for _ in range(n)]
    if kind == "complex":
        return kind, [rng.choice([3 + 4j, -4j, 1.5, 6 - 8j, 0j, -2, 5 + 12j]) for _ in range(n)]
    if kind == "equal":
        return kind, [rng.choice([1, 3, 0.1])] * n
    return kind, [rng.random() * rng.choice([1, 10, 1e-3]) for _ in range(n)]


def _mk_allocator(kind, variant, unit, seed, argform):
    """the allocator under test, constructed positionally / by keyword / with the documented defaults (shot_unit = 1, seed = 1)"""
    from quri_parts.core.sampling import shots_allocator as SA
    from quri_parts.core.sampling import weighted_shots_allocator as WA

    if variant == "generic":
        mk = {"equi": WA.create_equipartition_generic_shots_allocator, "prop": WA.create_proportional_generic_shots_allocator,
              "wr": WA.create_weighted_random_generic_shots_allocator}[kind]
    else:
        mk = {"equi": SA.create_equipartition_shots_allocator, "prop": SA.create_proportional_shots_allocator,
              "wr": SA.create_weighted_random_shots_allocator}[kind]
    if argform == "default":
        return mk()
    if argform == "keyword":
        return mk(shot_unit=unit, seed=seed) if kind == "wr" else mk(shot_unit=unit)
    return mk(seed, unit) if kind == "wr" else mk(unit)


def _alloc_call(ctx, al, c, ws, total, judged=True):
    """one call of the allocator object `al` on the weight vector `ws`; returns (real, fws, order, float weights in iteration order)"""
    import warnings

    import numpy as np

    from quri_parts.core.operator import Operator, pauli_label

    kind, variant = c["kind"], c["variant"]
    n = len(ws)
    order = list(range(n))
    fws = []
    try:
        if variant == "generic":
            fws = [generic_weight(w) for w in ws]
            wform = c.get("wform", "list")
            arg = list(ws) if wform == "list" else tuple(ws) if wform == "tuple" else np.array(ws)
            with warnings.catch_warnings():
                warnings.simplefilter("ignore")
                out = al(arg, total)
            real = ("ok", list(out))
        else:
            # operator variant: group i = {Z_i} (coefficient ws[i]) or {Z_i, X_{n+i}} with coefficients (a, b), weight sqrt(|a|²+|b|²)
            op = Operator()
            sets = []
            for i, w in enumerate(ws):
                if isinstance(w, tuple):
                    a, b = w
                    la, lb = pauli_label(f"Z{i}"), pauli_label(f"X{n + i}")
                    op[la] = a
                    op[lb] = b
                    sets.append(frozenset({la, lb}))
                    fws.append(spec_weight([a, b]))
                else:
                    la = pauli_label(f"Z{i}")
                    op[la] = w
                    sets.append(frozenset({la}))
                    fws.append(spec_weight([w]))
            cform = c.get("cform") or ("list" if c.get("as_list", True) else "set")
            coll = {"list": list, "set": set, "tuple": tuple, "frozenset": frozenset}[cform](sets)
            order = [sets.index(s) for s in coll]
            out = al(op, coll, total)
            got = {}
            dup = False
            for st in out:
                if st.pauli_set in got:
                    dup = True
                got[st.pauli_set] = st.n_shots
            if dup or set(got) != set(sets) or len(list(out)) != len(sets):
                if judged:
                    ctx.witness("allocator.one-per-group", f"{kind}/{variant}: allocations do not correspond one-to-one to the groups",
                                {k: (str(v) if k in ("ws", "prior") else v) for k, v in c.items() if not k.startswith("_")},
                                {"returned": len(list(out)), "groups": len(sets)})
                real = ("ok", [got.get(s, -1) for s in sets])
            else:
                real = ("ok", [got[s] for s in sets])
    except Exception as e:  # noqa: BLE001 — the real code's behaviour
        real = ("err", exc_name(e))
        if variant == "generic":
            fws = [generic_weight(w) for w in ws]
    if variant == "generic":
        fl = [abs(complex(w)) for w in ws]
    else:
        fl = [math.sqrt(sum(abs(complex(x)) ** 2 for x in (w if isinstance(w, tuple) else (w,)))) for w in ws]
    fl = [fl[i] for i in order] if len(order) == len(fl) else fl
    return real, fws, order, fl


def run_alloc_cases(ctx: Ctx, cases):
    """cases: dict(kind equi|prop|wr, variant generic|operator, ws, total, unit, seed, + argument forms, + `prior`: earlier calls made on
    the SAME allocator object) — real call + model requests"""
    import numpy as np

    reqs, metas = [], []
    for c in cases:
        kind, variant, ws, total, unit, seed = c["kind"], c["variant"], c["ws"], c["total"], c["unit"], c.get("seed", 1)
        n = len(ws)
        order = list(range(n))
        fws = []
        prior_rec, prior_ok = [], True
        try:
            al = _mk_allocator(kind, variant, unit, seed, c.get("argform", "positional"))
        except Exception as e:  # noqa: BLE001
            al = None
            real = ("err", exc_name(e))
            fws = [generic_weight(w) if not isinstance(w, tuple) else spec_weight(list(w)) for w in ws]
        if al is not None:
            for pws, ptotal in c.get("prior", []):
                pr, _, _, pfl = _alloc_call(ctx, al, c, pws, ptotal, judged=False)
                prior_rec.append((pfl, ptotal))
                if pr[0] != "ok":
                    prior_ok = False
            real, fws, order, fl = _alloc_call(ctx, al, c, ws, total)
        nums = common_numerators(fws) if fws else []
        c["_fws"], c["_real"], c["_order"] = fws, real, order
        wtxt = ",".join(map(str, nums))
        if kind == "equi":
            reqs.append(f"c08alloc equi | {n} | {total} | {unit}")
            metas.append((c, "main"))
        elif kind == "prop":
            reqs.append(f"c08alloc prop | {wtxt} | {total} | {unit}")
            metas.append((c, "main"))
        else:
            out = real[1] if real[0] == "ok" else []
            reqs.append(f"c08alloc wrcheck | {wtxt} | {total} | {unit} | {','.join(map(str, out))}")
            metas.append((c, "wrcheck"))
            # independent replay of the seed → draw map (in the order the allocator iterated); earlier calls on the same allocator
            # object have advanced the generator
            if real[0] == "ok" and unit > 0 and n > 0 and sum(fws) > 0 and prior_ok and c.get("wform", "list") != "ndarray" and al is not None:
                try:
                    gen = np.random.default_rng(seed)
                    for pfl, ptotal in prior_rec:
                        ps = sum(pfl)
                        gen.multinomial(ptotal // unit, [x / ps for x in pfl], size=1)
                    s = sum(fl)
                    draw = gen.multinomial(total // unit, [x / s for x in fl], size=1)[0].tolist()
                    by_group = [0] * n
                    for pos, g in enumerate(order):
                        by_group[g] = draw[pos]
                    reqs.append(f"c08alloc wr | {wtxt} | {unit} | {','.join(map(str, by_group))}")
                    metas.append((c, "wrreplay"))
                except ValueError:
                    pass
    resp = ctx.driver(reqs, entry=ENTRY)
    for (c, tag), r in zip(metas, resp):
        kind, total, unit, real = c["kind"], c["total"], c["unit"], c["_real"]
        pub = {k: (str(v) if k in ("ws", "prior") else v) for k, v in c.items() if not k.startswith("_")}
        what = f"alloc:{kind}/{c['variant']}"
        # a numpy array of weights with zero sum divides numpy scalars (nan / inf instead of ZeroDivisionError): the property only asks
        # that a degenerate weight vector is not turned into an allocation, not which exception is raised
        loose = c.get("wform") == "ndarray"
        if tag == "main" or tag == "wrcheck":
            ctx.traces += 1
            ctx.count("allocator", f"{kind}/{c['variant']}")
            ctx.count("alloc_arg_container", c.get("wform") or c.get("cform") or "list")
            ctx.count("alloc_constructor_form", c.get("argform", "positional"))
            ctx.count("alloc_prior_calls_on_same_object", str(len(c.get("prior", []))))
            ctx.count("alloc_outcome", real[0] if real[0] == "ok" else real[1])
            ctx.case(("alloc", kind, c["variant"], str(c["ws"]), total, unit, c.get("seed", 0)),
                     nontrivial=real[0] == "err" or any(real[1]) if real[0] == "ok" else True,
                     sample={"allocator": what, "weights": str(c["ws"])[:80], "total": total, "unit": unit, "real": str(real)[:80], "model": r[:80]})
            if real[0] == "ok":
                d = budget_defect(real[1], len(c["ws"]), total, unit)
                if d:
                    ctx.witness(f"allocator.budget:{kind}", f"{what} violates the budget law: {d}", pub, {"allocation": real[1]})
        if tag == "main":
            model = parse_r(r)
            if real[0] == "err" or model[0] == "err":
                if real != model and not (loose and real[0] == model[0] == "err"):
                    ctx.disagree(what, pub, str(real), str(model))
                continue
            if kind == "prop":
                compare_prop(ctx, what, pub, real[1], model[1], c["_fws"], total, unit)
            elif real[1] != model[1]:
                ctx.disagree(what, pub, str(real[1])[:300], str(model[1])[:300])
        elif tag == "wrcheck":
            if r.startswith("err "):
                if real != ("err", r[4:].strip()) and not (loose and real[0] == "err"):
                    ctx.disagree(what, pub, str(real), r)
            elif real[0] == "err":
                ctx.disagree(what, pub, str(real), r)
            elif r != "ok 1":
                ctx.disagree(what + ":admissible", pub, str(real[1])[:300], "not an admissible multinomial allocation")
        else:
            model = parse_r(r)
            if model != real:
                ctx.disagree(what + ":seed-replay", pub, str(real)[:300], str(model)[:300])


def k_allocators(ctx: Ctx):
    rng = ctx.rng
    cases = []
    N = ctx.n(2000, 40000)
    for _ in range(N):
        n = rng.choice([0, 1, 1, 2, 2, 3, 3, 4, 5, 7])
        wk, ws = gen_weights(rng, n)
        total = rng.choice([0, 1, 2, 3, 5, 7, 10, 16, 49, 100, 1000, 4096, 12345, 10**6])
        unit = rng.choice([0, 1, 1, 1, 2, 3, 4, 10, 50, 100, 128])
        kind = rng.choice(["equi", "prop", "prop", "wr"])
        variant = rng.choice(["generic", "operator"])
        if rng.random() < 0.06:  # beyond 32 bits (exact weights only above 2^53: the float product is the documented computation)
            total = rng.choice([2**31 - 1, 2**31 + 7, 2**32, 2**32 + 5, 2**40 + 1])
        c = {"kind": kind, "variant": variant, "ws": ws, "total": total, "unit": unit, "seed": rng.randint(0, 10**6), "wkind": wk}
        # argument forms: how the allocator is constructed and how the weights / groups are handed over
        c["argform"] = rng.choice(["positional", "positional", "keyword"])
        if unit == 1 and rng.random() < 0.3:
            c["argform"] = "default"
            c["seed"] = 1
        if variant == "generic":
            c["wform"] = rng.choice(["list", "list", "tuple", "ndarray"])
        # history: earlier calls on the same allocator object (valid ones, so that the generator of the random allocator advances)
        if unit > 0 and rng.random() < 0.3:
            c["prior"] = []
            for _ in range(rng.randint(1, 3)):
                pn = rng.randint(1, 4)
                c["prior"].append(([rng.randint(1, 9) for _ in range(pn)], rng.choice([1, 5, 16, 100, 1000])))
        if variant == "operator":
            if n == 0 and rng.random() < 0.5:
                c["ws"] = []
            elif rng.random() < 0.3 and n > 0:  # two-term groups with Pythagorean coefficients: the weight is exact
                trip = [(3, 4), (6, 8), (5, 12), (3j, 4), (0.75, 1), (8, 15)]
                c["ws"] = [rng.choice(trip) if rng.random() < 0.6 else w for w in ws]
            c["cform"] = rng.choice(["list", "list", "set", "tuple", "frozenset"])
        ctx.count("weights", wk)
        cases.append(c)
    # fixed regression inputs
    cases += [
        {"kind": "prop", "variant": "generic", "ws": [1] * 49, "total": 49, "unit": 1},
        {"kind": "prop", "variant": "generic", "ws": [10, 1, 10], "total": 3, "unit": 1},
        {"kind": "equi", "variant": "generic", "ws": [1, 1, 1], "total": 20, "unit": 4},
        {"kind": "wr", "variant": "generic", "ws": [1, 2], "total": 11, "unit": 2, "seed": 1},
        {"kind": "wr", "variant": "generic", "ws": [], "total": 11, "unit": 2, "seed": 1},
        {"kind": "wr", "variant": "generic", "ws": [], "total": 11, "unit": 0, "seed": 1},
        {"kind": "prop", "variant": "generic", "ws": [], "total": 11, "unit": 0},
        {"kind": "prop", "variant": "operator", "ws": [0, 0], "total": 11, "unit": 1, "as_list": True},
        {"kind": "equi", "variant": "operator", "ws": [], "total": 11, "unit": 1, "as_list": True},
    ]
    if not ctx.quick():  # exhaustive small scope
        for n in range(0, 4):
            for ws in itertools.product(range(0, 4), repeat=n):
                for total in range(0, 14):
                    for unit in range(0, 5):
                        for kind in ("equi", "prop", "wr"):
                            if kind == "equi" and any(w != ws[0] for w in ws):
                                continue
                            cases.append({"kind": kind, "variant": "generic", "ws": list(ws), "total": total, "unit": unit, "seed": total + unit})
        ctx.extra["exhaustive_allocator_scope"] = "weights in {0..3}^n (n<=3), total 0..13, unit 0..4, all three generic allocators"
    run_alloc_cases(ctx, cases)


# ---------------------------------------------------------------------------
# K2: sampling_estimate end to end
# ---------------------------------------------------------------------------
CLIFF1 = ["H", "S", "Sdag", "X", "Y", "Z"]


def gen_angle(rng):
    """rotation angles: generic, tiny (expectation values 1e-12 … 1e-6 of either sign), or a tiny step away from a multiple of π/2 —
    exactness is judged relative to the size of each term, so terms whose exact expectation is tiny but not zero must be there"""
    r = rng.random()
    tiny = rng.choice([-1, 1]) * 10 ** rng.uniform(-12, -6)
    if r < 0.3:
        return tiny
    if r < 0.45:
        return rng.choice([0.5, 1.0, 1.5, 2.0, -0.5, -1.0]) * math.pi + tiny
    return rng.uniform(-3.0, 3.0)


def gen_state(rng, n, dyadic, act=None, product=False):
    qs = list(range(n)) if act is None else list(act)
    gs = []
    for _ in range(rng.randint(0, 2 * len(qs) + 2)):
        r = rng.random()
        if len(qs) >= 2 and r < 0.3 and not product:
            a, b = rng.sample(qs, 2)
            gs.append([rng.choice(["CNOT", "CZ"]), [a, b]])
        elif not dyadic and r < 0.6:
            gs.append([rng.choice(["RX", "RY", "RZ"]), [rng.choice(qs)], gen_angle(rng)])
        else:
            gs.append([rng.choice(CLIFF1), [rng.choice(qs)]])
    return gs


def gen_pauli(rng, n, act=None):
    pool = list(range(n)) if act is None else list(act)
    k = rng.randint(1, len(pool))
    qs = sorted(rng.sample(pool, k))
    return tuple((q, rng.randint(1, 3)) for q in qs)


def gen_coef(rng, dyadic):
    r = rng.random()
    if r < 0.12:
        return rng.choice([1e-12, -1e-12, 1e-9, 2e-10j, 1e-15])
    if r < 0.18:
        return 0.0
    if r < 0.28:  # large coefficients (1e3 … 1e9): a small error in one expectation value is a large error of the estimate
        return rng.choice([-1, 1]) * rng.choice([2000, 1500.25, 10.0**6, 3 * 10.0**9, float(round(10 ** rng.uniform(3, 9)))])
    if dyadic or r < 0.5:
        c = rng.randint(-16, 16) / rng.choice([1, 2, 4, 8])
        if rng.random() < 0.25:
            c = complex(c, rng.randint(-8, 8) / 4)
        return c
    c = rng.uniform(-2, 2)
    if rng.random() < 0.25:
        c = complex(c, rng.uniform(-1, 1))
    return c


def compatible(p, grp_map):
    return all(grp_map.get(q, i) == i for q, i in p)


def greedy_groups(paulis):
    """own greedy bitwise-commuting grouping (independent of the repo's)"""
    groups, maps = [], []
    for p in paulis:
        for g, m in zip(groups, maps):
            if compatible(p, m):
                g.append(p)
                m.update(dict(p))
                break
        else:
            groups.append([p])
            maps.append(dict(p))
    return groups


ROUTES = ["direct", "direct", "direct", "default", "default", "keyword", "estimator", "concurrent", "cc_estimator", "general", "general_seq",
          "general_param", "manual"]


def gen_case(rng, quick=True, wide=False):
    act = None
    if wide:
        # more qubits than a machine word: outcome keys beyond 2^31 / 2^63.  Product states only (computational basis state +
        # one-qubit Clifford gates on a few active qubits) so that the outcome distribution is computed qubit by qubit.
        n = rng.choice([33, 40, 64, 65, 70])
        cand = sorted({0, 1, 30, 31, 32, 33, 62, 63, 64, 65, n - 2, n - 1} & set(range(n)))
        act = sorted(rng.sample(cand, rng.randint(1, 4)))
        if rng.random() < 0.7 and (n - 1) not in act:
            act[-1] = n - 1
        dyadic = True
    else:
        n = rng.choice([1, 2, 2, 3, 3, 4])
        dyadic = rng.random() < 0.6
    nt = rng.randint(1, 7)
    terms, seen = [], set()
    for _ in range(nt):
        p = gen_pauli(rng, n, act)
        if p in seen:
            continue
        seen.add(p)
        terms.append([list(map(list, p)), gen_coef(rng, dyadic)])
    if rng.random() < 0.5:
        terms.insert(rng.randint(0, len(terms)), [[], gen_coef(rng, dyadic)])
    if rng.random() < 0.04:
        terms = [t for t in terms if not t[0]]  # empty or constant operator
    bare = False
    if rng.random() < 0.08:
        # the observable passed as a bare PauliLabel (an Estimatable; the identity label included)
        terms = [[[] if rng.random() < 0.4 else [list(x) for x in gen_pauli(rng, n, act)], 1.0]]
        bare = True
    fk = rng.choice(["bitwise", "individual", "list", "list", "list"])
    fac = {"kind": fk}
    paulis = [tuple(map(tuple, t[0])) for t in terms if t[0]]
    if fk == "list":
        groups = greedy_groups(paulis) if rng.random() < 0.5 else [[p] for p in paulis]
        rng.shuffle(groups)
        groups = [[list(map(list, p)) for p in g] for g in groups]
        if any(not t[0] for t in terms):
            r = rng.random()
            if r < 0.75:
                groups.insert(rng.randint(0, len(groups)), [[]])
            elif r < 0.9 and groups:  # the identity label inside a mixed group
                rng.choice(groups).append([])
        fac["groups"] = groups
        fac["own_recs"] = rng.random() < 0.5
        # a different (equally valid) measurement of the same groups: an X on one qubit after the basis change flips that
        # outcome bit and the group's reconstructors undo it — another measurement factory for the same labels
        fac["flip"] = (rng.choice(act) if act else rng.randrange(n)) if rng.random() < 0.35 else None
        # the measurement circuit of a group as a tuple of gates (the library's form), a list, or a circuit object
        fac["mcform"] = rng.choice(["tuple", "tuple", "list", "circuit"])
    # what the factory returns: any iterable of measurements
    fac["ret"] = rng.choice(["list", "list", "tuple", "gen"])
    # … of any implementation of the CommutablePauliSetMeasurement protocol (also around the library's own groupings)
    fac["gform"] = rng.choice(GFORMS)
    ak = rng.choice(["equi", "prop", "prop", "wr", "fixed", "fixed"]) if fk == "list" else rng.choice(["equi", "prop", "prop", "wr"])
    al = {"kind": ak, "unit": rng.choice([1, 1, 1, 2, 5, 10, 0 if rng.random() < 0.1 else 1]), "seed": rng.randint(0, 10**6)}
    total = rng.choice([0, 1, 2, 3, 4, 5, 8, 10, 17, 50, 100, 1000, 10000])
    if fk == "list" and ak in ("equi", "fixed") and fac["groups"] and rng.random() < 0.15:
        # a factory may measure labels the operator does not contain ("only Paulis in both pauli_set and coefs are summed")
        g = rng.choice(fac["groups"])
        gm = {}
        for p in g:
            gm.update({q: i for q, i in p})
        for _ in range(5):
            extra = gen_pauli(rng, n, act)
            if extra not in seen and compatible(extra, gm):
                g.append([list(x) for x in extra])
                break
    if fk == "list" and ak in ("equi", "fixed") and rng.random() < 0.12:
        # … including a whole group of labels the operator does not contain: it is sampled and contributes nothing
        for _ in range(5):
            extra = gen_pauli(rng, n, act)
            if extra not in seen and all(list(map(list, extra)) not in g for g in fac["groups"]):
                fac["groups"].insert(rng.randint(0, len(fac["groups"])), [[list(x) for x in extra]])
                break
    if ak == "fixed":
        ng = len([g for g in fac["groups"] if g != [[]]])
        al["shots"] = [rng.choice([0, 0, 1, 2, 5, 8]) for _ in range(ng)]
        al["ret"] = rng.choice(["frozenset", "frozenset", "list", "tuple", "set"])
        total = max(total, sum(al["shots"]))
    sk = "ideal" if rng.random() < 0.8 else rng.choice(["counts", "counts", "short", "empty"])
    spec = {"n": n, "state": gen_state(rng, n, dyadic, act, product=wide), "dyadic": dyadic,
            "op": [[t[0], [complex(t[1]).real, complex(t[1]).imag]] for t in terms],
            "factory": fac, "alloc": al, "total": total, "sampler": sk, "sseed": rng.randint(0, 10**6), "bare": bare}
    # --- argument forms and entry points (every route ends in the same sampling_estimate)
    spec["route"] = rng.choice(ROUTES)
    if spec["route"] == "general_param" and not any(g[0] in ("RX", "RY", "RZ") for g in spec["state"]):
        spec["route"] = "general"
    spec["sform"] = "cb_gates" if wide else rng.choice(["general", "general", "cb", "cb_gates"])
    if spec["sform"] != "general":
        spec["bits"] = rng.getrandbits(n)
        if spec["sform"] == "cb":
            spec["state"] = []
            if spec["route"] == "general_param":
                spec["route"] = "general"
    if spec["route"] == "general_param":
        spec["sform"] = "general"
    spec["sret"] = rng.choice(["list", "list", "tuple", "gen"])
    spec["prepret"] = rng.choice(["asis", "asis", "tuple", "gen"])
    spec["intcoef"] = rng.random() < 0.3
    spec["err_first"] = rng.random() < 0.25
    if wide:
        spec["wide"] = True
    return spec


F2_CASE = {
    "n": 2, "state": [["H", [1]]], "dyadic": True,
    "op": [[[[0, 3]], [10.0, 0.0]], [[[0, 1]], [1.0, 0.0]], [[[1, 1]], [10.0, 0.0]]],
    "factory": {"kind": "list", "groups": [[[[0, 3]]], [[[0, 1]]], [[[1, 1]]]]},
    "alloc": {"kind": "prop", "unit": 1, "seed": 1}, "total": 3, "sampler": "ideal", "sseed": 0,
}


class OracleLimit(Exception):
    """the harness' own product-state oracle cannot handle the circuit (never the real code's fault)"""


def prod_states(gates):
    """per-qubit state vectors of a circuit of one-qubit gates on |0…0⟩ (qubits never touched stay |0⟩)"""
    import numpy as np

    from oracle import dense

    st = {}
    for g in gates:
        wires = list(g.control_indices) + list(g.target_indices)
        if len(wires) != 1:
            raise OracleLimit("not a product circuit")
        m = np.asarray(dense.local_matrix(g.name, tuple(g.params), tuple(g.pauli_ids), None), dtype=complex)
        st[wires[0]] = m @ st.get(wires[0], np.array([1.0, 0.0], dtype=complex))
    return st


def prod_counts(gates, shots):
    """exact outcome frequencies of a product circuit: keys are Python ints of any width"""
    st = prod_states(gates)
    base, free = 0, []
    for q, v in sorted(st.items()):
        p1 = float(abs(v[1]) ** 2)
        for grid in (0.0, 0.5, 1.0):
            if abs(p1 - grid) < 1e-9:
                p1 = grid
        if p1 == 1.0:
            base |= 1 << q
        elif p1 != 0.0:
            free.append((q, p1))
    if len(free) > 10:
        raise OracleLimit("too many undetermined qubits")
    out = {}
    for pat in itertools.product([0, 1], repeat=len(free)):
        k, pr = base, 1.0
        for (q, p1), bit in zip(free, pat):
            if bit:
                k |= 1 << q
                pr *= p1
            else:
                pr *= 1.0 - p1
        out[k] = pr * shots
    return out


def prod_demanded(state_gates, op_items, groups, shots):
    """identity term + Σ over groups with shots > 0 of Σ c_P ⟨P⟩, ⟨P⟩ = Π_q ⟨ψ_q|P_q|ψ_q⟩ (no measurement circuit, no reconstructor)"""
    import numpy as np

    st = prod_states(state_gates)
    pm = {1: np.array([[0, 1], [1, 0]], dtype=complex), 2: np.array([[0, -1j], [1j, 0]], dtype=complex), 3: np.array([[1, 0], [0, -1]], dtype=complex)}
    zero = np.array([1.0, 0.0], dtype=complex)

    def ev(p):
        r = 1.0
        for q, i in p:
            v = st.get(q, zero)
            r *= float(np.real(np.vdot(v, pm[int(i)] @ v)))
        return r

    coef = {tuple(sorted(p)): c for p, c in op_items}
    val = complex(coef.get((), 0.0))
    for g, sh in zip(groups, shots):
        if sh > 0:
            for p in g:
                key = tuple(sorted(p))
                if key in coef:
                    val += coef[key] * ev(key)
    return val


GFORMS = ["tuple", "tuple", "dataclass", "plain", "reordered", "extra", "lazy_mc", "lazy_all"]
_GROUP_CLASSES: dict = {}


def group_classes():
    """Implementations of the `CommutablePauliSetMeasurement` PROTOCOL (three attributes: pauli_set, measurement_circuit,
    pauli_reconstructor_factory — "explicit inheritance is not necessary") other than the library's NamedTuple.  The estimator's contract
    with a measurement factory is that protocol, so "all measurement factories" includes factories returning any of these."""
    if _GROUP_CLASSES:
        return _GROUP_CLASSES
    import dataclasses
    from typing import Any, NamedTuple

    from quri_parts.core.measurement import CommutablePauliSetMeasurementTuple

    @dataclasses.dataclass(frozen=True)
    class DataclassGroup:  # not iterable, not indexable
        pauli_set: Any
        measurement_circuit: Any
        pauli_reconstructor_factory: Any

    class PlainGroup:
        def __init__(self, ps, mc, rf):
            self.pauli_reconstructor_factory = rf
            self.measurement_circuit = mc
            self.pauli_set = ps

    class ReorderedGroup(NamedTuple):  # a 3-tuple whose POSITIONS are not the library's
        pauli_reconstructor_factory: Any
        pauli_set: Any
        measurement_circuit: Any

    class ExtraGroup(NamedTuple):  # a tuple with an extra field in front
        note: str
        pauli_set: Any
        measurement_circuit: Any
        pauli_reconstructor_factory: Any

    class LazyCircuitGroup(CommutablePauliSetMeasurementTuple):
        """subclass of the library tuple: the stored circuit field is a placeholder, the attribute is computed on access"""
        _circuits: dict = {}

        @property
        def measurement_circuit(self):
            return LazyCircuitGroup._circuits[id(self)]()

    class LazyGroup:
        """every attribute computed on access"""

        def __init__(self, ps, mc, rf):
            self._src = (ps, mc, rf)
            self.reads = 0

        @property
        def pauli_set(self):
            self.reads += 1
            return self._src[0]

        @property
        def measurement_circuit(self):
            self.reads += 1
            mc = self._src[1]
            return mc if hasattr(mc, "gates") else type(mc)(mc)

        @property
        def pauli_reconstructor_factory(self):
            self.reads += 1
            return self._src[2]

    def make(form, ps, mc, rf):
        if form == "dataclass":
            return DataclassGroup(ps, mc, rf)
        if form == "plain":
            return PlainGroup(ps, mc, rf)
        if form == "reordered":
            return ReorderedGroup(rf, ps, mc)
        if form == "extra":
            return ExtraGroup("extra", ps, mc, rf)
        if form == "lazy_mc":
            g = LazyCircuitGroup(ps, (), rf)
            LazyCircuitGroup._circuits[id(g)] = lambda _mc=mc: _mc
            _GROUP_CLASSES.setdefault("_keep", []).append(g)  # keep alive: ids stay unique
            return g
        if form == "lazy_all":
            return LazyGroup(ps, mc, rf)
        return CommutablePauliSetMeasurementTuple(ps, mc, rf)

    _GROUP_CLASSES["make"] = make
    return _GROUP_CLASSES


def as_group_form(form, ms):
    """re-express measurement groups (any protocol implementation) in the given implementation of the protocol"""
    if not form or form == "tuple":
        return ms
    make = group_classes()["make"]
    return [make(form, m.pauli_set, m.measurement_circuit, m.pauli_reconstructor_factory) for m in ms]


class Rec:
    def __init__(self):
        self.measurements = None
        self.alloc_in = None
        self.alloc_out = None
        self.alloc_exc = None
        self.shots_map = None
        self.pairs = None
        self.delivered = None
        self.oracle_limit = False
        self.sampler_calls = 0
        self.error = None
        self.value_again = None


def state_gates_of(spec, objs):
    """the preparation circuit the state object itself reports (a computational-basis state folds Pauli gates into its bits, which is
    another property's subject); the VALUE is judged against the harness' own circuit `circ`"""
    gates = list(objs["circ"].gates)
    if (spec.get("route") or "") != "general_param":
        try:
            gates = list(objs["state"].circuit.gates)
        except Exception:  # noqa: BLE001
            pass
    return gates


def mc_gates(mc):
    """gate list of a measurement circuit given as a sequence of gates or as a circuit object"""
    return list(getattr(mc, "gates", mc))


def build_and_run(spec, route="direct"):
    """run the REAL sampling_estimate on the case; returns (status, value/exception name, Rec, objects)"""
    import random as _random

    import quri_parts.circuit as QC
    from quri_parts.core.estimator.sampling import sampling_estimate
    from quri_parts.core.estimator.sampling.estimator_helpers import get_sampling_circuits_and_shots
    from quri_parts.core.measurement import (
        CommutablePauliSetMeasurementTuple,
        bitwise_commuting_pauli_measurement,
        bitwise_commuting_pauli_measurement_circuit,
        bitwise_pauli_reconstructor_factory,
        individual_pauli_measurement,
    )
    from quri_parts.core.operator import PAULI_IDENTITY, Operator, pauli_label
    from quri_parts.core.sampling import PauliSamplingSetting
    from quri_parts.core.sampling import shots_allocator as SA
    from quri_parts.core.state import ComputationalBasisState, GeneralCircuitQuantumState

    from oracle import c08ideal

    n = spec["n"]
    route = spec.get("route") or route
    sform = spec.get("sform", "general")
    bits = spec.get("bits", 0) if sform != "general" else 0
    # `circ`: the circuit the ORACLE uses (X on the set bits, then the gates); the state handed to the real code is built separately
    circ = QC.QuantumCircuit(n)
    for q in range(n):
        if (bits >> q) & 1:
            circ.add_gate(QC.X(q))
    gate_objs = []
    for g in spec["state"]:
        f = getattr(QC, g[0])
        gate_objs.append(f(g[1][0], g[2]) if g[0] in ("RX", "RY", "RZ") else f(*g[1]))
    for go in gate_objs:
        circ.add_gate(go)
    params = None
    if route == "general_param":
        # the same state as a parametric state: every rotation angle is a parameter bound at call time
        from quri_parts.circuit import ParametricQuantumCircuit
        from quri_parts.core.state import ParametricCircuitQuantumState

        pc = ParametricQuantumCircuit(n)
        params = []
        for g, go in zip(spec["state"], gate_objs):
            if g[0] in ("RX", "RY", "RZ"):
                getattr(pc, f"add_Parametric{g[0]}_gate")(g[1][0])
                params.append(g[2])
            else:
                pc.add_gate(go)
        state = ParametricCircuitQuantumState(n, pc)
    elif sform == "general":
        sc = QC.QuantumCircuit(n)
        for go in gate_objs:
            sc.add_gate(go)
        state = GeneralCircuitQuantumState(n, sc)
    else:
        state = ComputationalBasisState(n, bits=bits)
        if sform == "cb_gates":
            state = state.with_gates_applied(gate_objs)

    def lab(p):
        return pauli_label(lab_str([tuple(x) for x in p])) if p else PAULI_IDENTITY

    op = Operator()
    for p, (re, im) in spec["op"]:
        c = complex(re, im) if im != 0 else re
        if spec.get("intcoef") and im == 0 and float(re).is_integer():
            c = int(re)  # integer-typed coefficient
        op[lab(p)] = c
    op_arg = op
    if spec.get("bare") and len(spec["op"]) == 1:
        op_arg = lab(spec["op"][0][0])  # the bare label instead of Operator({label: 1.0})
    rec = Rec()
    fk = spec["factory"]["kind"]

    def factory(o):
        if fk == "bitwise":
            ms = list(bitwise_commuting_pauli_measurement(o))
        elif fk == "individual":
            ms = list(individual_pauli_measurement(o))
        else:
            ms = []
            for g in spec["factory"]["groups"]:
                ps = frozenset(lab(p) for p in g)
                mc = () if ps == {PAULI_IDENTITY} else bitwise_commuting_pauli_measurement_circuit(ps)
                fq = spec["factory"].get("flip")
                if fq is not None and ps != {PAULI_IDENTITY}:
                    mc = tuple(mc) + (QC.X(fq),)

                    def base(pauli, _m=1 << fq):
                        r0 = bitwise_pauli_reconstructor_factory(pauli)
                        return lambda bits: r0(bits ^ _m)
                else:
                    base = bitwise_pauli_reconstructor_factory
                rf = base
                if spec["factory"].get("own_recs"):
                    # a reconstructor factory that only knows the labels of its own group
                    def rf(pauli, _ps=ps, _base=base):
                        return _base(pauli) if pauli in _ps else (lambda bits: 0)
                mcform = spec["factory"].get("mcform", "tuple")
                if mcform == "list":
                    mc = list(mc)
                elif mcform == "circuit" and ps != {PAULI_IDENTITY}:
                    qc = QC.QuantumCircuit(n)
                    for gg in mc:
                        qc.add_gate(gg)
                    mc = qc
                ms.append(CommutablePauliSetMeasurementTuple(ps, mc, rf))
        ms = as_group_form(spec["factory"].get("gform"), ms)
        rec.measurements = ms
        ret = spec["factory"].get("ret", "list")
        return tuple(ms) if ret == "tuple" else (m for m in ms) if ret == "gen" else ms

    al = spec["alloc"]
    if al["kind"] == "fixed":
        non_id = [frozenset(lab(p) for p in g) for g in spec["factory"]["groups"] if g != [[]]]
        table = dict(zip(non_id, al["shots"]))
        aret = {"frozenset": frozenset, "list": list, "tuple": tuple, "set": set}[al.get("ret", "frozenset")]

        def inner(o, pauli_sets, total):
            return aret(PauliSamplingSetting(ps, table[ps]) for ps in pauli_sets)
    else:
        mk = {"equi": SA.create_equipartition_shots_allocator, "prop": SA.create_proportional_shots_allocator,
              "wr": SA.create_weighted_random_shots_allocator}[al["kind"]]
        inner = mk(al["seed"], al["unit"]) if al["kind"] == "wr" else mk(al["unit"])

    def allocator(o, pauli_sets, total):
        rec.alloc_in = list(pauli_sets)
        try:
            out = inner(o, pauli_sets, total)
        except Exception as e:  # noqa: BLE001
            rec.alloc_exc = exc_name(e)
            raise
        rec.alloc_out = list(out)
        return out

    def prep(st, ms, shots_map):
        rec.shots_map = dict(shots_map)
        out = get_sampling_circuits_and_shots(st, ms, shots_map)
        pr = spec.get("prepret", "asis")  # a preparation function may return any iterable of (circuit, shots)
        return tuple(out) if pr == "tuple" else (x for x in out) if pr == "gen" else out

    srng = _random.Random(spec["sseed"])
    sk = spec["sampler"]

    def sampler(pairs):
        pairs = list(pairs)
        # accumulated over calls: an implementation may submit the requests in several batches
        rec.pairs = (rec.pairs or []) + [(list(c.gates), s, c.qubit_count) for c, s in pairs]
        rec.sampler_calls += 1
        out = []
        for c, s in pairs:
            if sk == "ideal" and spec.get("wide"):
                try:
                    out.append(prod_counts(c.gates, s))
                except Exception:  # noqa: BLE001 — limits of the harness' product oracle, not a property of the real code
                    rec.oracle_limit = True
                    out.append({0: s})
            elif sk == "ideal":
                try:
                    out.append(c08ideal.ideal_counts(n, c.gates, s, 30 if spec["dyadic"] else None))
                except ValueError:
                    out.append(c08ideal.ideal_counts(n, c.gates, s, None))
            elif sk == "empty" and srng.random() < 0.4:
                out.append({})
            elif spec.get("wide"):
                keys = {srng.getrandbits(n) for _ in range(srng.randint(1, 6))}
                out.append({k: srng.choice([0, 1, 2, 3, 7, 0.5]) for k in keys})
            else:
                keys = srng.sample(range(1 << n), srng.randint(1, 1 << n))
                out.append({k: srng.choice([0, 1, 2, 3, 7, 0.5]) for k in keys})
        if sk == "short" and out:
            out = out[: srng.randint(0, len(out))]
        rec.delivered = (rec.delivered or []) + list(out)
        sret = spec.get("sret", "list")
        return tuple(out) if sret == "tuple" else (d for d in out) if sret == "gen" else out

    objs = {"state": state, "op": op, "op_arg": op_arg, "factory": factory, "allocator": allocator, "sampler": sampler, "circ": circ}
    try:
        import quri_parts.core.estimator.sampling as ES

        T = spec["total"]
        if route == "manual" and (op_arg is not op or len(op) == 0 or (len(op) == 1 and PAULI_IDENTITY in op)):
            route = "default"
        if route == "manual":
            # the same pipeline assembled by the caller from the public helpers (each of them consumes measurement groups)
            from quri_parts.core.estimator.sampling import estimator_helpers as EH
            from quri_parts.core.estimator.utils import is_estimatable

            assert is_estimatable(op, state)
            ms_ = [m for m in factory(op) if m.pauli_set != {PAULI_IDENTITY}]
            sm_ = EH.distribute_shots_among_pauli_sets(op, ms_, allocator, T)
            ms_ = [m for m in ms_ if sm_[m.pauli_set] > 0]
            est = ES.get_estimate_from_sampling_result(op, ms_, op.constant, sampler(EH.get_sampling_circuits_and_shots(state, ms_, sm_)))
        elif route == "direct":
            est = sampling_estimate(op_arg, state, T, sampler, factory, allocator, prep)
        elif route == "default":
            est = sampling_estimate(op_arg, state, T, sampler, factory, allocator)
        elif route == "keyword":
            est = sampling_estimate(op=op_arg, state=state, total_shots=T, sampler=sampler, measurement_factory=factory,
                                    shots_allocator=allocator, circuit_shot_pair_prep_fn=prep)
        elif route == "concurrent":
            est = list(ES.concurrent_sampling_estimate([op_arg], [state], T, sampler, factory, allocator, prep))[0]
        elif route == "cc_estimator":
            est = list(ES.create_sampling_concurrent_estimator(T, sampler, factory, allocator)([op_arg], [state]))[0]
        elif route == "general":
            est = ES.create_general_sampling_estimator(T, sampler, factory, allocator)(op_arg, state)
        elif route == "general_seq":
            est = list(ES.create_general_sampling_estimator(T, sampler, factory, allocator)([op_arg], [state]))[0]
        elif route == "general_param":
            est = ES.create_general_sampling_estimator(T, sampler, factory, allocator)(op_arg, state, params)
        else:
            est = ES.create_sampling_estimator(T, sampler, factory, allocator)(op_arg, state)
        if spec.get("err_first"):
            # the standard error is outside the property; reading it first must not disturb the value
            import warnings

            try:
                with warnings.catch_warnings():
                    warnings.simplefilter("ignore")
                    rec.error = ("ok", est.error)
            except Exception as e:  # noqa: BLE001
                rec.error = ("err", exc_name(e))
        v = est.value
        try:
            rec.value_again = complex(est.value)
        except Exception as e:  # noqa: BLE001
            rec.value_again = exc_name(e)
        return "ok", complex(v), rec, objs
    except Exception as e:  # noqa: BLE001 — behaviour of the real code
        return "err", exc_name(e), rec, objs


def canon_spec(spec):
    return json.dumps(spec, sort_keys=True, default=str)


def analyse(ctx: Ctx, spec, mode, reqs1, pend):
    """run the real code on one case, check the property on the real behaviour (oracle), queue model requests"""
    from quri_parts.core.operator import PAULI_IDENTITY

    from oracle import c08ideal

    st, val, rec, objs = build_and_run(spec)
    op = objs["op"]
    n = spec["n"]
    ctx.count("factory", spec["factory"]["kind"])
    ctx.count("est_allocator", spec["alloc"]["kind"])
    ctx.count("sampler", spec["sampler"])
    ctx.count("real_outcome", "ok" if st == "ok" else val)
    ctx.count("route", spec.get("route") or "direct")
    ctx.count("forms", "state=" + spec.get("sform", "general"))
    ctx.count("forms", "factory_ret=" + spec["factory"].get("ret", "list"))
    ctx.count("forms", "group_object=" + (spec["factory"].get("gform") or "tuple"))
    ctx.count("forms", "sampler_ret=" + spec.get("sret", "list"))
    if spec["factory"]["kind"] == "list":
        ctx.count("forms", "meas_circuit=" + spec["factory"].get("mcform", "tuple"))
    if spec.get("wide"):
        ctx.count("forms", f"wide n={spec['n']}")
    if rec.error is not None:
        ctx.count("error_read_first", rec.error[0] if rec.error[0] == "ok" else rec.error[1])
    if st == "ok" and rec.value_again is not None and not (isinstance(rec.value_again, complex) and (
            rec.value_again == val or (rec.value_again != rec.value_again and val != val))):
        ctx.disagree("estimate:value-not-stable", spec, f"second read {rec.value_again}", f"first read {val}")
    # numbering of labels: identity 0, others by first appearance in the operator
    ids = {PAULI_IDENTITY: 0}
    for lbl in op:
        if lbl not in ids:
            ids[lbl] = len(ids)
    info = {"spec": spec, "status": st, "value": val, "rec": rec, "ids": ids, "op": op, "objs": objs}
    ms = rec.measurements
    sampled = len(op) > 0 and not (len(op) == 1 and PAULI_IDENTITY in op)
    if ms is None and sampled and not (st == "err" and val == "AssertionError"):
        ctx.disagree("estimate:measurement-factory-not-called", spec, str((st, val)), "a non-constant operator is grouped, allocated and sampled")
    if ms is not None and not sampled:
        ctx.disagree("estimate:constant-operator-sampled", spec, "measurement factory called", "constant / empty operator returns without sampling")
    if ms is None:
        # constant / empty operator (or the factory was never reached)
        if not sampled and st == "ok":
            want_c = complex(op.get(PAULI_IDENTITY, 0.0))
            if abs(complex(val) - want_c) > 1e-12 * (1 + abs(want_c)):
                ctx.witness("sampling_estimate.value", "constant / identity-only observable: the estimate is not the identity coefficient", spec,
                            {"real": str(val), "demanded": str(want_c)})
        info["groups"] = []
        info["shots_field"] = ""
        pend.append(info)
        return info
    for m in ms:
        for lbl in m.pauli_set:
            if lbl not in ids:
                ids[lbl] = len(ids)
    filt = [m for m in ms if set(m.pauli_set) != {PAULI_IDENTITY}]
    info["filt"] = filt
    nG = len(filt)
    total, unit = spec["total"], spec["alloc"]["unit"]
    akind = spec["alloc"]["kind"]
    # --- allocation: order the allocator iterated in, weights by the documented formula
    order = None
    if rec.alloc_in is not None:
        fsets = [m.pauli_set for m in filt]
        try:
            order = [fsets.index(s) for s in rec.alloc_in]
        except ValueError:
            order = None
        if order is None or sorted(order) != list(range(nG)):
            ctx.disagree("distribute:groups-passed-to-allocator", spec, f"{len(rec.alloc_in)} sets", f"the {nG} distinct non-identity groups")
            order = None
    info["order"] = order
    fws = [spec_weight([op[lbl] for lbl in m.pauli_set if lbl in op]) for m in filt]
    info["fws"] = fws
    real_alloc = None
    if rec.alloc_out is not None:
        got = {}
        for stg in rec.alloc_out:
            got[stg.pauli_set] = stg.n_shots
        if len(rec.alloc_out) != nG or set(got) != set(m.pauli_set for m in filt):
            ctx.witness("allocator.one-per-group", "allocations do not correspond one-to-one to the non-identity groups", spec,
                        {"allocations": len(rec.alloc_out), "groups": nG})
        if order is not None:
            real_alloc = [got.get(filt[g].pauli_set, 0) for g in order]  # in iteration order
        info["real_alloc_by_group"] = [got.get(m.pauli_set, 0) for m in filt]
        if akind != "fixed":
            d = budget_defect(info["real_alloc_by_group"], nG, total, unit)
            if d:
                ctx.witness(f"allocator.budget:{akind}", f"allocator inside sampling_estimate violates the budget law: {d}", spec,
                            {"allocation": info["real_alloc_by_group"]})
    info["real_alloc"] = real_alloc
    if order is not None:
        nums = common_numerators([fws[g] for g in order]) if nG else []
        wtxt = ",".join(map(str, nums))
        if akind == "equi":
            reqs1.append(f"c08alloc equi | {nG} | {total} | {unit}")
            info["alloc_req"] = len(reqs1) - 1
        elif akind == "prop":
            reqs1.append(f"c08alloc prop | {wtxt} | {total} | {unit}")
            info["alloc_req"] = len(reqs1) - 1
        elif akind == "wr":
            reqs1.append(f"c08alloc wrcheck | {wtxt} | {total} | {unit} | {','.join(map(str, real_alloc or []))}")
            info["alloc_req"] = len(reqs1) - 1
        if real_alloc is not None:
            reqs1.append(f"c08dist {nG} | {','.join(map(str, order))} | {','.join(map(str, real_alloc))}")
            info["dist_req"] = len(reqs1) - 1
    # --- requests made to the sampler: the budget law on what was actually requested
    if rec.pairs is not None and akind != "fixed":
        shots = [s for _, s, _ in rec.pairs]
        bad = None
        if len(shots) > nG:
            bad = f"{len(shots)} circuits requested for {nG} groups"
        elif any(type(s) is not int or s < 0 for s in shots):
            bad = f"requested shot counts {shots}"
        elif unit > 0 and any(s % unit for s in shots):
            bad = f"requested shots {shots} not multiples of {unit}"
        elif sum(shots) > total:
            bad = f"requested {sum(shots)} shots with a budget of {total}"
        if bad:
            ctx.witness("sampling_estimate.budget", bad, spec, {"requested": shots})
    # --- … and completeness: whatever the batching, the sampler is asked exactly once for every group that received shots, with that
    #     group's shots (otherwise some group is not "evaluated from the counts of its own measurement circuit")
    if rec.pairs is not None and info.get("real_alloc_by_group") is not None and rec.alloc_exc is None:
        want_shots = sorted(x for x in info["real_alloc_by_group"] if isinstance(x, numbers.Integral) and x > 0)
        got_shots = sorted(x for _, x, _ in rec.pairs if isinstance(x, numbers.Integral))
        if want_shots != got_shots:
            ctx.witness("sampling_estimate.requests", f"{len(want_shots)} groups received shots ({sum(want_shots)} in total) but the sampler was asked "
                        f"for {len(rec.pairs)} circuits ({sum(got_shots)} shots) in {rec.sampler_calls} call(s)", spec,
                        {"groups_with_shots": len(want_shots), "requested": len(rec.pairs)})
        else:
            # content: the i-th group's circuit is the state's circuit followed by the group's measurement circuit (multiset comparison)
            sg = state_gates_of(spec, objs)
            exp = sorted((repr(sg + mc_gates(m.measurement_circuit)), x) for m, x in zip(filt, info["real_alloc_by_group"]) if x > 0)
            got = sorted((repr(list(g)), x) for g, x, _ in rec.pairs)
            if exp != got:
                ctx.disagree("pairs:content", spec, f"{len(got)} requests", "state circuit + measurement circuit of each group with shots, with its shots")
    # --- the property on the real behaviour: ideal sampling ⇒ exact value
    if spec["sampler"] == "ideal" and info.get("real_alloc_by_group") is not None and rec.pairs is not None:
        shots_g = info["real_alloc_by_group"]
        # every requested circuit must be state + measurement circuit of a group with shots; otherwise "its own circuit" is undefined
        items = [([tuple(x) for x in sorted(lbl)], op[lbl]) for lbl in op]
        items = [([(q, int(p)) for q, p in lab], c) for lab, c in items]
        groups = [[[(q, int(p)) for q, p in sorted(lbl)] for lbl in m.pauli_set] for m in filt]
        if spec.get("wide"):
            try:
                want = prod_demanded(objs["circ"].gates, items, groups, shots_g)
            except OracleLimit:
                rec.oracle_limit = True
                want = 0j
        else:
            want = c08ideal.demanded_value(n, objs["circ"].gates, items, groups, shots_g)
        scale = 1.0 + sum(abs(complex(c)) for c in op.values())
        info["want"] = want
        info["scale"] = scale
        zero_before_pos = any(shots_g[i] == 0 and any(s > 0 for s in shots_g[i + 1:]) for i in range(nG))
        info["zero_before_pos"] = zero_before_pos
        if rec.oracle_limit:
            ctx.count("oracle_limit")
        elif st == "err":
            info["raise_witnessed"] = True
            ctx.witness("sampling_estimate.raises", f"ideal sampling, real code raises {val}", spec, {"demanded": str(want)})
        elif not abs(val - want) <= ORACLE_RTOL * scale:
            info["oracle_mismatch"] = True
    pend.append(info)
    return info


def enc_counts(d) -> str:
    if not d:
        return "-"
    return ",".join(f"{int(k)}:{fr_s(frac(v))}" for k, v in d.items())


def est_request(info, mode, shots_field) -> str:
    spec, rec, ids, op = info["spec"], info["rec"], info["ids"], info["op"]
    optxt = ",".join(f"{ids[lbl]}:{fr_s(frac(complex(c).real))}:{fr_s(frac(complex(c).imag))}" for lbl, c in op.items())
    ms = rec.measurements or []
    gtxt = ";".join(",".join(str(ids[lbl]) for lbl in m.pauli_set) for m in ms)
    delivered = rec.delivered or []
    keys = sorted({int(k) for d in delivered for k in d})
    tab = []
    for gi, m in enumerate(ms):
        for lbl in m.pauli_set:
            r = m.pauli_reconstructor_factory(lbl)
            for k in keys:
                tab.append(f"{gi}:{ids[lbl]}:{k}:{int(r(k))}")
    dtxt = ";".join(enc_counts(d) for d in delivered)
    return f"c08est {mode} | {optxt} | {gtxt} | {shots_field} | {','.join(tab) if tab else '-'} | {dtxt}"


def check_recon(ctx, info):
    """validate the assumed reconstructor semantics: sign = parity of the measured bits on the support"""
    rec = info["rec"]
    for m in rec.measurements or []:
        for lbl in m.pauli_set:
            mask = 0
            for q, _ in lbl:
                mask |= 1 << q
            r = m.pauli_reconstructor_factory(lbl)
            fq = info["spec"]["factory"].get("flip")
            fm = (1 << fq) if fq is not None else 0  # the flipped-outcome factory: parity of the un-flipped bits
            nq = info["spec"]["n"]
            ks = range(1 << nq) if nq <= 6 else sorted({int(k) for d in (rec.delivered or []) for k in d} | {0, (1 << nq) - 1})
            for k in ks:
                if int(r(k)) != (1 if bin((k ^ fm) & mask).count("1") % 2 == 0 else -1):
                    ctx.disagree("reconstructor-semantics", str(lbl), int(r(k)), "parity on support")
                    return


def finish_cases(ctx: Ctx, mode, reqs1, pend):
    resp1 = ctx.driver(reqs1, entry=ENTRY) if reqs1 else []
    reqs2, who = [], []
    for info in pend:
        spec, rec = info["spec"], info["rec"]
        akind = spec["alloc"]["kind"]
        total, unit = spec["total"], spec["alloc"]["unit"]
        shots_field = info.get("shots_field")
        if shots_field is None:
            shots_field = ""
            order = info.get("order")
            model_alloc_err = None
            if "alloc_req" in info:
                r = resp1[info["alloc_req"]]
                ctx.traces += 1
                what = f"estimate:alloc:{akind}"
                if akind == "wr":
                    if r.startswith("err "):
                        model_alloc_err = r[4:].strip()
                        if rec.alloc_exc != model_alloc_err:
                            ctx.disagree(what, spec, f"raises {rec.alloc_exc}" if rec.alloc_exc else str(info.get("real_alloc")), r)
                    elif rec.alloc_exc:
                        ctx.disagree(what, spec, f"raises {rec.alloc_exc}", r)
                    elif r != "ok 1":
                        ctx.disagree(what + ":admissible", spec, str(info.get("real_alloc")), "not an admissible multinomial allocation")
                else:
                    model = parse_r(r)
                    if model[0] == "err":
                        model_alloc_err = model[1]
                        if rec.alloc_exc != model_alloc_err:
                            ctx.disagree(what, spec, f"raises {rec.alloc_exc}" if rec.alloc_exc else str(info.get("real_alloc")), r)
                    elif rec.alloc_exc:
                        ctx.disagree(what, spec, f"raises {rec.alloc_exc}", r)
                    elif info.get("real_alloc") is not None:
                        if akind == "prop":
                            compare_prop(ctx, what, spec, info["real_alloc"], model[1], [info["fws"][g] for g in order], total, unit)
                        elif info["real_alloc"] != model[1]:
                            ctx.disagree(what, spec, str(info["real_alloc"]), str(model[1]))
            if model_alloc_err:
                shots_field = "err " + model_alloc_err
            elif rec.alloc_exc and akind == "fixed":
                shots_field = "err " + rec.alloc_exc
            elif "dist_req" in info:
                d = parse_r(resp1[info["dist_req"]])
                ctx.traces += 1
                if d[0] == "err":
                    shots_field = "err " + d[1]
                else:
                    shots_field = ",".join(map(str, d[1]))
                    if rec.shots_map is not None:
                        real_sm = [rec.shots_map.get(m.pauli_set) for m in info["filt"]]
                        if real_sm != d[1] or len(rec.shots_map) != len(info["filt"]):
                            ctx.disagree("distribute:shots_map", spec, str(real_sm), str(d[1]))
            else:
                info["skip_est"] = True
        if info.get("skip_est"):
            ctx.case(canon_spec(spec), nontrivial=False)
            continue
        reqs2.append(est_request(info, mode, shots_field))
        who.append(info)
    resp2 = ctx.driver(reqs2, entry=ENTRY) if reqs2 else []
    for info, r in zip(who, resp2):
        spec, rec, st, val = info["spec"], info["rec"], info["status"], info["value"]
        if r == "bad-request":
            raise InfraError("C08 driver rejected an est request: " + est_request(info, mode, "")[:300])
        ctx.traces += 1
        ptxt, vtxt = r.split(" value=")
        ptxt = ptxt[len("pairs="):]
        model_pairs = [tuple(map(int, x.split(":"))) for x in ptxt.split(",")] if ptxt else []
        nontrivial = bool(model_pairs)
        ctx.case(canon_spec(spec), nontrivial=nontrivial,
                 sample={"n": spec["n"], "op_terms": len(spec["op"]), "factory": spec["factory"]["kind"], "allocator": spec["alloc"],
                         "total": spec["total"], "model": r[:120], "real": str((st, val))[:80]})
        # pairing: the requested (circuit, shots) list
        if rec.pairs is not None:
            filt = info.get("filt", [])
            # the preparation circuit the state object itself reports (a computational-basis state folds Pauli gates into its bits,
            # which is another property's subject); the VALUE is judged against the harness' own circuit `circ`
            state_gates = list(info["objs"]["circ"].gates)
            if spec.get("route") != "general_param":
                try:
                    state_gates = list(info["objs"]["state"].circuit.gates)
                except Exception:  # noqa: BLE001
                    pass
            if len(model_pairs) != len(rec.pairs):
                ctx.disagree("pairs:length", spec, [(len(g), s) for g, s, _ in rec.pairs], model_pairs)
            else:
                for (gi, s), (gates, rs, qc) in zip(model_pairs, rec.pairs):
                    exp_gates = state_gates + mc_gates(filt[gi].measurement_circuit) if gi < len(filt) else None
                    if rs != s or gates != exp_gates or qc != spec["n"]:
                        ctx.disagree("pairs:circuit-or-shots", spec, f"shots {rs}, {len(gates)} gates", f"group {gi} shots {s}")
                        break
        elif model_pairs and st == "ok":
            ctx.disagree("pairs:sampler-not-called", spec, "sampler not called", model_pairs)
        # value
        scale = 1.0 + sum(abs(complex(c)) for c in info["op"].values())
        agree = False
        if vtxt.startswith("err "):
            if (st, val) != ("err", vtxt[4:].strip()):
                ctx.disagree("value", spec, str((st, val)), vtxt)
            else:
                agree = True
        else:
            parts = vtxt[3:].split(" ")
            mv = complex(float(Fraction(parts[0])), float(Fraction(parts[1])))
            if st != "ok" or not abs(mv - val) <= MODEL_RTOL * scale:
                ctx.disagree("value", spec, str((st, val)), str(mv))
                if st == "err" and spec["sampler"] == "ideal" and not info.get("raise_witnessed"):
                    # the allocation succeeded and exact, non-empty frequencies were (or would have been) delivered: the model returns
                    # a value, the real code raises before / while sampling
                    ctx.witness("sampling_estimate.raises", f"ideal sampling, real code raises {val} where the estimate is defined", spec,
                                {"model_value": str(mv), "group_object": spec["factory"].get("gform")})
            else:
                agree = True
        if info.get("oracle_mismatch"):
            if mode == "all" and info.get("zero_before_pos") and agree:
                ctx.count("f2_hits")
                ctx.witness(KEY_F2, "ideal sampling, a zero-shot group precedes a sampled group: estimate is mispaired", spec,
                            {"real": str(val), "demanded": str(info["want"]), "shots_per_group": info["real_alloc_by_group"]})
            else:
                ctx.witness("sampling_estimate.value", "ideal sampling but the estimate is not the demanded value", spec,
                            {"real": str(val), "demanded": str(info["want"]), "shots_per_group": info.get("real_alloc_by_group")})
        if spec["sampler"] == "ideal":
            check_recon(ctx, info)


def detect_mode(ctx: Ctx) -> str:
    """Replay the witness of `pairing_counterexample` on the real code.  11 → the unchanged pairing (finding F2,
    model `PairMode.all`); 20 → the repaired pairing (`PairMode.positive`).  Every other case must then agree with that model."""
    st, val, rec, _ = build_and_run(F2_CASE)
    shots = [s for _, s, _ in (rec.pairs or [])]
    ctx.extra["f2_witness_replay"] = {"status": st, "value": str(val), "requested_shots": shots}
    if st == "ok" and abs(val - 11.0) < 1e-9:
        ctx.witness(KEY_F2, "10·Z0 + 1·X0 + 10·X1 on H(1)|00>, groups {Z0},{X0},{X1}, 3 shots proportional → [1,0,1]; ideal sampler; "
                    "demanded 20, sampling_estimate returns 11 (X0 evaluated on the counts of the X1 circuit, X1 dropped)", F2_CASE,
                    {"real": str(val), "demanded": "20", "lean": "QV.Props.C08.pairing_counterexample"})
        return "all"
    if st == "ok" and abs(val - 20.0) < 1e-9:
        ctx.notes.append("the F2 witness evaluates to the demanded value 20: pairing repaired, model PairMode.positive used")
        return "positive"
    ctx.disagree("f2-witness-replay", F2_CASE, str((st, val)), "11 (PairMode.all) or 20 (PairMode.positive)")
    return "all"


def exhaustive_pairing_cases():
    """every shot pattern in {0,1,2}^k for k ≤ 4 individually measured Paulis, fixed allocator"""
    labs = [[[0, 3]], [[0, 1]], [[1, 3]], [[1, 2]]]
    coefs = [2.0, -1.5, 0.75, 3.0]
    out = []
    for k in range(1, 5):
        for pat in itertools.product([0, 1, 2], repeat=k):
            for state in ([["H", [0]], ["CNOT", [0, 1]]], [["H", [1]], ["S", [1]], ["X", [0]]]):
                out.append({"n": 2, "state": state, "dyadic": True,
                            "op": [[labs[i], [coefs[i], 0.0]] for i in range(k)] + [[[], [0.5, 0.25]]],
                            "factory": {"kind": "list", "groups": [[labs[i]] for i in range(k)]},
                            "alloc": {"kind": "fixed", "unit": 1, "seed": 0, "shots": list(pat)}, "total": sum(pat),
                            "sampler": "ideal", "sseed": 0})
    return out


def k_estimator(ctx: Ctx, mode: str, n_cases: int, with_model: bool = True):
    rng = ctx.rng
    specs = []
    for f in sorted(glob.glob(os.path.join(VERIF, "corpus", "C08", "*.json"))):
        with open(f) as fh:
            specs.append(json.load(fh))
    specs.append(F2_CASE)
    specs += [gen_case(rng, wide=rng.random() < 0.12) for _ in range(n_cases)]
    if not ctx.quick() and with_model:
        ex = exhaustive_pairing_cases()
        specs += ex
        ctx.extra["exhaustive_pairing_scope"] = f"{len(ex)} cases: all shot patterns in {{0,1,2}}^k, k<=4 groups, 2 states, fixed allocator"
    reqs1, pend = [], []
    for spec in specs:
        analyse(ctx, spec, mode, reqs1, pend)
    if with_model:
        finish_cases(ctx, mode, reqs1, pend)
    else:
        for info in pend:
            ctx.case(canon_spec(info["spec"]), nontrivial=True)
            if info.get("oracle_mismatch"):
                key = KEY_F2 if (mode == "all" and info.get("zero_before_pos")) else "sampling_estimate.value"
                ctx.witness(key, "ideal sampling but the estimate is not the demanded value", info["spec"],
                            {"real": str(info["value"]), "demanded": str(info["want"])})


# ---------------------------------------------------------------------------
# K2b: SIZE thresholds — the number of groups that receive shots around 1, 2, 64, 100, 128, 150, 200, 256, 1000+
# ---------------------------------------------------------------------------
SIZE_BANDS = [[1, 2, 3], [63, 64, 65], [99, 100, 101], [127, 128, 129], [150, 170], [199, 200, 201], [255, 256, 257], [300, 511, 1000, 1023]]


def gen_size_case(rng, size):
    """an operator with `size` distinct non-identity Pauli terms measured one group per term (the library's individual measurement or a
    hand-made factory), every group receiving at least one shot, exact-frequency sampler, any entry point / argument form"""
    need = 1
    while 4**need - 1 < size:
        need += 1
    n = rng.choice([q for q in (4, 5, 6) if q >= need] or [need])
    if size > 300:
        n = max(need, 5)
    codes = rng.sample(range(1, 4**n), size)
    terms = []
    for code in codes:
        q, pl = 0, []
        while code:
            if code % 4:
                pl.append([q, code % 4])
            code //= 4
            q += 1
        terms.append([pl, [rng.choice([-1, 1]) * rng.randint(4, 8) / 4, 0.0]])
    if rng.random() < 0.5:
        terms.insert(rng.randint(0, len(terms)), [[], [rng.randint(-8, 8) / 4, 0.0]])
    fk = rng.choice(["individual", "list"])
    fac = {"kind": fk, "ret": rng.choice(["list", "tuple", "gen"]), "gform": rng.choice(GFORMS)}
    if fk == "list":
        groups = [[t[0]] for t in terms if t[0]]
        rng.shuffle(groups)
        if any(not t[0] for t in terms) and rng.random() < 0.7:
            groups.insert(rng.randint(0, len(groups)), [[]])
        fac.update({"groups": groups, "own_recs": rng.random() < 0.5, "flip": rng.randrange(n) if rng.random() < 0.3 else None,
                    "mcform": rng.choice(["tuple", "list", "circuit"])})
    ak = rng.choice(["equi", "prop", "fixed"]) if fk == "list" else rng.choice(["equi", "prop"])
    al = {"kind": ak, "unit": rng.choice([1, 1, 2]), "seed": 1}
    if ak == "equi":
        total = size * al["unit"] * rng.randint(1, 3) + rng.randint(0, al["unit"] * size - 1) % max(size, 1)
    elif ak == "prop":
        total = 40 * size * al["unit"]  # coefficients within a factor 2: every ratio ≥ 1/(2·size)
    else:
        al["shots"] = [rng.choice([1, 1, 2, 3]) for _ in range(size)]
        al["ret"] = rng.choice(["frozenset", "list", "tuple"])
        al["unit"] = 1
        total = sum(al["shots"])
    spec = {"n": n, "state": gen_state(rng, n, True), "dyadic": True, "op": terms, "factory": fac, "alloc": al, "total": total,
            "sampler": "ideal", "sseed": 0, "bare": False, "big": size,
            "route": rng.choice(["direct", "default", "keyword", "estimator", "concurrent", "cc_estimator", "general", "general_seq", "manual"]),
            "sform": rng.choice(["general", "cb_gates"]), "sret": rng.choice(["list", "tuple", "gen"]), "prepret": rng.choice(["asis", "gen"]),
            "intcoef": False, "err_first": False}
    if spec["sform"] != "general":
        spec["bits"] = rng.getrandbits(n)
    return spec


def run_size_case(ctx: Ctx, spec, mode="positive"):
    """judged by the oracle alone (the demanded value from the state vector, the requests against the allocation); the Lean model's
    reconstructor tables would have size·2^n entries"""
    reqs1, pend = [], []
    info = analyse(ctx, spec, mode, reqs1, pend)
    rec = info["rec"]
    n_shot = len([x for x in info.get("real_alloc_by_group") or [] if x > 0])
    ctx.case(("size", canon_spec(spec)), nontrivial=info["status"] == "ok")
    ctx.count("size_groups_with_shots", str(n_shot))
    ctx.count("size_sampler_calls", str(rec.sampler_calls))
    if n_shot != spec["big"]:
        ctx.count("size_cases_not_all_groups_sampled")
    if info.get("oracle_mismatch"):
        ctx.witness("sampling_estimate.value", f"ideal sampling, {n_shot} groups received shots: the estimate is not the demanded value", spec,
                    {"real": str(info["value"]), "demanded": str(info["want"]), "groups_with_shots": n_shot, "requested_circuits": len(rec.pairs or [])})


def k_sizes(ctx: Ctx):
    rng = ctx.rng
    if ctx.quick():
        sizes = [x for b in SIZE_BANDS[:7] for x in rng.sample(b, 2)] + [rng.choice([300, 511]), rng.choice([1000, 1023])]
    else:
        sizes = [x for b in SIZE_BANDS for x in b] + [rng.randint(101, 199) for _ in range(4)] + [rng.randint(201, 999) for _ in range(4)] + [1500, 2047, 4095]
    ctx.extra["size_thresholds"] = sorted(sizes)
    for size in sizes:
        run_size_case(ctx, gen_size_case(rng, size))


def k_glue(ctx: Ctx, n_cases: int):
    """public entry points around the core: create_sampling_estimator, concurrent_sampling_estimate — same values as the direct route"""
    from quri_parts.core.estimator.sampling import concurrent_sampling_estimate

    rng = ctx.rng
    for _ in range(n_cases):
        spec = gen_case(rng)
        spec["sampler"] = "ideal"
        spec["route"] = None
        a = build_and_run(spec, "direct")
        b = build_and_run(spec, "estimator")
        ctx.traces += 1
        ctx.case(("glue", canon_spec(spec)), nontrivial=a[0] == "ok")
        same = a[0] == b[0] and (a[1] == b[1] if a[0] == "err" else abs(a[1] - b[1]) <= 1e-12 * (1 + abs(a[1])))
        if not same:
            ctx.disagree("glue:create_sampling_estimator", spec, str(b[:2]), str(a[:2]))
        # concurrent: one operator, the same state twice
        _, _, _, o = build_and_run(spec, "direct")
        try:
            res = list(concurrent_sampling_estimate([o["op"]], [o["state"], o["state"]], spec["total"], o["sampler"], o["factory"], o["allocator"]))
            c = ("ok", [complex(r.value) for r in res])
        except Exception as e:  # noqa: BLE001
            c = ("err", exc_name(e))
        if spec["alloc"]["kind"] != "wr":  # the weighted-random allocator is stateful: the second call draws again
            okc = (c[0] == a[0] == "err" and c[1] == a[1]) or (
                c[0] == a[0] == "ok" and len(c[1]) == 2 and all(abs(x - a[1]) <= 1e-12 * (1 + abs(a[1])) for x in c[1]))
            if not okc:
                ctx.disagree("glue:concurrent_sampling_estimate", spec, str(c)[:200], str(a[:2]))
            # the remaining public entry points: create_sampling_concurrent_estimator, create_general_sampling_estimator
            from quri_parts.core.estimator.sampling import create_general_sampling_estimator, create_sampling_concurrent_estimator

            for nm, call in (
                ("create_sampling_concurrent_estimator",
                 lambda: [complex(r.value) for r in create_sampling_concurrent_estimator(spec["total"], o["sampler"], o["factory"], o["allocator"])(
                     [o["op_arg"]], [o["state"]])]),
                ("create_general_sampling_estimator",
                 lambda: [complex(create_general_sampling_estimator(spec["total"], o["sampler"], o["factory"], o["allocator"])(o["op_arg"], o["state"]).value)]),
            ):
                try:
                    g = ("ok", call())
                except Exception as e:  # noqa: BLE001
                    g = ("err", exc_name(e))
                okg = (g[0] == a[0] == "err" and g[1] == a[1]) or (
                    g[0] == a[0] == "ok" and len(g[1]) == 1 and abs(g[1][0] - a[1]) <= 1e-12 * (1 + abs(a[1])))
                ctx.count("glue", nm + (":ok" if okg else ":DIFF"))
                if not okg:
                    ctx.disagree("glue:" + nm, spec, str(g)[:200], str(a[:2]))
                    if g[0] == "ok" and a[0] == "ok":
                        ctx.witness("sampling_estimate.value", f"{nm} returns another value than sampling_estimate on the same ideal sampler", spec,
                                    {"entry_point": str(g[1]), "direct": str(a[1])})


def _counts_form(form, d):
    import collections
    import types

    if form == "counter":
        c = collections.Counter()
        for k, v in d.items():
            c[k] = v
        return c
    if form == "proxy":
        return types.MappingProxyType(dict(d))
    if form == "ordered":
        return collections.OrderedDict(d)
    return dict(d)


def gen_counts(rng, n, wide, support):
    """count mappings: small integers / dyadics / empty / all-zero, and NEARLY BALANCED ones — outcome pairs that differ in one qubit of
    the Pauli's support carry almost equal counts, so the expectation is tiny (1e-15 … 1e-6, either sign) but not zero: as exact integers
    (< 2^53, every float operation of the real code is exact) or as float-valued counts of the kind an exact-frequency sampler returns.
    returns (kind, {key: count})"""
    kind = rng.choice(["int", "int", "dyadic", "empty", "zero", "imb_int", "imb_int", "imb_float", "imb_float"])
    if kind == "empty":
        return kind, {}
    if kind.startswith("imb") and support:
        counts = {}
        base = rng.choice([10**6, 10**9, 2**40, 10**12, 5 * 10**14])
        for _ in range(rng.randint(1, 3)):
            k = rng.getrandbits(n)
            k2 = k ^ (1 << rng.choice(support))
            if k in counts or k2 in counts:
                continue
            if kind == "imb_int":
                counts[k], counts[k2] = base + rng.randint(-3, 3), base + rng.randint(-3, 3)
            else:
                eps = rng.choice([-1, 1]) * 10 ** rng.uniform(-12, -6)
                shots = float(rng.choice([100, 1000, 4096, 10**6]))
                counts[k], counts[k2] = shots * (0.5 + eps / 2), shots * (0.5 - eps / 2)
        return kind, counts
    if kind.startswith("imb"):
        kind = "int"
    keys = list({rng.getrandbits(n) for _ in range(rng.randint(1, 6))}) if wide else rng.sample(range(1 << n), rng.randint(1, 1 << n))
    return kind, {k: (0 if kind == "zero" else rng.randint(0, 50) if kind == "int" else rng.randint(0, 64) / 8) for k in keys}


def _sign(k, mask):
    return 1 if bin(k & mask).count("1") % 2 == 0 else -1


def k_pauli(ctx: Ctx, n_cases: int):
    """general_pauli_expectation_estimator / trivial_pauli_expectation_estimator alone, arbitrary (non-ideal) count mappings, keys of any
    width, the library's reconstructor or an arbitrary one"""
    from quri_parts.core.estimator.sampling import pauli as PM
    from quri_parts.core.measurement import bitwise_pauli_reconstructor_factory
    from quri_parts.core.operator import PAULI_IDENTITY, pauli_label

    rng = ctx.rng
    reqs, reals = [], []
    for _ in range(n_cases):
        wide = rng.random() < 0.15
        n = rng.choice([33, 64, 65, 70]) if wide else rng.randint(1, 4)
        act = sorted(rng.sample(sorted({0, 31, 32, 63, 64, n - 1} & set(range(n))), rng.randint(1, 3))) if wide else None
        p = gen_pauli(rng, n, act) if rng.random() < 0.9 else ()
        lbl = pauli_label(lab_str(p)) if p else PAULI_IDENTITY
        kind, counts = gen_counts(rng, n, wide, [q for q, _ in p])
        cform = rng.choice(["dict", "dict", "counter", "proxy", "ordered"])
        route = rng.choice(["general", "general", "trivial", "custom"])
        mask = 0
        for q, _ in p:
            mask |= 1 << q
        table = {k: _sign(k, mask) for k in counts}
        if route == "custom":  # any reconstructor: an arbitrary sign per outcome
            table = {k: rng.choice([1, -1]) for k in counts}
        arg = _counts_form(cform, counts)
        try:
            if route == "trivial":
                v = PM.trivial_pauli_expectation_estimator(arg, lbl)
            elif route == "custom":
                v = PM.general_pauli_expectation_estimator(arg, lbl, lambda pauli, _t=table: (lambda bits: _t[bits]))
            else:
                v = PM.general_pauli_expectation_estimator(arg, lbl, bitwise_pauli_reconstructor_factory)
            real = ("ok", float(v))
        except Exception as e:  # noqa: BLE001
            real = ("err", exc_name(e))
        tab = ",".join(f"{k}:{table[k]}" for k in counts) or "-"
        reqs.append(f"c08exp {1 if not p else 0} | {tab} | {enc_counts(counts)}")
        reals.append((real, lab_str(p), counts, route, cform, kind))
        ctx.count("pauli_exp_counts", kind)
        ctx.count("pauli_exp_route", route + ("/wide" if wide else ""))
    for (real, ls, counts, route, cform, kind), r in zip(reals, ctx.driver(reqs, entry=ENTRY)):
        ctx.traces += 1
        ctx.case(("exp", ls, str(sorted(counts.items())), route), nontrivial=bool(counts))
        inp = {"pauli": ls, "counts": counts, "entry": route, "counts_form": cform, "counts_kind": kind}
        if r.startswith("err "):
            if real != ("err", r[4:].strip()):
                ctx.disagree("pauli_expectation", inp, str(real), r)
        elif real[0] != "ok" or not abs(float(Fraction(r[3:])) - real[1]) <= 1e-12 * abs(float(Fraction(r[3:]))) + (
                FLOAT_COUNTS_ATOL if kind == "imb_float" else 1e-300):
            # relative to the size of the expectation itself: integer / dyadic counts are summed exactly by the real code
            ctx.disagree("pauli_expectation", inp, str(real), r)
            if real[0] == "ok":
                ctx.witness("pauli_expectation.value", "the Pauli expectation is not the count-weighted mean of the reconstructed signs", inp,
                            {"real": real[1], "demanded": str(Fraction(r[3:]))})


# ---------------------------------------------------------------------------
# K3b: general_pauli_sum_expectation_estimator alone (the per-group summand of the estimate)
# ---------------------------------------------------------------------------
def gen_pauli_sum_case(rng):
    wide = rng.random() < 0.15
    n = rng.choice([33, 64, 65, 70]) if wide else rng.randint(1, 4)
    act = sorted(rng.sample(sorted({0, 1, 31, 32, 63, 64, n - 1} & set(range(n))), rng.randint(1, 3))) if wide else None
    cand = []
    for _ in range(rng.randint(1, 6)):
        q = gen_pauli(rng, n, act)
        if q not in cand:
            cand.append(q)
    grp = greedy_groups(cand)[0]
    others = [q for q in cand if q not in grp]
    pset = [list(map(list, q)) for q in grp]
    if rng.random() < 0.25:
        pset.append([])  # the identity label inside the set
    coefs = []
    for q in pset:
        if rng.random() < 0.8:
            c = gen_coef(rng, True)
            coefs.append([q, [complex(c).real, complex(c).imag]])
    for q in others:  # labels only the coefficient mapping knows
        c = gen_coef(rng, True)
        coefs.append([list(map(list, q)), [complex(c).real, complex(c).imag]])
    if rng.random() < 0.3 and not any(not q for q, _ in coefs):
        coefs.append([[], [rng.randint(-4, 4) / 2, 0.0]])  # an identity coefficient that the set may or may not ask for
    rng.shuffle(coefs)
    kind, cd = gen_counts(rng, n, wide, sorted({qq for q in pset for qq, _ in q}))
    counts = [[k, v] for k, v in cd.items()]
    return {"kernel": "pauli_sum", "n": n, "set": pset, "coefs": coefs, "counts_kind": kind, "coef_form": rng.choice(["operator", "operator", "dict", "proxy"]),
            "counts": counts, "counts_form": rng.choice(["dict", "dict", "counter", "proxy"]),
            "set_form": rng.choice(["frozenset", "frozenset", "set", "list"]),
            "flip": (rng.choice(act) if act else rng.randrange(n)) if rng.random() < 0.3 else None}


def run_pauli_sum_case(ctx: Ctx, spec):
    import types

    from quri_parts.core.estimator.sampling import pauli as PM
    from quri_parts.core.measurement import bitwise_pauli_reconstructor_factory
    from quri_parts.core.operator import PAULI_IDENTITY, Operator, pauli_label

    def lab(q):
        return pauli_label(lab_str([tuple(x) for x in q])) if q else PAULI_IDENTITY

    labels = [lab(q) for q in spec["set"]]
    pset = {"frozenset": frozenset, "set": set, "list": list}[spec["set_form"]](labels)
    cm = {}
    for q, (re, im) in spec["coefs"]:
        cm[lab(q)] = complex(re, im) if im != 0 else re
    coefs = Operator(cm) if spec["coef_form"] == "operator" else types.MappingProxyType(cm) if spec["coef_form"] == "proxy" else cm
    counts = {int(k): v for k, v in spec["counts"]}
    fm = (1 << spec["flip"]) if spec["flip"] is not None else 0
    if fm:
        def rf(pauli):
            r0 = bitwise_pauli_reconstructor_factory(pauli)
            return lambda bits: r0(bits ^ fm)
    else:
        rf = bitwise_pauli_reconstructor_factory
    try:
        real = ("ok", complex(PM.general_pauli_sum_expectation_estimator(_counts_form(spec["counts_form"], counts), pset, coefs, rf)))
    except Exception as e:  # noqa: BLE001
        real = ("err", exc_name(e))
    # documented behaviour, restated with exact rationals: Σ over the labels in BOTH the set and the coefficient mapping of
    # c_P · (Σ_k sign_P(k)·n_k / Σ_k n_k); the identity label counts as 1; empty counts are rejected with ValueError as soon as one
    # expectation is needed; nothing to sum → 0
    both = [q for q in spec["set"] if any(q2 == q for q2, _ in spec["coefs"])]
    cdict = {json.dumps(q): c for q, c in spec["coefs"]}
    tot = sum((Fraction(v) for v in counts.values()), Fraction(0))
    term_tol = 1e-300
    if not both:
        want = ("ok", 0j)
    elif not counts:
        want = ("err", "ValueError")
    elif tot == 0 and any(q for q in both):
        want = ("err", None)  # division by a zero total: some exception, the class is not documented
    else:
        re_s, im_s = Fraction(0), Fraction(0)
        for q in both:
            cre, cim = cdict[json.dumps(q)]
            if q:
                mask = 0
                for qq, _ in q:
                    mask |= 1 << qq
                e = sum((Fraction(v) * _sign(k ^ fm, mask) for k, v in counts.items()), Fraction(0)) / tot
            else:
                e = Fraction(1)
            re_s += Fraction(cre) * e
            im_s += Fraction(cim) * e
            # each term is judged relative to ITS OWN size |c_P|·|⟨P⟩|
            term_tol += abs(complex(cre, cim)) * (1e-12 * abs(float(e)) + (FLOAT_COUNTS_ATOL if spec.get("counts_kind") == "imb_float" else 0.0))
        want = ("ok", complex(float(re_s), float(im_s)))
    ctx.traces += 1
    ctx.case(("psum", canon_spec(spec)), nontrivial=bool(both) and bool(counts))
    ctx.count("pauli_sum", f"{spec['coef_form']}/{spec['set_form']}/{'wide' if spec['n'] > 32 else 'small'}")
    scale = 1.0 + sum(abs(complex(*c)) for _, c in spec["coefs"])
    if want[0] == "err":
        bad = real[0] != "err" or (want[1] is not None and real[1] != want[1])
    else:
        bad = real[0] != "ok" or not abs(real[1] - want[1]) <= term_tol
    if bad:
        ctx.witness("pauli_sum.value", "general_pauli_sum_expectation_estimator is not Σ c_P·(count-weighted mean of the signs of P) over the "
                    "labels in both the set and the coefficient mapping", spec, {"real": str(real), "demanded": str(want)})


def k_pauli_sum(ctx: Ctx, n_cases: int):
    for _ in range(n_cases):
        run_pauli_sum_case(ctx, gen_pauli_sum_case(ctx.rng))


# ---------------------------------------------------------------------------
# K4b / K5: entry points that make SEVERAL estimates with the same sampler / factory / allocator objects
# ---------------------------------------------------------------------------
class Session:
    """shared sampler, measurement factory and allocator objects that log every call"""

    def __init__(self, fkind, akind, unit, flip=None, gform=None):
        from quri_parts.core.sampling import shots_allocator as SA

        self.fkind, self.flip, self.gform = fkind, flip, gform
        self.inner = {"equi": SA.create_equipartition_shots_allocator, "prop": SA.create_proportional_shots_allocator}[akind](unit)
        self.alog, self.slog, self.flog = [], [], 0

    def factory(self, o):
        import quri_parts.circuit as QC
        from quri_parts.core.measurement import (
            CommutablePauliSetMeasurementTuple,
            bitwise_commuting_pauli_measurement,
            bitwise_pauli_reconstructor_factory,
            individual_pauli_measurement,
        )

        self.flog += 1
        ms = list((bitwise_commuting_pauli_measurement if self.fkind == "bitwise" else individual_pauli_measurement)(o))
        if self.flip is None:
            return as_group_form(self.gform, ms)
        fm = 1 << self.flip

        def rf(pauli):
            r0 = bitwise_pauli_reconstructor_factory(pauli)
            return lambda bits: r0(bits ^ fm)

        # another valid measurement of the same groups: outcome bit `flip` inverted by an X, undone by the reconstructors
        return as_group_form(self.gform, [CommutablePauliSetMeasurementTuple(m.pauli_set, tuple(m.measurement_circuit) + (QC.X(self.flip),), rf)
                                          for m in ms])

    def allocator(self, o, pauli_sets, total):
        out = self.inner(o, pauli_sets, total)
        self.alog.append([st.n_shots for st in out])
        return out

    def sampler(self, pairs):
        from oracle import c08ideal

        pairs = list(pairs)
        self.slog.append([s for _, s in pairs])
        out = []
        for c, sh in pairs:
            try:
                out.append(c08ideal.ideal_counts(c.qubit_count, c.gates, sh, 30))
            except ValueError:
                out.append(c08ideal.ideal_counts(c.qubit_count, c.gates, sh, None))
        return out

    def all_groups_sampled(self):
        return all(a and min(a) > 0 for a in self.alog)


def gen_plain_terms(rng, n):
    """operator terms with moderate dyadic coefficients (every group gets shots under a generous budget), at least one non-identity"""
    terms, seen = [], set()
    for _ in range(rng.randint(1, 5)):
        q = gen_pauli(rng, n)
        if q in seen:
            continue
        seen.add(q)
        c = rng.choice([-1, 1]) * rng.randint(2, 16) / 4
        terms.append([list(map(list, q)), [c, rng.choice([0.0, 0.0, 0.0, 0.5, -1.25])]])
    if rng.random() < 0.5:
        terms.insert(rng.randint(0, len(terms)), [[], [rng.randint(-8, 8) / 4, 0.0]])
    return terms


def _mk_op(terms, into=None):
    from quri_parts.core.operator import PAULI_IDENTITY, Operator, pauli_label

    op = Operator() if into is None else into
    want = {}
    for q, (re, im) in terms:
        lbl = pauli_label(lab_str([tuple(x) for x in q])) if q else PAULI_IDENTITY
        want[lbl] = complex(re, im) if im != 0 else re
    for lbl in list(op.keys()):  # in-place update of a caller-owned operator object
        if lbl not in want:
            del op[lbl]
    for lbl, c in want.items():
        op[lbl] = c
    return op


def _mk_state(n, gates, form="general", bits=0):
    import quri_parts.circuit as QC
    from quri_parts.core.state import ComputationalBasisState, GeneralCircuitQuantumState

    gos = [getattr(QC, g[0])(*g[1]) for g in gates]
    oc = QC.QuantumCircuit(n)
    if form != "general":
        for q in range(n):
            if (bits >> q) & 1:
                oc.add_gate(QC.X(q))
    for go in gos:
        oc.add_gate(go)
    if form == "general":
        sc = QC.QuantumCircuit(n)
        for go in gos:
            sc.add_gate(go)
        return GeneralCircuitQuantumState(n, sc), list(oc.gates)
    return ComputationalBasisState(n, bits=bits).with_gates_applied(gos), list(oc.gates)


def exact_expectation(n, gates, terms):
    """⟨ψ|O|ψ⟩ straight from the state vector: the demanded value when every group received shots"""
    from oracle import c08ideal

    items = [([(q, int(i)) for q, i in t], complex(*c)) for t, c in terms]
    return c08ideal.demanded_value(n, gates, items, [[p for p, _ in items if p]], [1])


def gen_concurrent_case(rng):
    n = rng.randint(1, 3)
    shape = rng.choice(["Nx1", "1xN", "NxN", "NxN", "1x1", "mismatch", "no_op", "no_state"])
    k = rng.randint(2, 4)
    n_ops, n_states = {"Nx1": (k, 1), "1xN": (1, k), "NxN": (k, k), "1x1": (1, 1), "mismatch": (k, k + rng.choice([1, 2, -1]) if k > 2 else k + 1),
                       "no_op": (0, rng.randint(0, 2)), "no_state": (rng.randint(1, 2), 0)}[shape]
    return {"kernel": "concurrent", "n": n, "shape": shape,
            "ops": [gen_plain_terms(rng, n) for _ in range(n_ops)],
            "states": [{"gates": gen_state(rng, n, True), "form": rng.choice(["general", "general", "cb"]), "bits": rng.getrandbits(n)} for _ in range(n_states)],
            "entry": rng.choice(["function", "function", "function_kw", "created", "general"]),
            "container": rng.choice(["list", "list", "tuple"]),
            "fkind": rng.choice(["bitwise", "individual"]), "akind": rng.choice(["equi", "prop"]), "unit": rng.choice([1, 1, 2, 5]),
            "flip": rng.randrange(n) if rng.random() < 0.3 else None, "total": rng.choice([1000, 4096, 10000]), "gform": rng.choice(GFORMS)}


def run_concurrent_case(ctx: Ctx, spec):
    import quri_parts.core.estimator.sampling as ES

    n = spec["n"]
    ses = Session(spec["fkind"], spec["akind"], spec["unit"], spec.get("flip"), spec.get("gform"))
    ops = [_mk_op(t) for t in spec["ops"]]
    sts = [_mk_state(n, s["gates"], s["form"], s["bits"]) for s in spec["states"]]
    cont = list if spec["container"] == "list" else tuple
    o_arg, s_arg = cont(ops), cont(st for st, _ in sts)
    T = spec["total"]
    entry = spec["entry"]
    try:
        if entry == "function":
            res = ES.concurrent_sampling_estimate(o_arg, s_arg, T, ses.sampler, ses.factory, ses.allocator)
        elif entry == "function_kw":
            res = ES.concurrent_sampling_estimate(operators=o_arg, states=s_arg, total_shots=T, sampler=ses.sampler,
                                                  measurement_factory=ses.factory, shots_allocator=ses.allocator)
        elif entry == "created":
            res = ES.create_sampling_concurrent_estimator(T, ses.sampler, ses.factory, ses.allocator)(o_arg, s_arg)
        else:
            ge = ES.create_general_sampling_estimator(T, ses.sampler, ses.factory, ses.allocator)
            # the general estimator also takes a single operator / state next to a sequence
            if len(ops) == 1 and len(sts) > 1 and spec["shape"] == "1xN":
                res = ge(ops[0], s_arg)
            elif len(sts) == 1 and len(ops) > 1 and spec["shape"] == "Nx1":
                res = ge(o_arg, sts[0][0])
            else:
                res = ge(o_arg, s_arg)
        real = ("ok", [complex(r.value) for r in res])
    except Exception as e:  # noqa: BLE001
        real = ("err", exc_name(e))
    ctx.traces += 1
    ctx.case(("concurrent", canon_spec(spec)), nontrivial=real[0] == "ok")
    ctx.count("concurrent", f"{spec['shape']}/{entry}:{real[0] if real[0] == 'ok' else real[1]}")
    ctx.count("concurrent_group_object", spec.get("gform") or "tuple")
    n_ops, n_st = len(ops), len(sts)
    if n_ops == 0 or n_st == 0 or (n_ops > 1 and n_st > 1 and n_ops != n_st):
        # documented: "No operator specified." / "No state specified." / "Number of operators does not match number of states" → ValueError.
        # (an empty sequence handed to the general estimator is dispatched before that check and may fail differently)
        ok = real[0] == "err" and (real[1] == "ValueError" or entry == "general")
        if not ok or ses.slog:
            ctx.witness("concurrent_sampling_estimate.rejects", "operators / states that cannot be paired are not rejected with ValueError before sampling",
                        spec, {"real": str(real)[:200], "sampler_calls": len(ses.slog)})
        return
    m = max(n_ops, n_st)
    pairs = [(spec["ops"][i if n_ops > 1 else 0], sts[i if n_st > 1 else 0][1]) for i in range(m)]
    want = [exact_expectation(n, g, t) for t, g in pairs]
    if real[0] == "err":
        ctx.witness("concurrent_sampling_estimate.value", f"ideal sampling, the concurrent entry point raises {real[1]}", spec, {"demanded": str(want)})
        return
    if not ses.all_groups_sampled():
        ctx.count("concurrent", "skipped:zero-shot-group")
        return
    scale = 1.0 + max(sum(abs(complex(*c)) for _, c in t) for t in spec["ops"])
    if len(real[1]) != m or any(not abs(a - b) <= ORACLE_RTOL * scale for a, b in zip(real[1], want)):
        ctx.witness("concurrent_sampling_estimate.value", "ideal sampling, every group sampled: the i-th estimate is not the exact expectation of "
                    "the i-th operator on the i-th state (a single operator / state being shared by all)", spec,
                    {"real": str(real[1]), "demanded": str(want)})
    for shots in ses.slog:
        if sum(shots) > T or any((not isinstance(x, numbers.Integral)) or x < 0 or x % spec["unit"] for x in shots):
            ctx.witness("sampling_estimate.budget", f"requested shots {shots} with a budget of {T} per estimate, unit {spec['unit']}", spec, {"requested": shots})
            break


def k_concurrent(ctx: Ctx, n_cases: int):
    for _ in range(n_cases):
        run_concurrent_case(ctx, gen_concurrent_case(ctx.rng))


def gen_history_case(rng):
    """a sequence of estimates through the SAME estimator / sampler / factory / allocator objects; two estimators with different
    measurement factories for the same labels are interleaved; operator objects are re-used and updated in place between calls"""
    lazy = rng.random() < 0.4
    pool_n = rng.randint(1, 3)
    steps = []
    base_terms = {}
    for _ in range(rng.randint(3, 7)):
        n = rng.randint(1, 3)
        st = {"n": n, "gates": gen_state(rng, n, True), "form": rng.choice(["general", "general", "cb"]), "bits": rng.getrandbits(n),
              "est": rng.choice(["A", "A", "B"]), "via": rng.choice(["estimator", "estimator", "direct", "general"]), "obj": None}
        r = rng.random()
        if r < 0.35 and n in base_terms:
            # the same labels as an earlier operator on this width, other coefficients
            st["terms"] = [[q, [rng.choice([-1, 1]) * rng.randint(2, 16) / 4, 0.0]] for q, _ in base_terms[n]]
        else:
            st["terms"] = gen_plain_terms(rng, n)
            base_terms[n] = st["terms"]
        if not lazy and rng.random() < 0.5:
            st["obj"] = rng.randrange(pool_n)  # re-use (and update in place) a caller-owned operator object
        if rng.random() < 0.15 and len([t for t in st["terms"] if t[0]]) == 1 and not any(not t[0] for t in st["terms"]) and st["terms"][0][1] == [1.0, 0.0]:
            st["bare"] = True
        steps.append(st)
    return {"kernel": "history", "steps": steps, "lazy": lazy, "fkind": rng.choice(["bitwise", "individual"]), "akind": rng.choice(["equi", "prop"]),
            "unit": rng.choice([1, 1, 2]), "total": rng.choice([1000, 4096]), "order_seed": rng.randint(0, 10**6),
            "gformA": rng.choice(GFORMS), "gformB": rng.choice(GFORMS)}


def run_history_case(ctx: Ctx, spec):
    import random as _random

    import quri_parts.core.estimator.sampling as ES

    T = spec["total"]
    sesA = Session(spec["fkind"], spec["akind"], spec["unit"], None, spec.get("gformA"))
    sesB = Session(spec["fkind"], spec["akind"], spec["unit"], 0, spec.get("gformB"))  # flips outcome bit 0 and undoes it in its reconstructors
    made = {}

    def estimator(ses, via):
        key = (id(ses), via)
        if key not in made:
            if via == "estimator":
                made[key] = ES.create_sampling_estimator(T, ses.sampler, ses.factory, ses.allocator)
            elif via == "general":
                made[key] = ES.create_general_sampling_estimator(T, ses.sampler, ses.factory, ses.allocator)
            else:
                made[key] = lambda o, s: ES.sampling_estimate(o, s, T, ses.sampler, ses.factory, ses.allocator)
        return made[key]

    pool = {}
    ests, wants, scales = [], [], []
    status = None
    for st in spec["steps"]:
        ses = sesA if st["est"] == "A" else sesB
        if st["obj"] is not None:
            pool[st["obj"]] = op = _mk_op(st["terms"], into=pool.get(st["obj"]))
        else:
            op = _mk_op(st["terms"])
        state, gates = _mk_state(st["n"], st["gates"], st["form"], st["bits"])
        arg = next(iter(op)) if st.get("bare") else op
        wants.append(exact_expectation(st["n"], gates, st["terms"]))
        scales.append(1.0 + sum(abs(complex(*c)) for _, c in st["terms"]))
        try:
            e = estimator(ses, st["via"])(arg, state)
            ests.append(e if spec["lazy"] else complex(e.value))
        except Exception as ex:  # noqa: BLE001
            status = exc_name(ex)
            break
    vals = []
    if status is None:
        if spec["lazy"]:
            # the estimates are read later, in another order than they were made
            order = list(range(len(ests)))
            _random.Random(spec["order_seed"]).shuffle(order)
            vals = [None] * len(ests)
            try:
                for i in order:
                    vals[i] = complex(ests[i].value)
            except Exception as ex:  # noqa: BLE001
                status = exc_name(ex)
        else:
            vals = ests
    ctx.traces += 1
    ctx.case(("history", canon_spec(spec)), nontrivial=status is None)
    ctx.count("history", f"{'lazy' if spec['lazy'] else 'eager'}:{status or 'ok'}")
    if status is not None:
        ctx.witness("sampling_estimate.history", f"ideal sampling, a sequence of estimates through the same objects raises {status}", spec,
                    {"demanded": str(wants)})
        return
    if not (sesA.all_groups_sampled() and sesB.all_groups_sampled()):
        ctx.count("history", "skipped:zero-shot-group")
        return
    bad = [i for i, (v, w, sc) in enumerate(zip(vals, wants, scales)) if not abs(v - w) <= ORACLE_RTOL * sc]
    if bad:
        ctx.witness("sampling_estimate.history", "ideal sampling, every group sampled: an estimate made through re-used estimator / sampler / "
                    "factory / allocator / operator objects is not the exact expectation of ITS operator on ITS state", spec,
                    {"steps_wrong": bad, "real": str(vals), "demanded": str(wants)})


def k_history(ctx: Ctx, n_cases: int):
    for _ in range(n_cases):
        run_history_case(ctx, gen_history_case(ctx.rng))


# ---------------------------------------------------------------------------
# K6: the estimate is for the operator AS ASKED — the caller's operator object is changed between obtaining the Estimate and the
#     first read of `.value` / `.error`
# ---------------------------------------------------------------------------
KEY_LIVE = "estimate-follows-later-operator-mutation"
LIVE_ENTRIES = ["sampling_estimate", "create_sampling_estimator", "concurrent_sampling_estimate", "create_sampling_concurrent_estimator",
                "create_general_sampling_estimator", "create_general_sampling_estimator:sequences", "get_estimate_from_sampling_result"]
LIVE_MUTATIONS = ["change_coefficient", "add_term", "add_measured_term_back", "remove_term", "set_constant", "clear", "scale_all"]


def gen_live_case(rng, entry, mutation, order):
    n = rng.randint(1, 3)
    terms = gen_plain_terms(rng, n)
    if mutation == "add_measured_term_back" and len([t for t in terms if t[0]]) < 2:
        mutation = "change_coefficient"
    return {"kernel": "live_op", "entry": entry, "mutation": mutation, "order": order, "n": n, "terms": terms,
            "other_terms": gen_plain_terms(rng, n), "gates": gen_state(rng, n, True), "form": rng.choice(["general", "cb"]), "bits": rng.getrandbits(n),
            "fkind": rng.choice(["bitwise", "individual"]), "akind": rng.choice(["equi", "prop"]), "gform": rng.choice(GFORMS), "total": 4096,
            "which": rng.randrange(8), "new_coef": rng.choice([7.0, -3.5, 0.0, 2.5 + 1.0j])}


def _live_obtain(spec, mutate):
    """obtain the Estimate(s) for `terms` through the entry point, optionally change the caller's operator object, then read; returns
    (value, error, session)"""
    import warnings

    import quri_parts.core.estimator.sampling as ES
    from quri_parts.core.estimator.sampling import estimator_helpers as EH
    from quri_parts.core.operator import PAULI_IDENTITY, pauli_label

    n, T, entry = spec["n"], spec["total"], spec["entry"]
    ses = Session(spec["fkind"], spec["akind"], 1, None, spec.get("gform"))
    op = _mk_op(spec["terms"])
    other = _mk_op(spec["other_terms"])
    state, _ = _mk_state(n, spec["gates"], spec["form"], spec["bits"])
    args = (T, ses.sampler, ses.factory, ses.allocator)
    if entry == "sampling_estimate":
        est = ES.sampling_estimate(op, state, *args)
    elif entry == "create_sampling_estimator":
        est = ES.create_sampling_estimator(*args)(op, state)
    elif entry == "concurrent_sampling_estimate":
        est = list(ES.concurrent_sampling_estimate([other, op], [state, state], *args))[1]
    elif entry == "create_sampling_concurrent_estimator":
        est = list(ES.create_sampling_concurrent_estimator(*args)([op, other], [state]))[0]
    elif entry == "create_general_sampling_estimator":
        est = ES.create_general_sampling_estimator(*args)(op, state)
    elif entry == "create_general_sampling_estimator:sequences":
        est = list(ES.create_general_sampling_estimator(*args)([op], [state, state]))[1]
    else:
        ms = [m for m in ses.factory(op) if m.pauli_set != {PAULI_IDENTITY}]
        sm = EH.distribute_shots_among_pauli_sets(op, ms, ses.allocator, T)
        ms = [m for m in ms if sm[m.pauli_set] > 0]
        est = ES.get_estimate_from_sampling_result(op, ms, op.constant, ses.sampler(EH.get_sampling_circuits_and_shots(state, ms, sm)))
    if mutate:
        labels = [lbl for lbl in op if lbl != PAULI_IDENTITY]
        victim = labels[spec["which"] % len(labels)]
        m = spec["mutation"]
        if m == "change_coefficient":
            op[victim] = spec["new_coef"]
        elif m == "add_term":
            op[pauli_label(f"Z{n + 3}")] = 5.0
        elif m == "add_measured_term_back":  # remove one measured term, overwrite another
            del op[victim]
            op[labels[(spec["which"] + 1) % len(labels)]] = spec["new_coef"]
        elif m == "remove_term":
            del op[victim]
        elif m == "set_constant":
            op.constant = 123.0
        elif m == "clear":
            op.clear()
        else:
            for lbl in list(op):
                op[lbl] = op[lbl] * -3.0
    with warnings.catch_warnings():
        warnings.simplefilter("ignore")
        if spec["order"] == "error_first":
            err = est.error
            val = complex(est.value)
        else:
            val = complex(est.value)
            err = est.error
    return val, err, ses


def run_live_case(ctx: Ctx, spec):
    _, gates = _mk_state(spec["n"], spec["gates"], spec["form"], spec["bits"])
    want = exact_expectation(spec["n"], gates, spec["terms"])  # from the snapshot of the terms, taken before any call
    scale = 1.0 + sum(abs(complex(*c)) for _, c in spec["terms"])
    res = {}
    for tag, mutate in (("untouched", False), ("mutated", True)):
        try:
            v, e, ses = _live_obtain(spec, mutate)
            res[tag] = ("ok", v, e, ses.all_groups_sampled())
        except Exception as ex:  # noqa: BLE001
            res[tag] = ("err", exc_name(ex), None, True)
    ctx.traces += 1
    ctx.case(("live", canon_spec(spec)), nontrivial=res["mutated"][0] == "ok")
    ctx.count("live_operator", f"{spec['entry']}/{spec['mutation']}/{spec['order']}")
    u, m = res["untouched"], res["mutated"]
    if u[0] != "ok" or not u[3]:
        if u[0] != "ok":
            ctx.witness("sampling_estimate.raises", f"ideal sampling, {spec['entry']} raises {u[1]}", spec, {"demanded": str(want)})
        return
    if not abs(u[1] - want) <= ORACLE_RTOL * scale:
        ctx.witness("sampling_estimate.value", f"ideal sampling, every group sampled, {spec['entry']}: the estimate is not the exact expectation", spec,
                    {"real": str(u[1]), "demanded": str(want)})
        return
    bad = None
    if m[0] != "ok":
        bad = f"reading the estimate raises {m[1]}"
    elif not abs(m[1] - want) <= ORACLE_RTOL * scale:
        bad = f"value {m[1]} instead of {want}"
    elif not (m[2] == u[2] or abs(m[2] - u[2]) <= 1e-12 * (1.0 + abs(u[2])) or (m[2] != m[2] and u[2] != u[2])):
        bad = f"error {m[2]} instead of {u[2]} (the same estimate read without touching the operator)"
    if bad:
        ctx.witness(KEY_LIVE, f"the caller's operator object is changed ({spec['mutation']}) after {spec['entry']} returned and before the first read "
                    f"({spec['order']}): {bad} — the estimate must be that of the operator as asked", spec,
                    {"mutated": str(m[:3]), "untouched": str(u[:3]), "demanded_value": str(want)})


def k_live_operator(ctx: Ctx):
    """always run: every entry point × every kind of later change × both read orders"""
    for entry in LIVE_ENTRIES:
        for mutation in LIVE_MUTATIONS:
            for order in ("value_first", "error_first"):
                for _ in range(ctx.n(1, 6)):
                    run_live_case(ctx, gen_live_case(ctx.rng, entry, mutation, order))


def k_rejects(ctx: Ctx):
    """rejection side: an observable wider than the state is refused before anything is sampled — an Operator or a bare label, through
    every entry point"""
    for bare in (False, True):
        for route in ("direct", "default", "estimator", "concurrent", "cc_estimator", "general"):
            spec = dict(F2_CASE)
            if bare:
                spec["op"] = [[[[5, 3]], [1.0, 0.0]]]
                spec["bare"] = True
            else:
                spec["op"] = F2_CASE["op"] + [[[[5, 3]], [1.0, 0.0]]]
            spec["factory"] = {"kind": "bitwise"}
            spec["route"] = route
            st, val, rec, _ = build_and_run(spec)
            ctx.case(("reject", "wide-operator", bare, route), nontrivial=True)
            if (st, val) != ("err", "AssertionError") or rec.pairs is not None:
                ctx.disagree("reject:wide-operator", spec, str((st, val)), "AssertionError before sampling")


KEY_ONESHOT = "get_estimate_from_sampling_result.one-shot-iterable-groups"


def k_oneshot_groups(ctx: Ctx):
    """`get_estimate_from_sampling_result(op, measurement_groups: Iterable[...], const, sampling_counts: Iterable[...])`: the counts are
    materialised, the groups are iterated TWICE — a one-shot iterable of groups (a generator, as a measurement factory may return) leaves no
    reconstructors, the zip is empty and the estimate silently is the constant alone.  Pinned input, replayed on the real code every run."""
    from quri_parts.core.estimator.sampling import get_estimate_from_sampling_result
    from quri_parts.core.measurement import bitwise_commuting_pauli_measurement
    from quri_parts.core.operator import PAULI_IDENTITY, Operator, pauli_label

    op = Operator({pauli_label("Z0"): 2.0, PAULI_IDENTITY: 0.5})
    inp = {"op": "2.0*Z0 + 0.5*I", "state": "|0>", "groups": "generator over bitwise_commuting_pauli_measurement(op) without the identity group",
           "counts": "[{0: 10}] (exact frequencies of 10 shots)", "const": 0.5}
    for form in ("list", "generator"):
        ms = [m for m in bitwise_commuting_pauli_measurement(op) if m.pauli_set != {PAULI_IDENTITY}]
        try:
            v = complex(get_estimate_from_sampling_result(op, ms if form == "list" else (m for m in ms), 0.5, [{0: 10}]).value)
            real = ("ok", v)
        except Exception as e:  # noqa: BLE001
            real = ("err", exc_name(e))
        ctx.traces += 1
        ctx.case(("oneshot-groups", form), nontrivial=True)
        if real != ("ok", 2.5 + 0j):
            ctx.witness(KEY_ONESHOT if form == "generator" else "sampling_estimate.value",
                        f"exact counts handed to get_estimate_from_sampling_result with the groups as a {form}: demanded 2.5", dict(inp, groups_form=form),
                        {"real": str(real), "demanded": "2.5"})


def run(ctx: Ctx, replay=None) -> int:
    ctx.rule = ("cases = (allocator kind × variant, weight vector, total, unit, seed) called directly | (state circuit, operator, measurement "
                "factory, allocator, total, sampler) through the real sampling_estimate with a recording sampler | (Pauli, count dict) through "
                "general_/trivial_pauli_expectation_estimator (any key width, any reconstructor) | (Pauli set, coefficient mapping, counts) through "
                "general_pauli_sum_expectation_estimator vs an exact-rational restatement | (operators × states, container, entry point) through the "
                "concurrent / general entry points and (sequence of estimates through re-used estimator, sampler, factory, allocator, operator "
                "objects) vs the exact expectation from the state vector; argument forms (list/tuple/generator returns, circuit objects, "
                "computational-basis / parametric states, bare labels, integer coefficients, positional/keyword/default constructors, prior calls "
                "on the same allocator, totals beyond 2^32, outcome keys beyond 2^64) are part of the case; real allocation / shots_map / requested (circuit, shots) list / value or exception vs the "
                "Lean model (exact integers; values to 1e-12·(1+Σ|c|) against the model's exact rational, to 1e-11·(1+Σ|c|) against the state-vector oracle; single expectations relative to their own size); the demanded value is recomputed "
                "from the state vector by oracle/c08ideal.py; distinct = distinct canonical inputs; nontrivial = something was allocated / requested")
    ctx.trusted = TRUSTED
    ctx.assumptions = ASSUMPTIONS
    LIFT, PART = "QuriVerif.Props.C08Lift", "QuriVerif.Props.C08Partition"
    ok = ctx.prove([PROPS, LIFT, PART, "QuriVerif.Driver.C08"], [PROPS, LIFT, PART])
    if ok:
        names = [f"QV.Props.C08.{n}" for _, n, _ in ctx.count_obligations([PROPS])]
        names += [f"QV.Props.C08Lift.{n}" for _, n, _ in ctx.count_obligations([LIFT])]
        names += [f"QV.Props.C08Partition.{n}" for _, n, _ in ctx.count_obligations([PART])]
        ctx.audit(names, [PROPS, LIFT, PART])
    else:
        ok_driver, _ = ctx.lake_build(["QuriVerif.Driver.C08"])
        if not ok_driver:
            raise InfraError("the C08 model/driver does not build: " + ctx.build_output_tail[-800:])
    if replay:
        with open(replay) as fh:
            rp = json.load(fh)
        mode = detect_mode(ctx)
        reqs1, pend = [], []
        for w in rp.get("witnesses", []) + rp.get("disagreements", []):
            spec = w.get("input")
            if isinstance(spec, dict) and spec.get("kernel") == "pauli_sum":
                run_pauli_sum_case(ctx, spec)
            elif isinstance(spec, dict) and spec.get("kernel") == "concurrent":
                run_concurrent_case(ctx, spec)
            elif isinstance(spec, dict) and spec.get("kernel") == "history":
                run_history_case(ctx, spec)
            elif isinstance(spec, dict) and spec.get("kernel") == "live_op":
                run_live_case(ctx, spec)
            elif isinstance(spec, dict) and spec.get("big"):
                run_size_case(ctx, spec, mode)
            elif isinstance(spec, dict) and "state" in spec:
                analyse(ctx, spec, mode, reqs1, pend)
            elif isinstance(spec, dict) and "kind" in spec:
                import ast

                spec = dict(spec)
                for fld in ("ws", "prior"):
                    if isinstance(spec.get(fld), str):
                        spec[fld] = ast.literal_eval(spec[fld])
                run_alloc_cases(ctx, [spec])
        finish_cases(ctx, mode, reqs1, pend)
        return ctx.finish()
    with ctx.timed("correspond"):
        mode = detect_mode(ctx)
        ctx.extra["pair_mode"] = mode
        k_allocators(ctx)
        k_pauli(ctx, ctx.n(500, 10000))
        k_estimator(ctx, mode, ctx.n(2500, 25000))
        with ctx.timed("sizes"):
            k_sizes(ctx)
        k_glue(ctx, ctx.n(40, 1000))
        k_pauli_sum(ctx, ctx.n(800, 8000))
        k_concurrent(ctx, ctx.n(300, 3000))
        k_history(ctx, ctx.n(250, 2000))
        k_rejects(ctx)
        k_oneshot_groups(ctx)
        k_live_operator(ctx)
    broken = bool(ctx.failed_obligations or ctx.disagreements)
    if broken:
        with ctx.timed("oracle_search"):
            import time

            t0 = time.time()
            k_estimator(ctx, mode, ctx.n(1000, 15000), with_model=False)
            ctx.search_budget_s = round(time.time() - t0, 2)
    keys = {}
    for w in ctx.witnesses:
        keys[w["key"]] = keys.get(w["key"], 0) + 1
    ctx.extra["witness_keys"] = keys
    return ctx.finish()
