"""C01 — Transpilation preserves the action of the circuit."""
from __future__ import annotations

import math
import os
import sys

sys.path.insert(0, os.path.dirname(os.path.dirname(os.path.abspath(__file__))))

import qp  # noqa: E402
from common import Ctx, InfraError  # noqa: E402
from translate import c01gen, templates  # noqa: E402

KNOWN_LADDER = {"lad_U1qNormalizeWithRZTranspiler_U1q_r2_a0": "U1qNormalizeWithRZTranspiler.general-branch"}

TRUSTED = [
    "Lean 4.33 kernel incl. `decide +kernel` evaluation; axioms audited ⊆ {propext, Classical.choice, Quot.sound}",
    "translator /verif/translate (pysym.py, templates.py, tables.py, c01gen.py): Python-subset symbolic evaluator",
    "Found/Gate.lean restates the documented gate matrices of gates.py (cross-checked numerically every run against oracle/dense.py)",
    "exact-ring reflection: PROVED sound (Proof/PolySound, Proof/MatSound, Props/Reflect: a discharged Template.check / checkExact is a statement about complex operators for all real angles, ζ = exp(iπ/8), xⱼ = exp(iφⱼ/2)); the trusted specification is MatSound.embedAct / semCirc (textbook little-endian gate embedding) and Gate.localMat",
    "PhaseMonoid (Found/Proj.lean) is the abstract interface instantiated by unitary matrices modulo phase",
    "su2_decompose/su4_decompose numerics (cmath.log, np.linalg.eig) are NOT modelled: validated per instance against oracle/dense.py",
    "IonQ native phases (turns) are not in the ring: validated per instance (moduli of matrix entries)",
]


LEAN_TARGETS = ["QuriVerif.Props.C01", "QuriVerif.Props.Reflect", "QuriVerif.Props.ReflectLift", "QuriVerif.Props.C01Lift", "QuriVerif.Props.C01Pass", "QuriVerif.Props.C01Pipeline"]
REFLECT = ["QuriVerif.Props.Reflect", "QuriVerif.Props.ReflectLift", "QuriVerif.Props.C01Lift", "QuriVerif.Props.C01Pass", "QuriVerif.Props.C01Pipeline"]
LEAN_TARGETS_THOROUGH = ["QuriVerif.Props.C01Deep"]


def gen(ctx: Ctx):
    with ctx.timed("translate"):
        tp = c01gen.class_templates()
        txt, n = templates.emit("C01", tp)
        ctx.write_generated("C01Templates", txt)
        ctx.generated_entries += n
        # entry-count cross check: every class with `decompose` is a template, a ladder or known non-template
        cnt, names = c01gen.count_decompose_classes()
        covered = {t.name.split("_")[0] if t.name not in names else t.name for t in tp} | c01gen.NON_TEMPLATE
        missing = [x for x in names if x not in covered and not any(t.name.startswith(x) for t in tp)]
        if missing:
            ctx.failed_obligations.append({"obligation": "translator.entry_count", "error": f"classes not translated: {missing}"})
        known = set(KNOWN_LADDER) if _known_listed(ctx) else set()
        txt, n, desc = templates.emit_ladders("C01L", c01gen.LADDER_CLASSES, known)
        ctx.write_generated("C01Ladders", txt)
        ctx.generated_entries += n
        txt, n, tab = c01gen.gen_tables(set())
        ctx.write_generated("C01Tables", txt)
        ctx.generated_entries += n
        ctx.extra["unparsed_templates"] = [f"{t.name}: {t.error}" for t in tp if t.error]
        try:
            presets = c01gen.gen_presets()
        except Exception as e:  # translator cannot read the presets any more
            ctx.failed_obligations.append({"obligation": "translator.presets", "error": str(e)[:300]})
            presets = {}
        return tp, desc, tab, presets


def _known_listed(ctx):
    from common import load_known_findings

    return any(k["property"] == "C01" and k["key"] in KNOWN_LADDER.values() for k in load_known_findings())


# ---------------------------------------------------------------------------
def real_transpile(make, n, gs):
    """run a real transpiler; returns ('ok', canon gates) or ('err', ExceptionName)"""
    try:
        tr = make()
        out = tr(qp.real_circuit(n, gs))
        return "ok", qp.canon_real(out), out
    except Exception as e:  # noqa: BLE001 – the real code's behaviour, whatever it is
        return "err", type(e).__name__, None


def compare(ctx: Ctx, what, n, gs, passes, make):
    """one correspondence case: real transpiler `make()` vs model pass list"""
    return (what, n, gs, passes, make)


def run_cases(ctx: Ctx, cases):
    reqs = [f"c01pass {n} | {';'.join(passes)} | {qp.enc_circuit(gs)}" for (_, n, gs, passes, _) in cases]
    resp = ctx.driver(reqs)
    for (what, n, gs, passes, make), r in zip(cases, resp):
        st, real, _ = real_transpile(make, n, gs)
        canon = (what, n, tuple(gs))
        ctx.case(canon, nontrivial=True, sample={"pass": what, "n": n, "circuit": qp.enc_circuit(gs), "model": r[:200]})
        ctx.traces += 1
        ctx.count("pass", what.split(":")[0])
        if r.startswith("err"):
            ctx.count("outcome", "model-raises")
            if st != "err":
                ctx.disagree(what, {"n": n, "circuit": qp.enc_circuit(gs), "passes": passes}, str(real)[:300], r)
            continue
        if r == "bad-request":
            raise InfraError(f"driver rejected request for {what}: {reqs[0][:200]}")
        model = qp.dec_circuit(r[3:])
        if st == "err":
            ctx.count("outcome", "real-raises")
            ctx.disagree(what, {"n": n, "circuit": qp.enc_circuit(gs), "passes": passes}, "raises " + real, r[:300])
            continue
        ctx.count("outcome", "changed" if model != list(gs) else "unchanged")
        why = qp.same_gates(real, model)
        if why:
            ctx.disagree(what, {"n": n, "circuit": qp.enc_circuit(gs), "passes": passes}, str(real)[:400], r[:400] + " :: " + why)


ALL_KINDS = qp.ONE_Q + ["RX", "RY", "RZ", "U1", "U2", "U3", "CNOT", "CZ", "SWAP", "TOFFOLI", "Pauli", "PauliRotation"]


def correspond(ctx: Ctx, tp, presets):
    import quri_parts.circuit.transpile as T
    from quri_parts.circuit import gate_names as gn

    rng = ctx.rng
    cases = []
    N = ctx.n(6, 60)
    # 1. every template class, alone and inside ParallelDecomposer
    tmods = {}
    import quri_parts.ionq.circuit.transpile as TI
    import quri_parts.quantinuum.circuit.transpile as TQ
    import quri_parts.quantinuum.circuit.transpile.quantinuum_native_transpiler as TQN

    def find_cls(name):
        for m in (T, TQ, TQN, TI):
            if hasattr(m, name):
                return getattr(m, name)
        return None

    ok_templates = [t for t in tp if t.error is None and t.name != "CNOTHCNOTFusingTranspiler"]
    for t in ok_templates:
        cls = find_cls(t.name)
        if cls is None:
            ctx.disagree("template-class-missing", t.name, "no such class importable", "template exists")
            continue
        kinds = [t.target.kind] + ["H", "CNOT", "RZ", "X"]
        if t.target.kind in ("U1q", "XX", "RZZ", "ZZ"):
            kinds = [t.target.kind, "H", "CNOT"]
        for _ in range(max(2, N // 3)):
            n = rng.randint(3, 4)
            gs = qp.random_grid_circuit(rng, n, rng.randint(1, 6), kinds)
            cases.append((f"decomp:{t.name}", n, gs, [f"decomp:{t.name}"], (lambda c=cls: c())))
    # 2. ParallelDecomposer over random non-clashing subsets
    std = [t for t in ok_templates if hasattr(T, t.name)]
    for _ in range(N):
        rng.shuffle(std)
        chosen, kinds = [], set()
        for t in std:
            if t.target.kind not in kinds and rng.random() < 0.4:
                chosen.append(t)
                kinds.add(t.target.kind)
        if not chosen:
            continue
        n = rng.randint(3, 4)
        gs = qp.random_grid_circuit(rng, n, rng.randint(2, 10), ALL_KINDS)
        names = [t.name for t in chosen]
        cases.append(("parallel", n, gs, ["decomp:" + ",".join(names)],
                      (lambda ns=names: T.ParallelDecomposer([getattr(T, x)() for x in ns]))))
    # 3. fusers, normalize, ladders, identity, pauli
    rotk = ["RX", "RY", "RZ", "RX", "RZ", "H", "CNOT", "Identity"]
    for _ in range(N * 2):
        n = rng.randint(1, 3)
        gs = qp.random_grid_circuit(rng, n, rng.randint(0, 10), rotk)
        cases.append(("fuseRot", n, gs, ["fuseRot"], T.FuseRotationTranspiler))
        cases.append(("zeroElim", n, gs, ["ladder:0:ZeroRotationEliminationTranspiler"], T.ZeroRotationEliminationTranspiler))
        cases.append(("rot2named", n, gs, ["ladder:0:RX2NamedTranspiler", "ladder:0:RY2NamedTranspiler", "ladder:0:RZ2NamedTranspiler"], T.Rotation2NamedTranspiler))
        cases.append(("rz2named-noT", n, gs, ["ladder:1:RZ2NamedTranspiler"], lambda: T.RZ2NamedTranspiler(1e-9, allow_t_tdag=False)))
        lo = rng.choice([0, -64, -128, 64, 32, -200])
        cases.append((f"normalize:{lo}", n, gs, [f"normalize:{lo}"],
                      (lambda lo=lo: T.NormalizeRotationTranspiler((lo * qp.UNIT, lo * qp.UNIT + 2 * math.pi)))))
        cases.append(("idElim", n, gs, ["idElim"], T.IdentityEliminationTranspiler))
        cases.append(("idInsert", n, gs, [f"idInsert:{n}"], T.IdentityInsertionTranspiler))
    chk = ["CNOT", "H", "CNOT", "H", "CNOT", "S"]
    for _ in range(N * 2):
        n = rng.randint(2, 3)
        gs = qp.random_grid_circuit(rng, n, rng.randint(0, 9), chk)
        if rng.random() < 0.5 and n >= 2:  # plant the pattern
            a, b = rng.sample(range(n), 2)
            pos = rng.randint(0, len(gs))
            pat = [qp.tg("CNOT", (a,), (b,)), qp.tg("H", (), (a,)), qp.tg("CNOT", (a,), (b,))]
            if rng.random() < 0.3:
                pat = pat + [qp.tg("H", (), (a,)), qp.tg("CNOT", (a,), (b,))]
            elif rng.random() < 0.5:
                # near misses of the window: H on another wire, second CNOT with another control / target / reversed
                o = [q for q in range(n) if q not in (a, b)]
                x = rng.choice([a, b] + o)
                c2, t2 = rng.choice([(a, b), (b, a)] + [(a, q) for q in o] + [(q, b) for q in o])
                pat = [qp.tg("CNOT", (a,), (b,)), qp.tg("H", (), (x,)), qp.tg("CNOT", (c2,), (t2,))]
            gs = gs[:pos] + pat + gs[pos:]
        cases.append(("fuseCHC", n, gs, ["fuseCHC"], T.CNOTHCNOTFusingTranspiler))
    for _ in range(N):
        n = rng.randint(2, 4)
        gs = qp.random_grid_circuit(rng, n, rng.randint(1, 5), ["Pauli", "PauliRotation", "H", "CNOT"], max_pauli=4)
        cases.append(("pauliDec", n, gs, ["pauliDec"], T.PauliDecomposeTranspiler))
        cases.append(("pauliRotDec", n, gs, ["pauliRotDec"], T.PauliRotationDecomposeTranspiler))
    # 4. Clifford conversion for random target sets
    c1 = sorted(gn.CLIFFORD_GATE_NAMES & gn.SINGLE_QUBIT_GATE_NAMES)
    for _ in range(N * 2):
        ts = [k for k in c1 if rng.random() < 0.35]
        n = rng.randint(1, 3)
        gs = qp.random_grid_circuit(rng, n, rng.randint(1, 8), c1 + ["T", "CNOT", "RZ"])
        cases.append(("clifConv", n, gs, ["clifConv:" + ",".join(ts)], (lambda ts=ts: T.CliffordConversionTranspiler(ts))))
    # 5. rotation conversion + gate set conversion, random target sets (pipelines and runs)
    vocab = ["H", "X", "Y", "Z", "S", "Sdag", "SqrtX", "SqrtXdag", "SqrtY", "SqrtYdag", "T", "Tdag", "RX", "RY", "RZ",
             "CNOT", "CZ", "SWAP", "Identity", "U1", "U2", "U3", "TOFFOLI", "Pauli", "PauliRotation"]
    sets = []
    for _ in range(N * 2):
        s = [k for k in vocab if rng.random() < 0.3]
        if rng.random() < 0.7 and not ({"CNOT", "CZ"} & set(s)):
            s.append(rng.choice(["CNOT", "CZ"]))
        if rng.random() < 0.7 and not ({"RX", "RY", "RZ"} & set(s)):
            s.append(rng.choice(["RX", "RY", "RZ"]))
        sets.append(s)
    sets += [["RX", "RY", "RZ", "CNOT"], ["H", "S", "RZ", "CNOT"], ["X", "SqrtX", "RZ", "CNOT"], ["H", "RZ", "CZ"]]
    preqs = ["c01pipeline " + ",".join(s) for s in sets]
    presp = ctx.driver(preqs)
    for s, r in zip(sets, presp):
        try:
            real = describe(T.GateSetConversionTranspiler(s)._decomposer)
        except Exception as e:  # noqa: BLE001
            real = ["raises:" + type(e).__name__]
        ctx.case(("pipeline", tuple(sorted(s))), sample={"target_set": s, "model_pipeline": r[:300]})
        ctx.traces += 1
        if canon_tokens(real) != canon_tokens(r.split(";") if r else []):
            ctx.disagree("gateSetPipeline", s, real, r)
        n = rng.randint(2, 3)
        gs = qp.random_grid_circuit(rng, n, rng.randint(1, 7), ALL_KINDS)
        cases.append(("gateSetConv", n, gs, ["gateSetConv:1:" + ",".join(s)], (lambda s=s: T.GateSetConversionTranspiler(s))))
    for _ in range(N):
        rots = [k for k in ("RX", "RY", "RZ") if rng.random() < 0.6]
        fav = [k for k in c1 if rng.random() < 0.3]
        n = rng.randint(1, 2)
        gs = qp.random_grid_circuit(rng, n, rng.randint(1, 6), ["RX", "RY", "RZ", "H"])
        cases.append(("rotConv", n, gs, [f"rotConv:{','.join(rots)}:{','.join(fav)}"],
                      (lambda r=rots, f=fav: T.RotationConversionTranspiler(r, f))))
    # 6. presets (as translated from __init__.py)
    for name, toks in presets.items():
        for _ in range(max(3, N // 2)):
            n = rng.randint(2, 3)
            gs = qp.random_grid_circuit(rng, n, rng.randint(1, 8), ALL_KINDS)
            cases.append((f"preset:{name}", n, gs, toks, (lambda nm=name: getattr(T, nm)())))
    # 7. quantinuum passes
    for _ in range(N):
        n = rng.randint(2, 3)
        gs = qp.random_grid_circuit(rng, n, rng.randint(1, 8), ["CNOT", "RZ", "CNOT", "H"])
        if rng.random() < 0.6:
            a, b = rng.sample(range(n), 2)
            pos = rng.randint(0, len(gs))
            pat = [qp.tg("CNOT", (a,), (b,)), qp.tg("RZ", (), (b,), (rng.randint(-100, 100),)), qp.tg("CNOT", (a,), (b,))]
            if rng.random() < 0.5:
                # near misses of the window: RZ on the control or a spectator, second CNOT with another control / target / reversed
                o = [q for q in range(n) if q not in (a, b)]
                x = rng.choice([a, b, b] + o)
                c2, t2 = rng.choice([(a, b), (b, a)] + [(a, q) for q in o] + [(q, b) for q in o])
                pat = [qp.tg("CNOT", (a,), (b,)), qp.tg("RZ", (), (x,), (rng.randint(-100, 100),)), qp.tg("CNOT", (c2,), (t2,))]
            gs = gs[:pos] + pat + gs[pos:]
        cases.append(("cnotRzRzz", n, gs, ["cnotRzRzz"], TQ.CNOTRZ2RZZTranspiler))
        gs2 = qp.random_grid_circuit(rng, 1, rng.randint(1, 4), ["U1q"], angle_pool=[0, -32, 64, 32, 5, 100, -64, 16])
        cases.append(("u1qNormalize", 1, gs2, ["ladder:0:U1qNormalizeWithRZTranspiler"], TQN.U1qNormalizeWithRZTranspiler))
    run_cases(ctx, cases)
    # 8. Clifford approximation rounding (np.round half-to-even on 2θ/π)
    areqs, acs = [], []
    for _ in range(N * 3):
        gs = qp.random_grid_circuit(rng, 2, rng.randint(1, 5), ["RX", "RY", "RZ"], angle_pool=[16, 48, 80, 112, -16, -48, 0, 32, 15, 17, 33, 64, 144, -144, 272])
        areqs.append("c01approx " + qp.enc_circuit(gs))
        acs.append(gs)
    for gs, r in zip(acs, ctx.driver(areqs)):
        st, real, _ = real_transpile(T.CliffordApproximationTranspiler, 2, gs)
        ctx.case(("approx", tuple(gs)), sample=None)
        ctx.traces += 1
        if st == "err" or qp.same_gates(real, qp.dec_circuit(r[3:])):
            ctx.disagree("cliffordApprox", qp.enc_circuit(gs), str(real)[:300], r[:300])


def describe(tr) -> list[str]:
    """canonical pass tokens of a REAL transpiler object (class names + constructor state)"""
    name = type(tr).__name__
    if name == "SequentialTranspiler":
        out = []
        for t in tr._transpilers:
            out += describe(t)
        return out
    if name == "Rotation2NamedTranspiler":
        return ["ladder:0:RX2NamedTranspiler", "ladder:0:RY2NamedTranspiler", "ladder:0:RZ2NamedTranspiler"]
    simple = {
        "FuseRotationTranspiler": "fuseRot", "IdentityEliminationTranspiler": "idElim",
        "PauliDecomposeTranspiler": "pauliDec", "PauliRotationDecomposeTranspiler": "pauliRotDec",
        "SingleQubitUnitaryMatrix2RYRZTranspiler": "um1", "TwoQubitUnitaryMatrixKAKTranspiler": "um2",
    }
    if name in simple:
        return [simple[name]]
    if name == "NormalizeRotationTranspiler":
        return [f"normalize:{round(tr._lower / qp.UNIT)}"]
    if name == "ZeroRotationEliminationTranspiler":
        return ["ladder:0:ZeroRotationEliminationTranspiler"]
    if name == "CliffordConversionTranspiler":
        return ["clifConv:" + ",".join(sorted(tr._gateset))]
    if name == "RotationConversionTranspiler":
        return [f"rotConv:{','.join(sorted(tr._target_rotation))}:{','.join(sorted(tr._favorable_clifford))}"]
    return ["decomp:" + name]


def canon_tokens(toks):
    out = []
    for t in toks:
        if t == "um1":  # the model folds the two unitary-matrix decomposers of the dict entry into one token
            out.append("um")
            continue
        if t == "um2":
            if out and out[-1] == "um":
                continue
            out.append("um")
            continue
        parts = t.split(":")
        if parts[0] == "clifConv":
            parts[1] = ",".join(sorted(x for x in parts[1].split(",") if x))
        if parts[0] == "rotConv":
            parts[1] = ",".join(sorted(x for x in parts[1].split(",") if x))
            parts[2] = ",".join(sorted(x for x in parts[2].split(",") if x))
        out.append(":".join(parts))
    return out


# ---------------------------------------------------------------------------
# gate semantics of the model vs the independent oracle
# ---------------------------------------------------------------------------
def check_gate_semantics(ctx: Ctx):
    import numpy as np

    from oracle import dense

    kinds = {k: 0 for k in qp.ONE_Q}
    kinds.update({"RX": 1, "RY": 1, "RZ": 1, "U1": 1, "U2": 2, "U3": 3, "U1q": 2})
    reqs, meta = [], []
    for k, npar in kinds.items():
        reqs.append(f"gatemat {k}//0/{','.join(['0'] * npar)}/")
        meta.append((k, npar, (), ()))
    for k in ("CNOT", "CZ"):
        reqs.append(f"gatemat {k}/0/1//")
        meta.append((k, 0, (), ()))
    reqs.append("gatemat SWAP//0,1//")
    meta.append(("SWAP", 0, (), ()))
    reqs.append("gatemat TOFFOLI/0,1/2//")
    meta.append(("TOFFOLI", 0, (), ()))
    for k, npar in (("RZZ", 1), ("XX", 1), ("ZZ", 0)):
        reqs.append(f"gatemat {k}//0,1/{','.join(['0'] * npar)}/")
        meta.append((k, npar, (), ()))
    for ids in ([1], [2], [3], [1, 2], [3, 1], [2, 2, 3], [1, 3, 2]):
        t = ",".join(str(i) for i in range(len(ids)))
        reqs.append(f"gatemat Pauli//{t}//{','.join(map(str, ids))}")
        meta.append(("Pauli", 0, tuple(ids), ()))
        reqs.append(f"gatemat PauliRotation//{t}/0/{','.join(map(str, ids))}")
        meta.append(("PauliRotation", 1, tuple(ids), ()))
    resp = ctx.driver(reqs)
    for (k, npar, ids, _), r in zip(meta, resp):
        for _ in range(3):
            phis = [ctx.rng.uniform(-7, 7) for _ in range(npar)]
            m = qp.eval_smat(r, phis)
            o = dense.local_matrix(k, tuple(phis), ids)
            if np.max(np.abs(m - o)) > 1e-9:
                ctx.disagree("gate-semantics", {"kind": k, "angles": phis, "ids": ids}, "oracle/dense.py differs", r[:200])
        ctx.case(("gatemat", k, ids), sample=None)


# ---------------------------------------------------------------------------
# oracle validation / failing-input search on the REAL code
# ---------------------------------------------------------------------------
def nongrid_angle(rng):
    r = rng.random()
    if r < 0.45:
        k = rng.randint(-9, 9)
        return k * math.pi / 4 + rng.choice([0.0, 1e-12, -1e-12, 1e-10, -1e-10, 5e-10, -5e-10, 2e-9, -2e-9, 1e-7, -1e-7])
    return rng.uniform(-4 * math.pi, 4 * math.pi)


def random_real_circuit(rng, n, length, kinds, um=True):
    from quri_parts.circuit import QuantumCircuit, gates

    from oracle import dense

    c = QuantumCircuit(n)
    qs = list(range(n))
    for _ in range(length):
        k = rng.choice(kinds)
        if k in qp.ONE_Q:
            c.add_gate(getattr(gates, k)(rng.choice(qs)))
        elif k in ("RX", "RY", "RZ", "U1"):
            c.add_gate(getattr(gates, k)(rng.choice(qs), nongrid_angle(rng)))
        elif k == "U2":
            c.add_gate(gates.U2(rng.choice(qs), nongrid_angle(rng), nongrid_angle(rng)))
        elif k == "U3":
            c.add_gate(gates.U3(rng.choice(qs), nongrid_angle(rng), nongrid_angle(rng), nongrid_angle(rng)))
        elif k in ("CNOT", "CZ", "SWAP") and n >= 2:
            a, b = rng.sample(qs, 2)
            c.add_gate(getattr(gates, k)(a, b))
        elif k == "TOFFOLI" and n >= 3:
            a, b, t = rng.sample(qs, 3)
            c.add_gate(gates.TOFFOLI(a, b, t))
        elif k in ("Pauli", "PauliRotation"):
            m = rng.randint(1, min(n, 4))
            ts = rng.sample(qs, m)
            ids = [rng.randint(1, 3) for _ in range(m)]
            c.add_gate(gates.Pauli(ts, ids) if k == "Pauli" else gates.PauliRotation(ts, ids, nongrid_angle(rng)))
        elif k == "UM1" and um:
            c.add_gate(gates.UnitaryMatrix([rng.choice(qs)], dense.random_unitary(rng, 2).tolist()))
        elif k == "UM2" and um and n >= 2:
            a, b = rng.sample(qs, 2)
            c.add_gate(gates.UnitaryMatrix([a, b], structured_u4(rng).tolist()))
    return c


def structured_u4(rng):
    import numpy as np

    from oracle import dense

    r = rng.random()
    if r < 0.3:
        return dense.random_unitary(rng, 4)
    if r < 0.5:
        # degenerate / conjugate-paired KAK spectra: controlled rotations (either control), exp(i(aXX+bYY+cZZ)) with
        # coinciding or vanishing interaction coefficients, optionally dressed with local unitaries
        X, Y, Z, I2 = dense.ONE["X"], dense.ONE["Y"], dense.ONE["Z"], np.eye(2)
        ang = rng.choice([math.pi / 2, math.pi, math.pi / 4, -math.pi / 2, 3 * math.pi / 4, rng.uniform(-3.1, 3.1)])
        kind = rng.choice(["crot", "crot", "xxyyzz", "cu"])
        if kind == "crot":
            ax = rng.choice([X, Y, Z])
            rot = math.cos(ang / 2) * I2 - 1j * math.sin(ang / 2) * ax
            P0, P1 = np.diag([1, 0]).astype(complex), np.diag([0, 1]).astype(complex)
            m = np.kron(I2, P0) + np.kron(rot, P1) if rng.random() < 0.5 else np.kron(P0, I2) + np.kron(P1, rot)
        elif kind == "cu":
            u = dense.random_unitary(rng, 2)
            P0, P1 = np.diag([1, 0]).astype(complex), np.diag([0, 1]).astype(complex)
            m = np.kron(I2, P0) + np.kron(u, P1) if rng.random() < 0.5 else np.kron(P0, I2) + np.kron(P1, u)
        else:
            a = rng.choice([0.0, ang / 2, math.pi / 4])
            b = rng.choice([0.0, a, -a, rng.uniform(-1, 1)])
            c = rng.choice([0.0, a, b])
            h = a * np.kron(X, X) + b * np.kron(Y, Y) + c * np.kron(Z, Z)
            w, v = np.linalg.eigh(h)
            m = (v * np.exp(1j * w)) @ v.conj().T
        if rng.random() < 0.4:
            m = np.kron(dense.random_unitary(rng, 2), dense.random_unitary(rng, 2)) @ m @ np.kron(dense.random_unitary(rng, 2), dense.random_unitary(rng, 2))
        return m
    if r < 0.6:
        return np.kron(dense.random_unitary(rng, 2), dense.random_unitary(rng, 2))
    if r < 0.7:
        d = np.exp(1j * np.array([rng.uniform(0, 6.28) for _ in range(4)]))
        return np.diag(d)
    if r < 0.8:
        return dense.local_matrix(rng.choice(["CNOT", "CZ", "SWAP"]))
    if r < 0.9:
        p = list(range(4))
        rng.shuffle(p)
        m = np.zeros((4, 4), dtype=complex)
        for i, j in enumerate(p):
            m[j, i] = 1
        return m
    return np.kron(dense.ONE["H"], dense.ONE["S"]) @ dense.local_matrix("CNOT")


def validate(ctx: Ctx, budget_s: float):
    """every shipped transpiler on random circuits with arbitrary / threshold-adjacent angles:
    the output must have the same unitary up to phase within the documented tolerance, or raise."""
    import time

    import numpy as np

    import quri_parts.circuit.transpile as T
    import quri_parts.ionq.circuit.transpile as TI
    import quri_parts.quantinuum.circuit.transpile as TQ
    import quri_parts.quantinuum.circuit.transpile.quantinuum_native_transpiler as TQN
    from oracle import dense

    rng = ctx.rng
    t0 = time.time()
    full = qp.ONE_Q + ["RX", "RY", "RZ", "U1", "U2", "U3", "CNOT", "CZ", "SWAP", "TOFFOLI", "Pauli", "PauliRotation", "UM1", "UM2"]
    exact_tr = []
    for name in dir(T):
        obj = getattr(T, name)
        if isinstance(obj, type) and name.endswith("Transpiler") and name not in (
            "GateSetConversionTranspiler", "RotationConversionTranspiler", "CliffordConversionTranspiler",
            "CliffordApproximationTranspiler", "QubitRemappingTranspiler", "SequentialTranspiler",
            "ParametricTranspiler", "ParametricSequentialTranspiler", "ParametricRX2RZHTranspiler",
            "ParametricRY2RZHTranspiler", "ParametricPauliRotationDecomposeTranspiler", "NormalizeRotationTranspiler",
        ):
            try:
                inst = obj()
            except Exception:  # abstract or needs args
                continue
            exact_tr.append((name, lambda o=obj: o(), 1e-7))
    exact_tr += [
        ("RZSetTranspiler", T.RZSetTranspiler, 1e-6), ("RotationSetTranspiler", T.RotationSetTranspiler, 1e-6),
        ("STARSetTranspiler", T.STARSetTranspiler, 1e-6), ("CliffordRZSetTranspiler", T.CliffordRZSetTranspiler, 1e-6),
        ("CliffordRZSetTranspiler(1e-4)", lambda: T.CliffordRZSetTranspiler(1e-4), 1e-2),
        ("Normalize(-pi,pi)", lambda: T.NormalizeRotationTranspiler((-math.pi, math.pi)), 1e-7),
        ("Normalize(0,2pi)", lambda: T.NormalizeRotationTranspiler(), 1e-7),
        ("Rotation2Named(1e-5)", lambda: T.Rotation2NamedTranspiler(1e-5), 1e-3),
    ]
    c1 = ["H", "X", "Y", "Z", "S", "Sdag", "SqrtX", "SqrtXdag", "SqrtY", "SqrtYdag", "Identity"]
    n_eval = 0
    worst = 0.0
    it = 0
    while time.time() - t0 < budget_s:
        it += 1
        # a random configuration
        r = rng.random()
        if r < 0.55:
            name, make, tol = rng.choice(exact_tr)
        elif r < 0.8:
            s = [k for k in c1 + ["T", "Tdag", "RX", "RY", "RZ", "CNOT", "CZ", "SWAP", "U3", "TOFFOLI"] if rng.random() < 0.35]
            name, make, tol = f"GateSetConversion({s})", (lambda s=s: T.GateSetConversionTranspiler(s)), 1e-6
        elif r < 0.9:
            s = [k for k in c1 if rng.random() < 0.4]
            name, make, tol = f"CliffordConversion({s})", (lambda s=s: T.CliffordConversionTranspiler(s)), 1e-7
        else:
            rs = [k for k in ("RX", "RY", "RZ") if rng.random() < 0.6]
            fv = [k for k in c1 if rng.random() < 0.3]
            name, make, tol = f"RotationConversion({rs},{fv})", (lambda a=rs, b=fv: T.RotationConversionTranspiler(a, b)), 1e-7
        n = rng.randint(1, 4)
        circ = random_real_circuit(rng, n, rng.randint(1, 7), full)
        try:
            out = make()(circ)
        except Exception as e:  # raising is allowed by the property
            ctx.count("validate", "raised:" + type(e).__name__)
            n_eval += 1
            continue
        n_eval += 1
        if out.qubit_count != n:
            ctx.witness("qubit-count", f"{name} changed qubit_count", describe_circ(circ))
            continue
        try:
            d = dense.phase_dist(dense.circuit_unitary(n, out.gates), dense.circuit_unitary(n, circ.gates))
        except KeyError as e:
            ctx.count("validate", "oracle-unknown-gate")
            continue
        worst = max(worst, d)
        ctx.count("validate", "ok" if d <= tol else "MISMATCH")
        if d > tol:
            small = shrink_circuit(circ, make, tol)
            ctx.witness("transpile:" + name.split("(")[0], f"{name}: output differs from input by {d:.3g} (up to phase)",
                        describe_circ(small), {"dist": d})
    # quantinuum natives
    for _ in range(40 if ctx.quick() else 400):
        from quri_parts.circuit import QuantumCircuit
        from quri_parts.quantinuum.circuit import U1q

        th, ph = nongrid_angle(rng), nongrid_angle(rng)
        if rng.random() < 0.3:
            th = rng.choice([0.0, -math.pi / 2, math.pi, math.pi / 2]) + rng.choice([0, 1e-11, -1e-11])
        c = QuantumCircuit(1)
        c.add_gate(U1q(0, th, ph))
        out = TQN.U1qNormalizeWithRZTranspiler()(c)
        d = dense.phase_dist(dense.circuit_unitary(1, out.gates), dense.circuit_unitary(1, c.gates))
        n_eval += 1
        if d > 1e-6:
            names = [g.name for g in out.gates]
            key = "U1qNormalizeWithRZTranspiler.general-branch" if names == ["U1q", "RZ", "U1q"] else "U1qNormalize:other"
            ctx.witness(key, f"U1qNormalizeWithRZTranspiler differs by {d:.3g}", {"theta": th, "phi": ph, "out": names})
    for cls in (TQ.RX2U1qTranspiler, TQ.RY2U1qTranspiler, TQ.H2U1qRZTranspiler, TQ.CNOT2U1qZZRZTranspiler, TQ.CZ2RZZZTranspiler,
                TQ.CNOTRZ2RZZTranspiler, TI.CNOT2RXRYXXTranspiler):
        for _ in range(5 if ctx.quick() else 60):
            circ = random_real_circuit(rng, 3, rng.randint(1, 6), ["RX", "RY", "RZ", "H", "CNOT", "CZ", "CNOT"], um=False)
            try:
                out = cls()(circ)
            except Exception:
                continue
            d = dense.phase_dist(dense.circuit_unitary(3, out.gates), dense.circuit_unitary(3, circ.gates))
            n_eval += 1
            if d > 1e-7:
                ctx.witness("transpile:" + cls.__name__, f"{cls.__name__} differs by {d:.3g}", describe_circ(circ))
    # the KAK decomposition on its own: structured two-qubit unitaries (degenerate spectra included) must be
    # decomposed faithfully or refused – never silently turned into another operator
    from quri_parts.circuit import QuantumCircuit as _QC
    from quri_parts.circuit import gates as _gates

    for _ in range(60 if ctx.quick() else 1500):
        m = structured_u4(rng)
        c = _QC(2)
        tg = rng.choice([[0, 1], [1, 0]])
        c.add_gate(_gates.UnitaryMatrix(tg, m.tolist()))
        n_eval += 1
        try:
            out = T.TwoQubitUnitaryMatrixKAKTranspiler()(c)
        except Exception as e:  # noqa: BLE001 – refusing is allowed
            ctx.count("validate.kak", "raised:" + type(e).__name__)
            continue
        d = dense.phase_dist(dense.circuit_unitary(2, out.gates), dense.circuit_unitary(2, c.gates))
        ctx.count("validate.kak", "ok" if d <= 1e-6 else "MISMATCH")
        if d > 1e-6:
            ctx.witness("transpile:TwoQubitUnitaryMatrixKAKTranspiler", f"KAK decomposition differs from the input matrix by {d:.3g} (up to phase), no error raised",
                        describe_circ(c), {"dist": d})
    # peephole / fusion passes on 3-gate windows and their near misses (all placements on 3 wires)
    from quri_parts.circuit import QuantumCircuit as _QC2
    from quri_parts.circuit import gates as _g2

    mids = [lambda q: _g2.RZ(q, rng.uniform(-3, 3)), lambda q: _g2.H(q), lambda q: _g2.S(q), lambda q: _g2.Z(q), lambda q: _g2.T(q),
            lambda q: _g2.U1(q, rng.uniform(-3, 3)), lambda q: _g2.RX(q, rng.uniform(-3, 3))]
    win_tr = [("CNOTRZ2RZZTranspiler", TQ.CNOTRZ2RZZTranspiler), ("CNOTHCNOTFusingTranspiler", T.CNOTHCNOTFusingTranspiler),
              ("FuseRotationTranspiler", T.FuseRotationTranspiler)]
    if hasattr(TQ, "QuantinuumSetTranspiler"):
        win_tr.append(("QuantinuumSetTranspiler", TQ.QuantinuumSetTranspiler))
    for _ in range(150 if ctx.quick() else 3000):
        a, b = rng.sample(range(3), 2)
        c2, t2 = rng.sample(range(3), 2)
        c = _QC2(3)
        if rng.random() < 0.3:
            c.add_gate(_g2.H(rng.randrange(3)))
        c.add_gate(_g2.CNOT(a, b))
        c.add_gate(rng.choice(mids)(rng.randrange(3)))
        c.add_gate(_g2.CNOT(c2, t2) if rng.random() < 0.8 else _g2.CZ(c2, t2))
        if rng.random() < 0.3:
            c.add_gate(_g2.RZ(rng.randrange(3), rng.uniform(-3, 3)))
        name, cls = rng.choice(win_tr)
        n_eval += 1
        try:
            out = cls()(c)
        except Exception as e:  # noqa: BLE001
            ctx.count("validate.window", "raised:" + type(e).__name__)
            continue
        try:
            d = dense.phase_dist(dense.circuit_unitary(3, out.gates), dense.circuit_unitary(3, c.gates))
        except KeyError:
            ctx.count("validate.window", "oracle-unknown-gate")
            continue
        ctx.count("validate.window", "ok" if d <= 1e-6 else "MISMATCH")
        if d > 1e-6:
            key = "transpile:" + name
            if name == "QuantinuumSetTranspiler" and any(g.name in ("RX", "RY") for g in c.gates):
                # the preset normalises RX/RY(θ) through U1qNormalizeWithRZTranspiler's general branch (known finding)
                key = "QuantinuumSetTranspiler.via-U1qNormalize-general-branch"
            ctx.witness(key, f"{name}: output differs from input by {d:.3g} (up to phase) on a 3-gate window",
                        describe_circ(c), {"dist": d})
    ionq_validate(ctx, TI)
    clifford_approx_validate(ctx, T)
    ctx.extra["oracle_validation"] = {"evaluations": n_eval, "worst_phase_dist_ok": worst}
    ctx.evaluations += n_eval
    ctx.search_budget_s = budget_s


def ionq_validate(ctx, TI):
    """documented weaker relation: computational-basis measurement statistics are preserved,
    i.e. |<y|V|x>| = |<y|U|x>| for all x, y (per-qubit Z phases on the output side)."""
    import numpy as np

    from oracle import dense
    from quri_parts.circuit import QuantumCircuit, gates
    from quri_parts.ionq.circuit import XX

    rng = ctx.rng

    def ionq_unitary(n, gs):
        u = np.eye(1 << n, dtype=complex)
        for g in gs:
            if g.name == "GPi":
                p = 2 * math.pi * g.params[0]
                m = np.array([[0, np.exp(-1j * p)], [np.exp(1j * p), 0]])
            elif g.name == "GPi2":
                p = 2 * math.pi * g.params[0]
                m = np.array([[1, -1j * np.exp(-1j * p)], [-1j * np.exp(1j * p), 1]]) / math.sqrt(2)
            elif g.name == "MS":
                p0, p1 = (2 * math.pi * x for x in g.params)
                m = np.array([[1, 0, 0, -1j * np.exp(-1j * (p0 + p1))], [0, 1, -1j * np.exp(-1j * (p0 - p1)), 0],
                              [0, -1j * np.exp(1j * (p0 - p1)), 1, 0], [-1j * np.exp(1j * (p0 + p1)), 0, 0, 1]]) / math.sqrt(2)
            else:
                raise KeyError(g.name)
            # the MS matrix of the docstring is IonQ's: first qubit = most significant bit
            u = dense.embed(n, list(g.target_indices)[::-1], m) @ u
        return u

    for _ in range(20 if ctx.quick() else 300):
        n = rng.randint(1, 3)
        c = QuantumCircuit(n)
        for _ in range(rng.randint(1, 6)):
            k = rng.choice(["RX", "RY", "RZ", "XX"])
            if k == "XX" and n >= 2:
                a, b = rng.sample(range(n), 2)
                c.add_gate(XX(a, b, rng.choice([math.pi / 4, -math.pi / 4])))
            elif k != "XX":
                ang = rng.choice([0.5 * math.pi, -0.5 * math.pi, math.pi, -math.pi]) if rng.random() < 0.4 else rng.uniform(-6, 6)
                c.add_gate(getattr(gates, k)(rng.randrange(n), ang))
        try:
            out = TI.IonQNativeTranspiler()(c)
            v = ionq_unitary(n, out.gates)
        except Exception:
            continue
        u = dense.circuit_unitary(n, c.gates)
        dm = u @ v.conj().T  # must be diagonal: per-qubit Z phases only
        d = float(np.max(np.abs(dm - np.diag(np.diag(dm)))))
        ctx.evaluations += 1
        if d > 1e-6:
            ctx.witness("transpile:IonQNativeTranspiler", f"U·V† is not diagonal (off-diagonal {d:.3g}): outcome statistics differ", describe_circ(c))


def clifford_approx_validate(ctx, T):
    """documented weaker relation: every angle replaced by the nearest multiple of π/2; on inputs whose
    angles already are multiples of π/2 the action is preserved exactly"""
    from oracle import dense

    rng = ctx.rng
    from quri_parts.circuit import QuantumCircuit, gates

    for _ in range(20 if ctx.quick() else 300):
        n = rng.randint(1, 3)
        c = QuantumCircuit(n)
        for _ in range(rng.randint(1, 6)):
            k = rng.choice(["RX", "RY", "RZ", "U1", "U2", "U3", "PauliRotation", "H", "CNOT", "S"])
            a = lambda: rng.randint(-6, 6) * math.pi / 2
            q = rng.randrange(n)
            if k in ("RX", "RY", "RZ", "U1"):
                c.add_gate(getattr(gates, k)(q, a()))
            elif k == "U2":
                c.add_gate(gates.U2(q, a(), a()))
            elif k == "U3":
                c.add_gate(gates.U3(q, a(), a(), a()))
            elif k == "PauliRotation":
                m = rng.randint(1, n)
                ts = rng.sample(range(n), m)
                c.add_gate(gates.PauliRotation(ts, [rng.randint(1, 3) for _ in ts], a()))
            elif k == "CNOT" and n >= 2:
                x, y = rng.sample(range(n), 2)
                c.add_gate(gates.CNOT(x, y))
            elif k in ("H", "S"):
                c.add_gate(getattr(gates, k)(q))
        try:
            out = T.CliffordApproximationTranspiler()(c)
        except Exception:
            continue
        d = dense.phase_dist(dense.circuit_unitary(n, out.gates), dense.circuit_unitary(n, c.gates))
        ctx.evaluations += 1
        if d > 1e-7:
            ctx.witness("transpile:CliffordApproximationTranspiler", f"on Clifford angles the action changed by {d:.3g}", describe_circ(c))


def describe_circ(c):
    out = []
    for g in c.gates:
        d = {"name": g.name, "targets": list(g.target_indices)}
        if g.control_indices:
            d["controls"] = list(g.control_indices)
        if g.params:
            d["params"] = [repr(float(x)) for x in g.params]
        if g.pauli_ids:
            d["pauli_ids"] = list(g.pauli_ids)
        if g.name == "UnitaryMatrix":
            d["matrix"] = [[repr(complex(x)) for x in row] for row in g.unitary_matrix]
        out.append(d)
    return {"qubit_count": c.qubit_count, "gates": out}


def shrink_circuit(circ, make, tol):
    """delta-debug the gate list while the mismatch persists"""
    from quri_parts.circuit import QuantumCircuit

    from oracle import dense

    gs = list(circ.gates)
    n = circ.qubit_count

    def bad(g2):
        c = QuantumCircuit(n)
        c.extend(g2)
        try:
            out = make()(c)
            return dense.phase_dist(dense.circuit_unitary(n, out.gates), dense.circuit_unitary(n, c.gates)) > tol
        except Exception:
            return False

    changed = True
    while changed and len(gs) > 1:
        changed = False
        for i in range(len(gs)):
            g2 = gs[:i] + gs[i + 1:]
            if bad(g2):
                gs = g2
                changed = True
                break
    c = QuantumCircuit(n)
    c.extend(gs)
    return c


def check_factories(ctx: Ctx):
    """translator self-test: the factory signatures assumed by pysym.FACTORY match the real factories"""
    from quri_parts.circuit import gates

    from translate import pysym

    for name, sig in pysym.FACTORY.items():
        args, exp_c, exp_t, exp_p = [], [], [], []
        q = 0
        for s in sig:
            if s == "t":
                args.append(q); exp_t.append(q); q += 1
            elif s == "c":
                args.append(q); exp_c.append(q); q += 1
            elif s == "p":
                v = 0.1 * (len(exp_p) + 1)
                args.append(v); exp_p.append(v)
            elif s == "T":
                args.append([0, 1]); exp_t += [0, 1]
            elif s == "I":
                args.append([1, 3])
            elif s == "M":
                args.append([[1, 0, 0, 0], [0, 1, 0, 0], [0, 0, 0, 1], [0, 0, 1, 0]])
        g = getattr(gates, name)(*args)
        if list(g.target_indices) != exp_t or list(g.control_indices) != exp_c or [round(x, 9) for x in g.params] != [round(x, 9) for x in exp_p]:
            ctx.disagree("factory-signature", name, f"t={g.target_indices} c={g.control_indices} p={g.params}", str(sig))


def run(ctx: Ctx, replay=None) -> int:
    ctx.rule = ("cases = (pass or pipeline, qubit count, grid-angle circuit); real transpiler output vs Lean model output "
                "gate-for-gate; distinct = distinct (pass, circuit) keys; plus oracle validation of every shipped transpiler "
                "on random circuits with arbitrary and threshold-adjacent angles (counted in evaluations only)")
    ctx.trusted = TRUSTED
    ctx.assumptions = ["documented gate matrices (gates.py) define the semantics", "angles on the π/64 grid for the model correspondence"]
    tp, desc, tab, presets = gen(ctx)
    deep = [] if ctx.quick() else ["QuriVerif.Props.C01Deep"]
    ok = ctx.prove(["QuriVerif.Props.C01"] + REFLECT + ["QuriVerif.Driver.All"] + deep,
                   ["QuriVerif.Props.C01"] + REFLECT + ["QuriVerif.Generated.C01Templates", "QuriVerif.Generated.C01Ladders",
                    "QuriVerif.Generated.C01Tables"] + deep)
    if ok:
        names = [f"QV.Props.C01.{n}" for _, n, _ in ctx.count_obligations(["QuriVerif.Props.C01"])]
        private = {"hh_exact", "rxT_exact", "rxT_nz", "cnotT_check", "cnotT_nz", "u3T_check", "u3T_nz", "toffoliT_check", "toffoliT_nz"}
        names += [f"QV.Props.Reflect.{n}" for _, n, _ in ctx.count_obligations(REFLECT[:2]) if n not in private]
        names += [f"QV.Props.C01Lift.{n}" for _, n, _ in ctx.count_obligations(REFLECT[2:3])]
        names += [f"QV.Props.C01Pass.{n}" for _, n, _ in ctx.count_obligations(REFLECT[3:4]) if n != "circ3_ok"]
        priv = {"circ_inv", "pipe_runs", "pipe_len", "circ2_inv", "pipe2_runs", "pipe2_kinds", "circ3_inv", "pipe3_runs", "pipe3_len"}
        names += [f"QV.Props.C01Pipeline.{n}" for _, n, _ in ctx.count_obligations(REFLECT[4:]) if n not in priv]
        ctx.audit(names, ["QuriVerif.Props.C01"] + REFLECT)
        with ctx.timed("correspond"):
            check_factories(ctx)
            check_gate_semantics(ctx)
            correspond(ctx, tp, presets)
    with ctx.timed("oracle_validation"):
        budget = (25 if ctx.quick() else 240) * (1 if ok and not ctx.disagreements else 3)
        validate(ctx, budget)
    return ctx.finish()
